/-
  M4 — model of `lemoncheesecake/reporting/writer.py` (`ReportWriter`: events → report) and of the
  accessors of `reporting/report.py` / `testtree.py` every reader of a report goes through
  (`get_tests`, `get_suites`, `find_suite`, `find_test`, `ReportLocation.get`, `flatten_suites`,
  `all_suites`, `all_tests`, `all_results`).

  The state is the `Report` (children in insertion order, as `_suites` / `_tests` hold them) plus
  `active : List (tid × StepRef)` (`ReportWriter.active_steps`).  Python keeps a *reference* to the
  `Step` object; the model keeps where that object sits in the tree (location + index in the result's
  step list) or the fact that the object is no longer part of the report (`target = none`: its
  result was replaced by a later start event), plus the only field of the object the writer ever
  reads back (`end_time`).

  Every lookup that can fail in the code (`LookupError` from `find_suite`/`find_test`,
  `AttributeError` on `None`, the three `assert`s of `_add_step_log`) is an explicit `WriterErr`.
  Core Lean only.
-/
import LccModel.Model.Report

namespace LccModel.Writer
open LccModel.Report

/-! ### generic list helpers -/

/-- Python truthiness of an optional time (`if x.end_time:`): `None` and `0.0` are falsy. -/
def truthyTime : Option Time → Bool
  | some t => t != 0
  | none => false

/-- Stable insertion by a `Nat` key: `x` goes before the first element whose key is `≥` its own. -/
def insertByRank {α : Type} (rank : α → Nat) (x : α) : List α → List α
  | [] => [x]
  | y :: ys => if rank x ≤ rank y then x :: y :: ys else y :: insertByRank rank x ys

/-- `sorted(xs, key=rank)` (stable). -/
def sortByRank {α : Type} (rank : α → Nat) : List α → List α
  | [] => []
  | x :: xs => insertByRank rank x (sortByRank rank xs)

/-- `d[key x] = x` on an insertion-ordered dict held as the list of its values: an existing key keeps
    its position and gets the new value, a new key goes last. -/
def dictSet {α : Type} (key : α → String) (x : α) : List α → List α
  | [] => [x]
  | y :: ys => if key y == key x then x :: ys else y :: dictSet key x ys

/-- Apply `f` to the first element satisfying `p` (`next(s for s in … if …)` followed by a mutation
    of that object); `nf` when there is none. -/
def modifyFirst {α ε : Type} (p : α → Bool) (f : α → Except ε α) (nf : ε) : List α → Except ε (List α)
  | [] => .error nf
  | x :: xs =>
    if p x then
      match f x with
      | .ok y => .ok (y :: xs)
      | .error e => .error e
    else
      match modifyFirst p f nf xs with
      | .ok ys => .ok (x :: ys)
      | .error e => .error e

/-- pairwise distinct (dict keys, sibling names) -/
def distinctNames (names : List String) : Bool :=
  match names with
  | [] => true
  | n :: rest => !rest.contains n && distinctNames rest

/-- Apply `f` to the `n`-th element (no change when out of range). -/
def modifyNth {α : Type} (f : α → α) : Nat → List α → List α
  | _, [] => []
  | 0, x :: xs => f x :: xs
  | n + 1, x :: xs => x :: modifyNth f n xs

/-! ### accessors of `SuiteResult` / `Report` -/

def _root_.LccModel.Report.SuiteResult.setSuites : SuiteResult → List SuiteResult → SuiteResult
  | .mk md st en su td ts _, ss => .mk md st en su td ts ss
def _root_.LccModel.Report.SuiteResult.setTests : SuiteResult → List TestResult → SuiteResult
  | .mk md st en su td _ ss, ts => .mk md st en su td ts ss
def _root_.LccModel.Report.SuiteResult.setSetup : SuiteResult → Option Result → SuiteResult
  | .mk md st en _ td ts ss, su => .mk md st en su td ts ss
def _root_.LccModel.Report.SuiteResult.setTeardown : SuiteResult → Option Result → SuiteResult
  | .mk md st en su _ ts ss, td => .mk md st en su td ts ss
def _root_.LccModel.Report.SuiteResult.setEndTime : SuiteResult → Option Time → SuiteResult
  | .mk md st _ su td ts ss, en => .mk md st en su td ts ss

def testRank (t : TestResult) : Nat := t.md.rank
def suiteRank (s : SuiteResult) : Nat := s.md.rank

/-- `SuiteResult.get_tests()` -/
def getTests (s : SuiteResult) : List TestResult := sortByRank testRank s.tests
/-- `SuiteResult.get_suites()` -/
def getSuites (s : SuiteResult) : List SuiteResult := sortByRank suiteRank s.suites
/-- `Report.get_suites()` -/
def reportSuites (r : Report) : List SuiteResult := sortByRank suiteRank r.suites

mutual
/-- The suite as its readers see it: at every level the children are what `get_tests()` /
    `get_suites()` return (stable sort by rank).  Readers written as "for x in suite.get_suites():
    recurse(x)" are modelled as plain list recursion over `sortDeep`. -/
def sortDeep : SuiteResult → SuiteResult
  | .mk md st en su td ts ss =>
    .mk md st en su td (sortByRank testRank ts) (sortByRank suiteRank (sortDeepList ss))
def sortDeepList : List SuiteResult → List SuiteResult
  | [] => []
  | s :: ss => sortDeep s :: sortDeepList ss
end

mutual
/-- `flatten_suites([s])` over an already `sortDeep`-ed suite (list order). -/
def flattenSuite : SuiteResult → List SuiteResult
  | .mk md st en su td ts ss => .mk md st en su td ts ss :: flattenSuites ss
/-- `flatten_suites(suites)` (list order). -/
def flattenSuites : List SuiteResult → List SuiteResult
  | [] => []
  | s :: ss => flattenSuite s ++ flattenSuites ss
end

/-- `Report.get_suites()` with every level below seen through the sorted accessors. -/
def view (r : Report) : List SuiteResult := sortByRank suiteRank (sortDeepList r.suites)

/-- `Report.all_suites()` = `flatten_suites(self._suites)`: the TOP level in insertion order, every
    level below through the rank-sorted `get_suites()`. -/
def allSuites (r : Report) : List SuiteResult := flattenSuites (sortDeepList r.suites)

/-- `Report.all_tests()` = `flatten_tests(self._suites)`. -/
def allTests (r : Report) : List TestResult := (allSuites r).flatMap (·.tests)

/-- One element of `Report.all_results()`: a phase result or a test. -/
inductive AnyResult
  | phase (r : Result)
  | test (t : TestResult)
deriving DecidableEq, Repr

def AnyResult.result : AnyResult → Result
  | .phase r => r
  | .test t => t.result

def optPhase : Option Result → List AnyResult
  | none => []
  | some r => [.phase r]

/-- `flatten_results(suites)` over `sortDeep`-ed suites. -/
def flattenResults (ss : List SuiteResult) : List AnyResult :=
  (flattenSuites ss).flatMap (fun s => optPhase s.setup ++ s.tests.map AnyResult.test ++ optPhase s.teardown)

/-- `Report.all_results()` (uses `self.get_suites()`: the top level is rank-sorted here). -/
def allResults (r : Report) : List AnyResult :=
  optPhase r.setup ++ flattenResults (view r) ++ optPhase r.teardown

/-! ### writer state and errors -/

/-- The reference `active_steps[tid]` holds: where the `Step` object sits in the report
    (`none`: the object was detached from the report), and its `end_time`. -/
structure StepRef where
  target : Option (Loc × Nat)
  endTime : Option Time
deriving DecidableEq, Repr, Inhabited

structure WriterState where
  report : Report
  active : List (Nat × StepRef)        -- most recent binding first; `List.lookup` = `active_steps[tid]`
deriving Repr, Inhabited

inductive WriterErr
  | lookupSuite (name : String)   -- `LookupError` raised by `find_suite`
  | lookupTest (path : Path)      -- `LookupError` raised by `find_test`
  | noneSuite                     -- `AttributeError`: `find_suite(…, ())` returned `None` and it is dereferenced
  | noParent                      -- `AttributeError`: a test event whose test has no parent suite (`None.split`)
  | noneResult (loc : Loc)        -- `AttributeError`: attribute access on a `None` result (`_finalize_result(None, …)`, `None.add_step`)
  | noneStep                      -- `AttributeError`: `on_step_end` for a thread without active step
  | assertLocation                -- `assert result, "Cannot find location …"`
  | assertActiveStep              -- `assert step, "Cannot find active step …"`
  | assertStepEnded               -- `assert not step.end_time`
  | probe (n : Nat)               -- not an error: carries a value read through the same lookup (see `stepCount`)
  | internal                      -- unreachable (a step reference always resolves; see `Lemmas/Writer.lean`)
deriving DecidableEq, Repr, Inhabited

/-- The Python exception class the harness observes. -/
def WriterErr.pyClass : WriterErr → String
  | .lookupSuite _ | .lookupTest _ => "LookupError"
  | .noneSuite | .noParent | .noneResult _ | .noneStep => "AttributeError"
  | .assertLocation | .assertActiveStep | .assertStepEnded => "AssertionError"
  | .probe _ | .internal => "ModelInternal"

/-! ### lookups (`find_suite`, `find_test`, `ReportLocation.get`) as in-place modification -/

/-- `find_suite(suites, path)` followed by a mutation `f` of the suite found.  At every level the
    FIRST suite with the name is taken; a missing name is a `LookupError`; the empty hierarchy makes
    `find_suite` return `None`, which every caller then dereferences. -/
def modifySuite (f : SuiteResult → Except WriterErr SuiteResult) :
    Path → List SuiteResult → Except WriterErr (List SuiteResult)
  | [], _ => .error .noneSuite
  | [n], ss => modifyFirst (fun s => s.md.name == n) f (.lookupSuite n) ss
  | n :: m :: rest, ss =>
    modifyFirst (fun s => s.md.name == n)
      (fun s => match modifySuite f (m :: rest) s.suites with
                | .ok sub => .ok (s.setSuites sub)
                | .error e => .error e)
      (.lookupSuite n) ss

/-- `find_test(suites, path)` followed by a mutation of the test found
    (`find_suite(path[:-1])`, then the `_tests` dict lookup by name). -/
def modifyTest (f : TestResult → Except WriterErr TestResult) (p : Path) (ss : List SuiteResult) :
    Except WriterErr (List SuiteResult) :=
  match p.getLast? with
  | none => .error .noneSuite
  | some last =>
    modifySuite
      (fun s => match modifyFirst (fun t => t.md.name == last) f (.lookupTest p) s.tests with
                | .ok ts => .ok (s.setTests ts)
                | .error e => .error e)
      p.dropLast ss

def liftSuites (r : Report) : Except WriterErr (List SuiteResult) → Except WriterErr Report
  | .ok ss => .ok { r with suites := ss }
  | .error e => .error e

/-- `report.get(location)` followed by a mutation `f` of the `Result` found; a `None` result
    (no setup/teardown started) is `noneResult`. -/
def modifyResult (f : Result → Except WriterErr Result) (loc : Loc) (r : Report) : Except WriterErr Report :=
  match loc with
  | .sessionSetup =>
    match r.setup with
    | none => .error (.noneResult loc)
    | some x => match f x with
      | .ok y => .ok { r with setup := some y }
      | .error e => .error e
  | .sessionTeardown =>
    match r.teardown with
    | none => .error (.noneResult loc)
    | some x => match f x with
      | .ok y => .ok { r with teardown := some y }
      | .error e => .error e
  | .suiteSetup p =>
    liftSuites r (modifySuite (fun s => match s.setup with
      | none => .error (.noneResult loc)
      | some x => match f x with
        | .ok y => .ok (s.setSetup (some y))
        | .error e => .error e) p r.suites)
  | .suiteTeardown p =>
    liftSuites r (modifySuite (fun s => match s.teardown with
      | none => .error (.noneResult loc)
      | some x => match f x with
        | .ok y => .ok (s.setTeardown (some y))
        | .error e => .error e) p r.suites)
  | .test p =>
    liftSuites r (modifyTest (fun t => match f t.result with
      | .ok y => .ok { t with result := y }
      | .error e => .error e) p r.suites)

/-- Read the number of steps of the result at `loc` through exactly the lookup `modifyResult` performs
    (the value travels in the `probe` constructor, so that reading and writing provably address the
    same object — in Python both go through the object `report.get(location)` returns). -/
def stepCount (loc : Loc) (r : Report) : Except WriterErr Nat :=
  match modifyResult (fun x => .error (.probe x.steps.length)) loc r with
  | .error (.probe n) => .ok n
  | .error e => .error e
  | .ok _ => .error .internal

/-- `result = self.report.get(event.location); assert result` -/
def checkLocation (loc : Loc) (r : Report) : Except WriterErr Unit :=
  match modifyResult (fun x => .ok x) loc r with
  | .ok _ => .ok ()
  | .error (.noneResult _) => .error .assertLocation
  | .error e => .error e

/-! ### the handlers -/

/-- `_initialize_result(start_time)` -/
def initResult (t : Time) : Result :=
  { steps := [], startTime := some t, endTime := none, status := none, statusDetails := none }

/-- `_finalize_result(result, end_time)`: the status comes from `Result.is_successful()`. -/
def finalizeResult (t : Time) (x : Result) : Result :=
  { x with endTime := some t, status := some (if x.ok then .passed else .failed) }

/-- `_initialize_test_result(test, start_time)` -/
def initTest (md : Meta) (t : Time) : TestResult :=
  { md := md, result := initResult t }

/-- `_bypass_test`'s result -/
def bypassTest (md : Meta) (st : Status) (details : Option String) (t : Time) : TestResult :=
  { md := md, result := { steps := [], startTime := some t, endTime := some t, status := some st,
                           statusDetails := details } }

/-- `SuiteResult(name, description)` as filled in by `on_suite_start` -/
def initSuite (md : Meta) (t : Time) : SuiteResult := .mk md (some t) none none none [] []

/-- The result at `loc` is replaced by a new object: references into the old one stay alive in
    `active_steps` but no longer point into the report. -/
def detach (loc : Loc) (act : List (Nat × StepRef)) : List (Nat × StepRef) :=
  act.map (fun (tid, ref) =>
    match ref.target with
    | some (l, _) => if l = loc then (tid, { ref with target := none }) else (tid, ref)
    | none => (tid, ref))

/-- `suite_result.add_test(test_result)` (`_tests[name] = test`) on the suite at `parent`. -/
def addTest (parent : Path) (tr : TestResult) (r : Report) : Except WriterErr Report :=
  match parent with
  | [] => .error .noParent
  | _ => liftSuites r (modifySuite (fun s => .ok (s.setTests (dictSet (fun t => t.md.name) tr s.tests))) parent r.suites)

def setStepEnd (t : Time) (s : Step) : Step := { s with endTime := some t }
def addEntryToStep (e : Entry) (s : Step) : Step := { s with entries := s.entries ++ [e] }

/-- `assert not step.end_time; step.add_log(log)` on the `idx`-th step of a result.  The `Step` object the writer
    holds IS the node in the report, so its `end_time` is read from the report itself. -/
def addEntryAt (idx : Nat) (e : Entry) (x : Result) : Except WriterErr Result :=
  match x.steps[idx]? with
  | none => .error .internal
  | some s =>
    if truthyTime s.endTime then .error .assertStepEnded
    else .ok { x with steps := modifyNth (addEntryToStep e) idx x.steps }

/-- `_add_step_log(log, event)` -/
def addEntry (w : WriterState) (loc : Loc) (tid : Nat) (e : Entry) : Except WriterErr WriterState :=
  match checkLocation loc w.report with
  | .error err => .error err
  | .ok () =>
    match w.active.lookup tid with
    | none => .error .assertActiveStep
    | some ref =>
      match ref.target with
      | none =>
        -- a `Step` object that is no longer part of the report: only its own `end_time` matters
        if truthyTime ref.endTime then .error .assertStepEnded else .ok w
      | some (l, idx) =>
        match modifyResult (addEntryAt idx e) l w.report with
        | .ok r' => .ok { w with report := r' }
        | .error .assertStepEnded => .error .assertStepEnded
        | .error _ => .error .internal

def onResultStart (loc : Loc) (w : WriterState) (r' : Except WriterErr Report) : Except WriterErr WriterState :=
  match r' with
  | .ok r' => .ok { report := r', active := detach loc w.active }
  | .error e => .error e

def onReport (w : WriterState) (r' : Except WriterErr Report) : Except WriterErr WriterState :=
  match r' with
  | .ok r' => .ok { w with report := r' }
  | .error e => .error e

/-- `ReportWriter.on_<event>`. -/
def apply (w : WriterState) (ev : Event) : Except WriterErr WriterState :=
  let r := w.report
  match ev with
  | .sessionStart t => .ok { w with report := { r with startTime := some t } }
  | .sessionEnd t => .ok { w with report := { r with endTime := some t } }
  | .sessionSetupStart t =>
    .ok { report := { r with setup := some (initResult t) }, active := detach .sessionSetup w.active }
  | .sessionSetupEnd t => onReport w (modifyResult (fun x => .ok (finalizeResult t x)) .sessionSetup r)
  | .sessionTeardownStart t =>
    .ok { report := { r with teardown := some (initResult t) }, active := detach .sessionTeardown w.active }
  | .sessionTeardownEnd t => onReport w (modifyResult (fun x => .ok (finalizeResult t x)) .sessionTeardown r)
  | .suiteStart path md t =>
    match path.dropLast with
    | [] => .ok { w with report := { r with suites := r.suites ++ [initSuite md t] } }
    | parent => onReport w (liftSuites r
        (modifySuite (fun s => .ok (s.setSuites (s.suites ++ [initSuite md t]))) parent r.suites))
  | .suiteEnd path t =>
    onReport w (liftSuites r (modifySuite (fun s => .ok (s.setEndTime (some t))) path r.suites))
  | .suiteSetupStart path t =>
    onResultStart (.suiteSetup path) w
      (liftSuites r (modifySuite (fun s => .ok (s.setSetup (some (initResult t)))) path r.suites))
  | .suiteSetupEnd path t =>
    onReport w (modifyResult (fun x => .ok (finalizeResult t x)) (.suiteSetup path) r)
  | .suiteTeardownStart path t =>
    onResultStart (.suiteTeardown path) w
      (liftSuites r (modifySuite (fun s => .ok (s.setTeardown (some (initResult t)))) path r.suites))
  | .suiteTeardownEnd path t =>
    onReport w (modifyResult (fun x => .ok (finalizeResult t x)) (.suiteTeardown path) r)
  | .testStart path md t =>
    onResultStart (.test (path.dropLast ++ [md.name])) w (addTest path.dropLast (initTest md t) r)
  | .testEnd path t => onReport w (modifyResult (fun x => .ok (finalizeResult t x)) (.test path) r)
  | .testSkipped path md reason t =>
    onResultStart (.test (path.dropLast ++ [md.name])) w (addTest path.dropLast (bypassTest md .skipped reason t) r)
  | .testDisabled path md reason t =>
    onResultStart (.test (path.dropLast ++ [md.name])) w (addTest path.dropLast (bypassTest md .disabled reason t) r)
  | .stepStart loc description tid t =>
    match stepCount loc r with
    | .error e => .error e
    | .ok n =>
      let step : Step := { description := description, startTime := some t, endTime := none, entries := [] }
      match modifyResult (fun x => .ok { x with steps := x.steps ++ [step] }) loc r with
      | .error e => .error e
      | .ok r' => .ok { report := r', active := (tid, { target := some (loc, n), endTime := none }) :: w.active }
  | .stepEnd _ _ tid t =>
    match w.active.lookup tid with
    | none => .error .noneStep
    | some ref =>
      let act := (tid, { ref with endTime := some t }) :: w.active
      match ref.target with
      | none => .ok { w with active := act }
      | some (l, idx) =>
        match modifyResult (fun x => .ok { x with steps := modifyNth (setStepEnd t) idx x.steps }) l r with
        | .ok r' => .ok { report := r', active := act }
        | .error _ => .error .internal
  | .log loc _ tid level message t => addEntry w loc tid (.log level message t)
  | .check loc _ tid description ok details t => addEntry w loc tid (.check description ok details t)
  | .attachment loc _ tid path description asImage t => addEntry w loc tid (.attachment description path asImage t)
  | .url loc _ tid url description t => addEntry w loc tid (.url description url t)

/-- Handle a whole stream; stops at the first raising handler. -/
def run (w : WriterState) : List Event → Except WriterErr WriterState
  | [] => .ok w
  | e :: es =>
    match apply w e with
    | .ok w' => run w' es
    | .error err => .error err

def initState (r : Report := Report.empty) : WriterState := { report := r, active := [] }

/-- `ReportWriter(Report())` fed with `es`. -/
def fold (es : List Event) (r0 : Report := Report.empty) : Except WriterErr Report :=
  match run (initState r0) es with
  | .ok w => .ok w.report
  | .error e => .error e

end LccModel.Writer

/-
  The PROJECT-LEVEL entry point of a run — model of `PreparedProject.run` (lemoncheesecake/project.py), what `lcc run` calls:

      try:    self.project.pre_run(self.cli_args, report_dir)
      except UserError as e:  raise e
      except Exception:       raise LemoncheesecakeException("Got an unexpected exception while running project's pre_run method:…")
      session = Session.create(AsyncEventManager.load(), reporting_backends, …);  self._setup_report(session.report)
      run_suites(self.suites, self.fixture_registry, session, …)              -- may raise: backend failure (RunOutcome.outcome)
      try:    self.project.post_run(self.cli_args, report_dir)                -- only reached when run_suites RETURNED
      except UserError as e:  raise e
      except Exception:       raise LemoncheesecakeException("… post_run method:…")
      return session.report

  The rule for "which failure does the caller get" is therefore: the FIRST one in the order  pre_run < run_suites < post_run;
  nothing is called after a failure (in particular post_run is not called when the run raised, so nothing post_run does
  can replace the error of a reporting backend).  A hook is described by what its user code does when called, which may
  depend on whether the run completed (a post_run that publishes what a backend was to produce).  Core Lean only.
-/
import LccModel.Model.RunOutcome

namespace LccModel.ProjectRun
open LccModel

/-- what the project's hook is -/
inductive Hook
  | absent                 -- not overridden: `Project.pre_run` / `post_run` do nothing (not observable)
  | passes
  | userError              -- raises lcc.UserError
  | otherError             -- raises another Exception
  | userErrorIfFailed      -- raises lcc.UserError when a reporting backend failed during the run (else passes)
  | otherErrorIfFailed
deriving Repr, DecidableEq

inductive HookEnd | ok | userError | otherError
deriving Repr, DecidableEq

/-- how a call of the hook ends; `failed` = a backend failure is pending when it is called -/
def Hook.endsWith : Hook → Bool → HookEnd
  | .absent, _ | .passes, _ => .ok
  | .userError, _ => .userError
  | .otherError, _ => .otherError
  | .userErrorIfFailed, failed => if failed then .userError else .ok
  | .otherErrorIfFailed, failed => if failed then .otherError else .ok

def Hook.ofName (n : String) : Hook :=
  if n == "pass" then .passes else if n == "user" then .userError else if n == "other" then .otherError
  else if n == "user-if-failed" then .userErrorIfFailed else if n == "other-if-failed" then .otherErrorIfFailed else .absent

/-- the calls of user-visible code, in order -/
inductive Call
  | preRun (e : HookEnd)
  | runSuites
  | postRun (e : HookEnd)
deriving Repr, DecidableEq

/-- what the caller of `PreparedProject.run` (the `lcc run` user) gets -/
inductive Outcome
  | preRunUserError            -- the hook's own UserError, as raised
  | preRunWrapped              -- LemoncheesecakeException "unexpected exception while running project's pre_run method"
  | ofRun (o : RunOutcome.Outcome)    -- what `run_suites` raised; `returned ok` = the report is returned
  | postRunUserError
  | postRunWrapped
deriving Repr, DecidableEq

/-- does a backend failure exist at the end of the run (what a post_run hook can find out) -/
def runFailed : RunOutcome.Outcome → Bool
  | .returned _ => false
  | _ => true

def observable (h : Hook) (c : Call) : List Call := if h = .absent then [] else [c]

/-- `PreparedProject.run` -/
def run (pre post : Hook) (o : RunOutcome.Outcome) : List Call × Outcome :=
  match pre.endsWith false with
  | .userError => (observable pre (.preRun .userError), .preRunUserError)
  | .otherError => (observable pre (.preRun .otherError), .preRunWrapped)
  | .ok =>
    match o with
    | .returned ok =>
      let e := post.endsWith (runFailed o)
      (observable pre (.preRun .ok) ++ [.runSuites] ++ observable post (.postRun e),
       match e with
       | .ok => .ofRun (.returned ok)
       | .userError => .postRunUserError
       | .otherError => .postRunWrapped)
    | _ => (observable pre (.preRun .ok) ++ [.runSuites], .ofRun o)      -- the exception leaves `run`: post_run is not called

/-- the text of a backend failure carried by what the caller gets -/
def Outcome.backendText : Outcome → Option String
  | .ofRun (.raisedBackendError t) => some t
  | _ => none

def postRunCalled (cs : List Call) : Bool := cs.any fun c => match c with | .postRun _ => true | _ => false
def runSuitesCalled (cs : List Call) : Bool := cs.contains .runSuites

/-! rendering for the extracted table (`Generated/C11TablesCheck.lean`) and the driver -/
def HookEnd.render : HookEnd → String
  | .ok => "ok" | .userError => "UserError" | .otherError => "RuntimeError"

def Call.render : Call → String
  | .preRun e => "pre_run:" ++ e.render
  | .runSuites => "run_suites"
  | .postRun e => "post_run:" ++ e.render

def Outcome.render : Outcome → String
  | .preRunUserError => "pre_run-UserError"
  | .preRunWrapped => "pre_run-wrapped"
  | .ofRun o => o.name
  | .postRunUserError => "post_run-UserError"
  | .postRunWrapped => "post_run-wrapped"

def render (r : List Call × Outcome) : String := " ".intercalate (r.1.map Call.render) ++ " => " ++ r.2.render

end LccModel.ProjectRun

/-
  The attribute scan of a suite CLASS INSTANCE (`helpers/introspection.py`), behind the discovery of test methods and
  nested suite classes:

      def _get_unbound_object_attr(obj, attr_name):          # MRO walk
          for cls in inspect.getmro(obj.__class__):
              if attr_name in cls.__dict__:
                  return cls.__dict__[attr_name]
          raise AttributeError(...)
      def _is_property(obj, attr_name):
          try: attr = _get_unbound_object_attr(obj, attr_name)
          except AttributeError: return False
          return isinstance(attr, property)
      def _get_class_object_attributes(obj):
          for attr_name in dir(obj):
              if not any((attr_name.startswith("__"), _is_property(obj, attr_name))):
                  yield attr_name, getattr(obj, attr_name)

  The MRO (the class first, then its bases / mixins, `object` omitted) and the properties with what their getter would do
  *if it were evaluated* are explicit model input.  Instance attributes (names set in `__init__`) are not modelled: they
  are plain values, never members, and `_is_property` is `False` for them.
-/
import LccModel.Model.Loader

namespace LccModel.ClassAttrs
open LccModel.Loader

/-- What discovery is after: a test method or a nested suite class. -/
inductive Member where
  | test (t : TestDecl)
  | suite (c : Cls)
  deriving Repr

/-- The Python attribute name (`func.__name__` / `class.__name__`). -/
def Member.attr : Member → String
  | .test t => t.attr
  | .suite c => c.head.attr

/-- What evaluating a property does at load time: raise (`AttributeError`, `RuntimeError`, …), return a bound test
    method / a suite class, return a harmless value. -/
inductive Getter where
  | raises
  | returns (m : Member)
  | value
  deriving Repr

/-- One class `__dict__` entry.  `plain` = helper method, constant, injected-fixture placeholder, … -/
inductive Entry where
  | property (g : Getter)
  | member (m : Member)
  | plain
  deriving Repr

abbrev ClassDict := List (String × Entry)
/-- The suite class's `__dict__` first, then its bases' in MRO order (`object` omitted). -/
abbrev MRO := List ClassDict

/-- `_get_unbound_object_attr`: the entry of the first class of the MRO whose `__dict__` has the name
    (`none` = `AttributeError`). -/
def unboundAttr (mro : MRO) (n : String) : Option Entry :=
  mro.findSome? (fun d => d.lookup n)

/-- `_is_property`. -/
def isProperty (mro : MRO) (n : String) : Bool :=
  match unboundAttr mro n with
  | some (.property _) => true
  | _ => false

/-- Keep the first occurrence of every name. -/
def dedup : List String → List String
  | [] => []
  | a :: l => a :: (dedup l).filter (fun b => b != a)

/-- `dir(obj)` as a set of names: all names of all dicts, each once, in first-occurrence order.  (`dir()` sorts them;
    the order is irrelevant here: the loader re-sorts what it keeps by rank, `sortedBy` in `Model/Loader.lean`.) -/
def dirNames (mro : MRO) : List String :=
  dedup (mro.flatMap (fun d => d.map Prod.fst))

/-- What `getattr(obj, name)` hands to the loader. -/
inductive Got where
  | member (m : Member)
  | plain
  deriving Repr

/-- Evaluating a getter. -/
def Getter.eval : Getter → Except Unit Got
  | .raises => .error ()
  | .returns m => .ok (.member m)
  | .value => .ok .plain

/-- `getattr(obj, name)`: `Except.error ()` = an exception (the getter raised, or no such attribute); a property's value
    is its getter's result; a member / plain entry is itself. -/
def getattr (mro : MRO) (n : String) : Except Unit Got :=
  match unboundAttr mro n with
  | none => .error ()
  | some (.property g) => g.eval
  | some (.member m) => .ok (.member m)
  | some .plain => .ok .plain

/-- The generator `_get_class_object_attributes` consumed to the end over the names `ns`, with `isProp` as the
    property test: a name is skipped if it starts with `__` or `isProp` holds, else `getattr` — an exception escapes and
    ends everything. -/
def scanWith (isProp : String → Bool) (get : String → Except Unit Got) :
    List String → Except Unit (List (String × Got))
  | [] => .ok []
  | n :: ns =>
    if dunder n || isProp n then scanWith isProp get ns
    else
      match get n with
      | .error e => .error e
      | .ok v =>
        match scanWith isProp get ns with
        | .error e => .error e
        | .ok rest => .ok ((n, v) :: rest)

/-- `list(_get_class_object_attributes(obj))`. -/
def objectAttributes (mro : MRO) : Except Unit (List (String × Got)) :=
  scanWith (isProperty mro) (getattr mro) (dirNames mro)

/-- The SEEDED variant: `_is_property` looks at `vars(type(obj))` only — the class's own dict. -/
def objectAttributesOwnDictOnly (mro : MRO) : Except Unit (List (String × Got)) :=
  scanWith (isProperty (mro.take 1)) (getattr mro) (dirNames mro)

def Got.member? : Got → Option Member
  | .member m => some m
  | .plain => none

def keepMembers (r : Except Unit (List (String × Got))) : Except Unit (List Member) :=
  match r with
  | .error e => .error e
  | .ok l => .ok (l.filterMap (fun p => p.2.member?))

/-- What `_get_test_symbols` / `_get_sub_suites` keep of the scan (before sorting by rank). -/
def members (mro : MRO) : Except Unit (List Member) := keepMembers (objectAttributes mro)

def membersOwnDictOnly (mro : MRO) : Except Unit (List Member) := keepMembers (objectAttributesOwnDictOnly mro)

/-- Specification: the member declared under the name `n`, if `n` does not start with `__` and its FIRST definition in
    the MRO is a member. -/
def declaredAt (mro : MRO) (n : String) : Option Member :=
  if dunder n then none
  else
    match unboundAttr mro n with
    | some (.member m) => some m
    | _ => none

/-- Specification: the declared members, one per name of `dir()`. -/
def declaredMembers (mro : MRO) : List Member := (dirNames mro).filterMap (declaredAt mro)

/-- Decision table row, generic in the property test: (is `n` yielded by the scan, is a getter evaluated for `n`).
    `n` is reached only if it is a name of `dir()`; a getter is evaluated iff the name is not skipped and its unbound
    attribute is a property; it is yielded iff it is not skipped and `getattr` returns. -/
def listedWith (isProp : String → Bool) (mro : MRO) (n : String) : Bool × Bool :=
  if (dirNames mro).contains n && !(dunder n || isProp n) then
    (match getattr mro n with | .ok _ => true | .error _ => false,
     match unboundAttr mro n with | some (.property _) => true | _ => false)
  else (false, false)

/-- The real code's row. -/
def listedName (mro : MRO) (n : String) : Bool × Bool := listedWith (isProperty mro) mro n

/-- The seeded variant's row. -/
def listedNameOwnDictOnly (mro : MRO) (n : String) : Bool × Bool := listedWith (isProperty (mro.take 1)) mro n

/-- Closed form of one step of the real scan (proved in `Lemmas/ClassAttrs.lean`, `scan_closed`): what the name `n`
    contributes — nothing if it starts with `__`, nothing if its first definition is a property (whatever the getter),
    else the entry itself. -/
def yieldOf (mro : MRO) (n : String) : Option (String × Got) :=
  if dunder n then none
  else
    match unboundAttr mro n with
    | some (.member m) => some (n, .member m)
    | some .plain => some (n, .plain)
    | _ => none

/-- The names a scan yielded (`none` = an exception escaped) — for statements decidable without comparing members. -/
def okNames (r : Except Unit (List (String × Got))) : Option (List String) :=
  match r with
  | .error _ => none
  | .ok l => some (l.map Prod.fst)

/-- The attribute names of the members kept (`none` = an exception escaped). -/
def okMemberNames (r : Except Unit (List Member)) : Option (List String) :=
  match r with
  | .error _ => none
  | .ok l => some (l.map Member.attr)

/-! ### Example classes (used by the non-vacuity / refutation examples of `Props/C13Attrs.lean`) -/

/-- The test method of the examples. -/
abbrev exAddItem : Member := .test { attr := "add_item", rank := 1 }

/-- A suite class with one test, inheriting from a mixin with a raising property, a property returning the bound test
    method, and a helper. -/
abbrev exMroRaises : MRO :=
  [[("add_item", .member exAddItem)],
   [("session", .property .raises), ("entry_point", .property (.returns exAddItem)), ("api", .plain)]]

/-- The same without the raising property. -/
abbrev exMroReturns : MRO :=
  [[("add_item", .member exAddItem)],
   [("entry_point", .property (.returns exAddItem)), ("api", .plain)]]

end LccModel.ClassAttrs

/-
  M14d — WHO owns the per-thread slot of a `ThreadedFactory`: the OS thread or the execution context.

  helpers/threading.py keeps the object of a thread in `self._local = threading.local()`: the slot is
  keyed by the OS thread that executes `get_object`, whatever `contextvars` context is current in it.
  User code does not only call `get_object` from the plain body of a test: it calls it from coroutines
  driven by `asyncio.run` (the coroutine runs in a COPY of the caller's context), from asyncio tasks (a copy
  per task), from `contextvars.copy_context().run(...)`, from a helper thread that `asyncio.to_thread` /
  an executor feeds with a copy of the caller's context.  "Per thread" must then still mean per OS thread.

  This is the get-level view (one event = one `get_object` call that returned; the line-level view with
  every interleaving inside `get_object` is `Threads.Factory`): an access is made by a thread `t` while a
  context `c` is current; contexts are copied.  `Key.thread` is the code as it is.  `Key.context` is the
  variant whose slot is a `contextvars.ContextVar` — kept only for the refutation theorems and the
  decision table that tells the two apart (`hit`, extracted from the real class on every run).

  Core Lean only.
-/

namespace LccModel.Threads.Ctx

/-- what the slot is keyed by -/
inductive Key | thread | context
deriving DecidableEq, Repr

inductive Ev
  | get (t c : Nat)        -- a `get_object()` call that returned, made by OS thread `t` while context `c` is current
  | copy (c c' : Nat)      -- `c'` becomes a copy of context `c` (copy_context, asyncio.run / create_task, to_thread)
deriving DecidableEq, Repr

structure St where
  slot : Nat → Option Nat         -- key (thread id / context id) → object
  next : Nat                      -- objects are numbered in creation order
  creator : Nat → Option Nat      -- ghost: object → OS thread that ran `setup_object`
  creations : Nat → Nat           -- ghost: successful `setup_object` calls per OS thread
  returned : List (Nat × Nat)     -- ghost: (OS thread, object) of every call, oldest first

def init : St := { slot := fun _ => none, next := 0, creator := fun _ => none, creations := fun _ => 0, returned := [] }

def keyOf (k : Key) (t c : Nat) : Nat :=
  match k with
  | .thread => t
  | .context => c

def step (k : Key) (s : St) : Ev → St
  | .get t c =>
    match s.slot (keyOf k t c) with
    | some o => { s with returned := s.returned ++ [(t, o)] }
    | none =>
      { slot := fun x => if x = keyOf k t c then some s.next else s.slot x,
        next := s.next + 1,
        creator := fun o => if o = s.next then some t else s.creator o,
        creations := fun u => if u = t then s.creations t + 1 else s.creations u,
        returned := s.returned ++ [(t, s.next)] }
  | .copy c c' =>
    match k with
    | .thread => s                -- a thread-local does not know about contexts
    | .context => { s with slot := fun x => if x = c' then s.slot c else s.slot x }

def run (k : Key) : St → List Ev → St
  | s, [] => s
  | s, e :: es => run k (step k s e) es

/-- forget the contexts -/
def Ev.eraseCtx : Ev → Ev
  | .get t _ => .get t 0
  | .copy _ _ => .copy 0 0

/-! ### the decision that tells the two keys apart, on its whole (finite) domain

  A first access by thread 1, then a second access; does the second one find the object of the first
  (`hit`) or create another one?  Where the accesses are made: in the thread's base context, in a copy
  (for the second access: a copy of the context the FIRST access ran in), in a fresh empty context. -/

inductive Where | base | copied | fresh
deriving DecidableEq, Repr

/-- contexts: 1 / 2 = base context of thread 1 / 2; 10 = the copy the first access runs in, 11 = its fresh
    context; 20 = the copy of the first access's context the second one runs in, 21 = its fresh context -/
def rowEvents (first : Where) (other : Bool) (second : Where) : List Ev :=
  let c₁ := match first with | .base => 1 | .copied => 10 | .fresh => 11
  let t₂ := if other then 2 else 1
  let pre := match first with | .copied => [Ev.copy 1 10] | _ => []
  let mid := match second with | .copied => [Ev.copy c₁ 20] | _ => []
  let c₂ := match second with | .base => t₂ | .copied => 20 | .fresh => 21
  pre ++ [Ev.get 1 c₁] ++ mid ++ [Ev.get t₂ c₂]

/-- the second access reuses the object of the first -/
def hit (k : Key) (first : Where) (other : Bool) (second : Where) : Bool :=
  (run k init (rowEvents first other second)).next == 1

end LccModel.Threads.Ctx

/-
  The per-thread rules of `lemoncheesecake/fixture.py` as a decision table (used by C15).

  * `declAllowed` — the `@lcc.fixture(scope=…, per_thread=…)` decorator: `per_thread=True` is accepted only with scope
    `session` or `suite` (`AssertionError` otherwise).
  * `pairVerdict` — `FixtureRegistry.check_dependencies` (the model of `Model/Fixture.lean`, unchanged) on the smallest
    registry with a dependency: the two builtin fixtures, `g` (no parameters) and `f(g)`.
  Core Lean only.
-/
import LccModel.Model.Fixture

namespace LccModel.Fixture

/-- `fixture(names, scope, per_thread)`: does the decorator accept the declaration? -/
def declAllowed (scope : Scope) (perThread : Bool) : Bool :=
  !perThread || decide (scope = .session) || decide (scope = .suite)

inductive Verdict where
  | accepted
  | perThreadDep        -- "Fixture 'f' with scope '…' is incompatible with per-thread fixture 'g'"
  | scopeInversion      -- "Fixture 'f' with scope '…' is incompatible with scope '…' of fixture 'g'"
  | other
deriving DecidableEq, Repr

def verdictOf : Except Err Unit → Verdict
  | .ok () => .accepted
  | .error (.perThreadDep _ _) => .perThreadDep
  | .error (.scopeInversion _ _) => .scopeInversion
  | .error _ => .other

/-- the registry of a project declaring `g()` and `f(g)` -/
def pairRegistry (fScope : Scope) (fPerThread : Bool) (gScope : Scope) (gPerThread : Bool) : Registry :=
  builtins ++ [⟨"g", gScope, gPerThread, []⟩, ⟨"f", fScope, fPerThread, ["g"]⟩]

/-- what `check_dependencies` says about the project declaring `g()` and `f(g)` -/
def pairVerdict (fScope : Scope) (fPerThread : Bool) (gScope : Scope) (gPerThread : Bool) : Verdict :=
  verdictOf (checkDependencies (pairRegistry fScope fPerThread gScope gPerThread))

end LccModel.Fixture

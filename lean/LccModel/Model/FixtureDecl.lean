/-
  The per-thread rules of `lemoncheesecake/fixture.py` as a decision table (used by C15).

  * `declAllowed` — the `@lcc.fixture(scope=…, per_thread=…)` decorator: `per_thread=True` is accepted only with scope
    `session` or `suite` (`AssertionError` otherwise).
  * `pairVerdict` — `FixtureRegistry.check_dependencies` (the model of `Model/Fixture.lean`, unchanged) on the smallest
    registry with a dependency: the two builtin fixtures, `g` (no parameters) and `f(g)`.
  Core Lean only.
-/
import LccModel.Model.Fixture

namespace LccModel.Fixture

/-- `fixture(names, scope, per_thread)`: does the decorator accept the declaration? -/
def declAllowed (scope : Scope) (perThread : Bool) : Bool :=
  !perThread || decide (scope = .session) || decide (scope = .suite)

inductive Verdict where
  | accepted
  | perThreadDep        -- "Fixture 'f' with scope '…' is incompatible with per-thread fixture 'g'"
  | scopeInversion      -- "Fixture 'f' with scope '…' is incompatible with scope '…' of fixture 'g'"
  | other
deriving DecidableEq, Repr

def verdictOf : Except Err Unit → Verdict
  | .ok () => .accepted
  | .error (.perThreadDep _ _) => .perThreadDep
  | .error (.scopeInversion _ _) => .scopeInversion
  | .error _ => .other

/-- the registry of a project declaring `g()` and `f(g)` -/
def pairRegistry (fScope : Scope) (fPerThread : Bool) (gScope : Scope) (gPerThread : Bool) : Registry :=
  builtins ++ [⟨"g", gScope, gPerThread, []⟩, ⟨"f", fScope, fPerThread, ["g"]⟩]

/-- what `check_dependencies` says about the project declaring `g()` and `f(g)` -/
def pairVerdict (fScope : Scope) (fPerThread : Bool) (gScope : Scope) (gPerThread : Bool) : Verdict :=
  verdictOf (checkDependencies (pairRegistry fScope fPerThread gScope gPerThread))

/-! ### what a suite uses ITSELF (injected fixture attribute, `setup_suite` argument), enabled or disabled

    `FixtureRegistry.check_fixtures_in_suite` walks EVERY suite of the tree — it neither looks at `suite.disabled` /
    `suite.is_disabled()` nor knows `--force-disabled` (the option is not an input of `PreparedProject.create`), so the
    verdict cannot depend on them: under `--force-disabled` a disabled suite IS set up (by one thread). -/

/-- where the `disabled` mark of the suite that uses the fixture comes from -/
inductive SuiteState | enabled | disabledOwn | disabledInherited
deriving DecidableEq, Repr

/-- how the suite uses the fixture itself -/
inductive SuiteHow | injected | setupArg
deriving DecidableEq, Repr

inductive SuiteVerdict where
  | accepted
  | suitePerThread      -- "Suite 's' uses per-thread fixture 'g' which is not allowed"
  | suiteScope          -- "Suite 's' uses fixture 'g' which has an incompatible scope"
  | other
deriving DecidableEq, Repr

def suiteVerdictOf : Except Err Unit → SuiteVerdict
  | .ok () => .accepted
  | .error (.suitePerThread _ _) => .suitePerThread
  | .error (.suiteScope _ _) => .suiteScope
  | .error _ => .other

/-- the registry of a project declaring `g()` -/
def suiteUseRegistry (gScope : Scope) (gPerThread : Bool) : Registry :=
  builtins ++ [⟨"g", gScope, gPerThread, []⟩]

/-- a suite with one test that uses `g` itself — marked `@lcc.disabled()`, nested in a suite marked so, or neither -/
def suiteUseTree (st : SuiteState) (how : SuiteHow) : List Suite :=
  let inj := if how = .injected then ["g"] else []
  let args := if how = .setupArg then ["g"] else []
  match st with
  | .enabled => [.mk "s" false inj args [⟨"s.t", [], [], false⟩] []]
  | .disabledOwn => [.mk "s" true inj args [⟨"s.t", [], [], false⟩] []]
  | .disabledInherited => [.mk "p" true [] [] [] [.mk "p.s" false inj args [⟨"p.s.t", [], [], false⟩] []]]

/-- what `check_fixtures_in_suites` says about it -/
def suiteUseVerdict (st : SuiteState) (how : SuiteHow) (gScope : Scope) (gPerThread : Bool) : SuiteVerdict :=
  suiteVerdictOf (checkFixturesInSuites (suiteUseRegistry gScope gPerThread) (suiteUseTree st how))

mutual
/-- the same suite tree with every `disabled` mark replaced (by any function of the suite's path) -/
def relabelSuite (d : String → Bool) : Suite → Suite
  | .mk path _ inj args tests subs => .mk path (d path) inj args tests (relabelSuites d subs)
def relabelSuites (d : String → Bool) : List Suite → List Suite
  | [] => []
  | s :: rest => relabelSuite d s :: relabelSuites d rest
end

end LccModel.Fixture

/-
  M9c — the parameter SOURCE of `@lcc.parametrized` (`suite/builder.py: _Parametrized.parameters_source`), in front of
  the loader model (`Model/Loader.lean` takes the dicts the source yields: `TestDecl.param`).

      first_item = next(source)
      if type(first_item) is dict:  yield first_item; yield from source          -- `.dicts`
      else:
          if isinstance(first_item, str):
              names = [s.strip() for s in first_item.split(",")]                  -- `.csvStr`: `parseHeader`
          else:
              names = first_item                                                   -- `.csvSeq` (tuple / list header)
          for values in source: yield dict(zip(names, values))

  The header string is text the user writes (`"i,j"`, `"i, j"`, a column-aligned `"host      , port"`, `" value "`,
  tabs): the parameter NAMES a test receives are the fields between the commas with the white space around them
  removed.  `isPyWs` is `str.isspace` on one character (what `str.strip()` removes); `parseHeader` is the expression
  literally.  Both are pinned to the real code by `Generated/C13TablesCheck.lean: header_parse_agrees`.
  Core Lean only.
-/
import LccModel.Model.Loader

namespace LccModel.ParamSource
open LccModel.Loader (PVal Params)

/-- `ch.isspace()` for a one-character `str` — the characters `str.strip()` removes (bidirectional type WS / B / S or
    category Zs): `\t \n \v \f \r`, the four separators `\x1c–\x1f`, space, NEL, NBSP, U+1680, U+2000–U+200A,
    U+2028, U+2029, U+202F, U+205F, U+3000. -/
def isPyWs (c : Char) : Bool :=
  let n := c.toNat
  (9 ≤ n && n ≤ 13) || (28 ≤ n && n ≤ 32) || n == 0x85 || n == 0xa0 || n == 0x1680 ||
  (0x2000 ≤ n && n ≤ 0x200a) || n == 0x2028 || n == 0x2029 || n == 0x202f || n == 0x205f || n == 0x3000

/-- `s.split(sep)` for a one-character separator: every separator cuts, empty fields are kept, never `[]`. -/
def splitOn (sep : Char) : List Char → List (List Char)
  | [] => [[]]
  | c :: cs =>
    if c == sep then [] :: splitOn sep cs
    else match splitOn sep cs with
      | [] => [[c]]
      | f :: fs => (c :: f) :: fs

/-- `s.lstrip()` -/
def lstrip (l : List Char) : List Char := l.dropWhile isPyWs

/-- `s.rstrip()` -/
def rstrip (l : List Char) : List Char := (l.reverse.dropWhile isPyWs).reverse

/-- `s.strip()` -/
def strip (l : List Char) : List Char := rstrip (lstrip l)

/-- `[s.strip() for s in first_item.split(",")]` -/
def parseHeader (h : List Char) : List (List Char) := (splitOn ',' h).map strip

/-- the same on `String`s -/
def parseHeaderS (h : String) : List String := (parseHeader h.toList).map String.ofList

/-- A field as the user means it: text that does not begin or end with white space (`strip` leaves it alone) and
    holds no comma.  The empty text qualifies (a header `"a,,b"` has an empty name in the real code too). -/
def Trimmed (f : List Char) : Prop := lstrip f = f ∧ f.reverse.dropWhile isPyWs = f.reverse

instance (f : List Char) : Decidable (Trimmed f) := by unfold Trimmed; exact inferInstance

/-- One way of WRITING a field down: white space before and after it. -/
structure Padded where
  pre : List Char
  field : List Char
  post : List Char

def Padded.text (p : Padded) : List Char := p.pre ++ p.field ++ p.post

/-- the padding is white space, the field is a field -/
def Padded.wf (p : Padded) : Prop :=
  (∀ c ∈ p.pre, isPyWs c = true) ∧ (∀ c ∈ p.post, isPyWs c = true) ∧ Trimmed p.field ∧ ',' ∉ p.field

/-- `",".join(...)` of the padded fields: a header spelling -/
def spell : List Padded → List Char
  | [] => []
  | [p] => p.text
  | p :: q :: rest => p.text ++ ',' :: spell (q :: rest)

/-- The three forms of `parameter_source`. -/
inductive Source where
  | dicts (sets : List Params)                                    -- an iterable of dicts
  | csvStr (header : String) (rows : List (List PVal))            -- `("i, j", (1, 2), (3, 4))`
  | csvSeq (names : List String) (rows : List (List PVal))        -- `(("i", "j"), (1, 2), (3, 4))`

/-- `dict(zip(names, values))` (insertion order; the generated names are pairwise distinct) -/
def zipSet (names : List String) (values : List PVal) : Params := names.zip values

/-- What `parameters_source` yields: the parameter sets the loader expands (`TestDecl.param`). -/
def Source.sets : Source → List Params
  | .dicts sets => sets
  | .csvStr h rows => rows.map (zipSet (parseHeaderS h))
  | .csvSeq names rows => rows.map (zipSet names)

end LccModel.ParamSource

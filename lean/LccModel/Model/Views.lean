/-
  M10 (second half, b) — the views of a report other than the JSON / XML files:
    `reporting/backends/junit.py`           the JUnit export (per-test failure / error / skipped elements, per-suite counters)
    `reporting/report.py:ReportStats`       statistics, `Report.build_message` variables
    `reporting/backends/console.py`         the numbers of the console summary
    `cli/commands/diff.py:compute_diff`     `lcc diff`

  Durations and percentages are floats in the code (`"%d.%03d"`, `"%d%%" % (float(a) / b * 100)`) and are not
  modelled; the harness compares them with an independent evaluation of the same expressions.
  Core Lean only.
-/
import LccModel.Model.Report
import LccModel.Model.Writer

namespace LccModel.Views
open LccModel.Report LccModel.Writer

/-! ### JUnit -/

inductive JKind | failure | error | skipped
deriving DecidableEq, Repr, Inhabited

/-- a child element of `<testcase>`: its tag and its `message` attribute (`none` for `<skipped/>`) -/
structure JChild where
  kind : JKind
  message : Option String
deriving DecidableEq, Repr, Inhabited

structure JCase where
  name : String
  children : List JChild
deriving DecidableEq, Repr, Inhabited

structure JSuite where
  path : String
  tests : Nat
  failures : Nat
  skipped : Nat
  cases : List JCase
deriving DecidableEq, Repr, Inhabited

structure JReport where
  tests : Nat          -- root attribute `tests`: the number of PASSED tests (sic)
  failures : Nat
  suites : List JSuite
deriving DecidableEq, Repr, Inhabited

/-- the elements one log contributes: `Check` with `is_successful is False` → `<failure>`, error `Log` → `<error>` -/
def entryChild (stepDesc : String) : Entry → List JChild
  | .check d false details _ =>
    [⟨.failure, some ("failed check in step '" ++ stepDesc ++ "', " ++ d ++
      (match details with
       | some s => if s.isEmpty then "" else ": " ++ s
       | none => ""))⟩]
  | .log .error msg _ => [⟨.error, some ("error log in step '" ++ stepDesc ++ "': " ++ msg)⟩]
  | _ => []

/-- `_serialize_test_result` -/
def junitCase (t : TestResult) : JCase :=
  { name := t.md.name,
    children :=
      if t.result.status = some .skipped then [⟨.skipped, none⟩]
      else t.result.steps.flatMap (fun s => s.entries.flatMap (entryChild s.description)) }

def countStatus (st : Status) (ts : List TestResult) : Nat := (ts.filter (fun t => t.result.status == some st)).length

/-- `suite.path` -/
def pathStr (p : Path) : String := ".".intercalate p

/-- `_serialize_suite_result` on a suite in accessor order, `p` its path -/
def junitSuite (p : Path) (s : SuiteResult) : JSuite :=
  { path := pathStr p, tests := s.tests.length, failures := countStatus .failed s.tests,
    skipped := countStatus .skipped s.tests, cases := s.tests.map junitCase }

mutual
/-- `flatten_suites` with the path of every suite -/
def flattenWithPath (parent : Path) : SuiteResult → List (Path × SuiteResult)
  | .mk md st en su td ts ss => (parent ++ [md.name], .mk md st en su td ts ss) :: flattenListWithPath (parent ++ [md.name]) ss
def flattenListWithPath (parent : Path) : List SuiteResult → List (Path × SuiteResult)
  | [] => []
  | s :: ss => flattenWithPath parent s ++ flattenListWithPath parent ss
end

/-- `Report.all_suites()` with paths: top level in insertion order, below through the sorted accessors -/
def allSuitesWithPath (r : Report) : List (Path × SuiteResult) := flattenListWithPath [] (sortDeepList r.suites)

/-- `Report.all_tests()` as (path, test) -/
def allTestsWithPath (r : Report) : List (Path × TestResult) :=
  (allSuitesWithPath r).flatMap (fun (p, s) => s.tests.map (fun t => (p ++ [t.md.name], t)))

inductive ViewErr
  | noneStartTime     -- `TypeError`: `min(t.start_time …)` / `format_time_as_iso8601(None)` on a test without start time
  | noneTime          -- `TypeError`: `report.end_time - report.start_time` with a missing time
deriving DecidableEq, Repr, Inhabited

/-! ### statistics -/

structure Stats where
  total : Nat
  passed : Nat
  failed : Nat
  skipped : Nat
  disabled : Nat
deriving DecidableEq, Repr, Inhabited

/-- `tests_enabled_nb` -/
def Stats.enabled (s : Stats) : Nat := s.passed + s.failed + s.skipped

def anyIsTest : AnyResult → Option TestResult
  | .test t => some t
  | .phase _ => none

/-- `ReportStats.from_report`: `from_results(list(report.all_results()), …)`, tests = the `TestResult` instances -/
def statsOf (r : Report) : Stats :=
  let tests := (allResults r).filterMap anyIsTest
  { total := tests.length, passed := countStatus .passed tests, failed := countStatus .failed tests,
    skipped := countStatus .skipped tests, disabled := countStatus .disabled tests }

/-- `serialize_report_as_xml_tree` of junit.py -/
def junit (r : Report) : Except ViewErr JReport :=
  let listed := (allSuitesWithPath r).filter (fun ps => !ps.2.tests.isEmpty)
  if (r.endTime.isSome && r.startTime.isNone)          -- root attribute `time` = end_time - start_time
      || listed.any (fun ps => ps.2.tests.any (fun t => t.result.startTime.isNone)) then .error .noneStartTime
  else .ok { tests := (statsOf r).passed, failures := (statsOf r).failed, suites := listed.map (fun ps => junitSuite ps.1 ps.2) }

/-- the integer variables of `Report.build_message`.  ALL variables are evaluated whatever the template uses, and
    `duration` is `report.end_time - report.start_time`: on a report without end (or start) time the call raises. -/
def messageVars (r : Report) : Except ViewErr (List (String × Nat)) :=
  if r.startTime.isNone || r.endTime.isNone then .error .noneTime
  else
    let s := statsOf r
    .ok [("total", s.total), ("enabled", s.enabled), ("passed", s.passed), ("failed", s.failed), ("skipped", s.skipped),
         ("disabled", s.disabled)]

/-- the integers `_print_summary` prints: Tests, Successes, Failures, and Skipped / Disabled only when non-zero -/
structure Summary where
  tests : Nat
  successes : Nat
  failures : Nat
  skipped : Option Nat
  disabled : Option Nat
deriving DecidableEq, Repr, Inhabited

def nonZero (n : Nat) : Option Nat := if n = 0 then none else some n

def consoleSummary (r : Report) : Summary :=
  let s := statsOf r
  { tests := s.total, successes := s.passed, failures := s.failed, skipped := nonZero s.skipped, disabled := nonZero s.disabled }

/-! ### `lcc diff` -/

/-- what `compute_diff` looks at: the path string and the status -/
structure DTest where
  path : String
  status : Option Status
deriving DecidableEq, Repr, Inhabited

structure Diff where
  added : List DTest
  removed : List DTest
  changed : List (DTest × DTest)        -- (test of report 1, test of report 2), `status_changed[old][new]`
  unchanged : List (DTest × DTest)      -- not stored by the code; kept to state the partition
deriving DecidableEq, Repr, Inhabited

/-- `report_2_tests.remove(report_2_test)` for the first test with that path -/
def eraseFirstPath (p : String) : List DTest → List DTest
  | [] => []
  | t :: ts => if t.path == p then ts else t :: eraseFirstPath p ts

/-- `compute_diff(report_1_tests, report_2_tests)` -/
def computeDiff : List DTest → List DTest → Diff
  | [], l2 => { added := l2, removed := [], changed := [], unchanged := [] }
  | t1 :: l1, l2 =>
    match l2.find? (fun t => t.path == t1.path) with
    | none =>
      let d := computeDiff l1 l2
      { d with removed := t1 :: d.removed }
    | some t2 =>
      let d := computeDiff l1 (eraseFirstPath t1.path l2)
      if t2.status != t1.status then { d with changed := (t1, t2) :: d.changed }
      else { d with unchanged := (t1, t2) :: d.unchanged }

/-- `Diff.is_empty()` -/
def Diff.isEmpty (d : Diff) : Bool := d.added.isEmpty && d.removed.isEmpty && d.changed.isEmpty

/-- the tests `lcc diff` compares: `report.all_tests()` with `test.path` -/
def diffTests (r : Report) : List DTest := (allTestsWithPath r).map (fun (p, t) => ⟨pathStr p, t.result.status⟩)

end LccModel.Views

/-
  The `pre_run` fixtures — model of `runner.run_suites`' own setup / teardown loops (lemoncheesecake/runner.py):

      fixture_teardowns = []; errors = []
      for setup, teardown in scheduled_fixtures.get_setup_teardown_pairs():      -- dependency order
          try:    setup()
          except Exception:  errors.append(..); break                             -- the later ones are not set up
          fixture_teardowns.append(teardown)
      try:
          if not errors:  _run_suites(…)                                          -- the session (may raise: backend failure)
      finally:
          for teardown in reversed(fixture_teardowns):                            -- ALSO when a setup failed / the session raised
              try:    teardown()
              except Exception:  errors.append(..)                                -- the remaining teardowns still run
      if errors: raise LemoncheesecakeException("\n".join(errors))  else: return report.is_successful()

  A fixture is described by what its user code does (setup raises? generator, i.e. has a teardown part? teardown raises?);
  the list is the scheduled order.  Core Lean only.
-/
namespace LccModel.PreRun

structure Fx where
  name : String
  /-- generator fixture: code after the `yield` (a plain fixture's teardown is a no-op nobody sees) -/
  gen : Bool
  setupFails : Bool
  teardownFails : Bool
deriving Repr, DecidableEq

/-- what can be seen from outside: user code entered (and how it ended), the session being run -/
inductive Item
  | setup (f : Fx)            -- setup entered and completed
  | setupFailed (f : Fx)      -- setup entered and left by an exception
  | session                   -- `_run_suites` called
  | teardown (f : Fx)         -- teardown part entered and completed
  | teardownFailed (f : Fx)   -- teardown part entered and left by an exception
deriving Repr, DecidableEq

/-- the setup loop: items, the fixtures whose setup completed (setup order), the fixture whose setup failed -/
def setupLoop : List Fx → List Item × List Fx × Option Fx
  | [] => ([], [], none)
  | f :: rest =>
    if f.setupFails then ([.setupFailed f], [], some f)
    else
      let r := setupLoop rest
      (.setup f :: r.1, f :: r.2.1, r.2.2)

def teardownItem (f : Fx) : List Item :=
  if !f.gen then [] else if f.teardownFails then [.teardownFailed f] else [.teardown f]

/-- the teardown loop over the registered teardowns, last registered first -/
def teardownLoop (done : List Fx) : List Item := done.reverse.flatMap teardownItem

inductive Outcome
  | returned                       -- the verdict of the report
  | raisedErrors (n : Nat)         -- LemoncheesecakeException joining n error texts
  | sessionRaised                  -- what `_run_suites` raised goes on after the `finally`
deriving Repr, DecidableEq

def nbTeardownErrors (done : List Fx) : Nat := (done.filter fun f => f.gen && f.teardownFails).length

/-- `run_suites` -/
def runSuites (fxs : List Fx) (sessionRaises : Bool) : List Item × Outcome :=
  let r := setupLoop fxs
  let done := r.2.1
  match r.2.2 with
  | some _ => (r.1 ++ teardownLoop done, .raisedErrors (1 + nbTeardownErrors done))
  | none =>
    (r.1 ++ [.session] ++ teardownLoop done,
     if sessionRaises then .sessionRaised
     else if nbTeardownErrors done = 0 then .returned else .raisedErrors (nbTeardownErrors done))

/-- the fixtures whose setup completed, in the order of the items -/
def setUp : List Item → List Fx
  | [] => []
  | .setup f :: is => f :: setUp is
  | _ :: is => setUp is

/-- the fixtures whose teardown part was entered, in the order of the items -/
def tornDown : List Item → List Fx
  | [] => []
  | .teardown f :: is => f :: tornDown is
  | .teardownFailed f :: is => f :: tornDown is
  | _ :: is => tornDown is

def isTeardown : Item → Bool
  | .teardown _ | .teardownFailed _ => true
  | _ => false

/-! rendering for the extracted table (`Generated/C03TablesCheck.lean`) -/
def Item.render : Item → String
  | .setup f => "setup:" ++ f.name
  | .setupFailed f => "setup-raised:" ++ f.name
  | .session => "session"
  | .teardown f => "teardown:" ++ f.name
  | .teardownFailed f => "teardown-raised:" ++ f.name

def Outcome.render : Outcome → String
  | .returned => "returned"
  | .raisedErrors n => "raised-errors:" ++ toString n
  | .sessionRaised => "session-raised"

def render (r : List Item × Outcome) : String := " ".intercalate (r.1.map Item.render) ++ " => " ++ r.2.render

end LccModel.PreRun

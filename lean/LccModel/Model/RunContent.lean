/-
  C19 — WHAT a run leaves in its report directory, as an input of the next run.

  `Model/RunSeq.lean` knows whether a directory holds files (`filled`).  Which files depends on the reporting backends
  of the run that wrote them (`--reporting console html junit` leaves report.html + report-junit.xml and neither
  report.js nor report.xml; `html` alone; `junit` alone; a console-only run whose tests save attachments leaves only
  `attachments/`; …).  Nothing in `create_report_dir` / `create_report_dir_with_rotation` looks INSIDE a directory:
  whatever the previous run left, the directory is renamed as it is.  This layer records the kinds of files per
  directory on top of the run-level model, so that the statement "the previous report becomes archive 1 WITH ITS
  CONTENT" quantifies over every backend combination of the previous run.  Core Lean only.
-/
import LccModel.Model.RunSeq

namespace LccModel.RunSeq

/-- what a run can leave in its directory -/
inductive FileKind
  | json          -- report.js
  | xml           -- report.xml
  | junit         -- report-junit.xml
  | html          -- report.html (+ its static resources)
  | custom        -- the file of a project-defined `FileReportBackend`
  | attachments   -- attachments/ (files saved by the tests; written whatever the backends are)
deriving DecidableEq, Repr, Inhabited

/-- the run-level state plus, for every directory ever created at the default location (by marker), what it holds -/
structure StC where
  base : St
  content : Nat → List FileKind

def StC.init : StC := { base := RunSeq.init, content := fun _ => [] }

/-- one run whose backends / tests leave `files` (the empty list: console only, no attachment): the run-level step with
    `writes := files ≠ []`; the directory the run created at the default location and filled holds `files`; the record
    of every other directory is what it was -/
def runC (c : Cfg) (files : List FileKind) (s : StC) : Option StC :=
  match run { c with writes := !files.isEmpty } s.base with
  | none => none
  | some b' =>
    some { base := b',
           content := fun m => if m = s.base.fs.next ∧ b'.filled m = true ∧ b'.fs.next ≠ s.base.fs.next then files else s.content m }

inductive OpC
  | run (c : Cfg) (files : List FileKind)
  | other (op : Op)          -- a manual deletion (never `Op.run`: the driver and the theorems use `OpC.run` for runs)
deriving Repr

def stepC (s : StC) : OpC → Option StC
  | .run c files => runC c files s
  | .other op => (step s.base op).map (fun b' => { s with base := b' })

def runOpsC : StC → List OpC → Option StC
  | s, [] => some s
  | s, op :: ops => match stepC s op with
    | none => none
    | some s' => runOpsC s' ops

/-- the run-level operation a content-level operation amounts to -/
def OpC.toOp : OpC → Op
  | .run c files => .run { c with writes := !files.isEmpty }
  | .other op => op

end LccModel.RunSeq

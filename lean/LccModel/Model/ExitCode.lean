/-
  CLI glue of `lcc run` — model of the last lines of `cli/commands/run.py: run_suites_from_project`
  (the exit code) and of `get_nb_threads`, plus `Report.is_successful()` of `reporting/report.py`.

      def is_successful(self):                       # Report
          return all(result.status in ("passed", "disabled") for result in self.all_results())

      if cli_args.exit_error_on_failure:
          return 0 if report.is_successful() else 1
      else:
          return 0

  `Report.all_results()` is `Writer.allResults` (session setup, then — through the rank-sorted accessors —
  every suite's setup, tests and teardown, then the session teardown).  The *declarative* enumeration
  `rawResults` walks the report tree as it is stored (insertion order, no sorting): the property theorems
  (`Props/C02Exit.lean`) are stated on it, and `Lemmas/ExitCode.lean` proves that the two enumerations
  are permutations of each other.
  Core Lean only.
-/
import LccModel.Model.Writer

namespace LccModel.ExitCode
open LccModel.Report LccModel.Writer

/-- `status in ("passed", "disabled")` — a result without status (`None`: still running) is NOT ok. -/
def statusOk : Option Status → Bool
  | some .passed => true
  | some .disabled => true
  | _ => false

/-- the property's "passed or disabled" -/
def Fine (o : Option Status) : Prop := o = some .passed ∨ o = some .disabled

/-- `Report.is_successful()`. -/
def reportSuccessful (r : Report) : Bool := (allResults r).all (fun a => statusOk a.result.status)

/-- The value `run_suites_from_project` returns (the process exit code of `lcc run`). -/
def exitCode (exitErrorOnFailure : Bool) (r : Report) : Nat :=
  if exitErrorOnFailure then (if reportSuccessful r then 0 else 1) else 0

/-! ### The report tree as it is stored: every test and every setup / teardown phase -/

mutual
/-- the results of one suite: its setup phase, its tests, its teardown phase, then its sub-suites -/
def rawSuite : SuiteResult → List AnyResult
  | .mk _ _ _ su td ts ss => optPhase su ++ ts.map AnyResult.test ++ optPhase td ++ rawSuites ss
def rawSuites : List SuiteResult → List AnyResult
  | [] => []
  | s :: ss => rawSuite s ++ rawSuites ss
end

/-- every result of the report: session setup, every suite (recursively), session teardown -/
def rawResults (r : Report) : List AnyResult := optPhase r.setup ++ rawSuites r.suites ++ optPhase r.teardown

/-- every test of the report -/
def rawTests (r : Report) : List TestResult := (rawResults r).filterMap (fun a => match a with | .test t => some t | .phase _ => none)

/-- every setup / teardown phase of the report (session and suite level) -/
def rawPhases (r : Report) : List Result := (rawResults r).filterMap (fun a => match a with | .phase p => some p | .test _ => none)

/-! ### `get_nb_threads(cli_args, project)` -/

inductive ThreadsErr
  | invalidEnv        -- `int(os.environ["LCC_THREADS"])` raised ValueError
  | notThreaded       -- "Project does not support multi-threading"
deriving DecidableEq, Repr

/-- `max(n, 1)` on a Python int -/
def atLeastOne (i : Int) : Nat := if i < 1 then 1 else i.toNat

/-- `cli : --threads` (`none`: option absent); `env`: `none` = `$LCC_THREADS` unset, `some none` = set but not
    an integer literal, `some (some i)` = set to `i`; `threaded` = `project.threaded`. -/
def resolveThreads (cli : Option Int) (env : Option (Option Int)) (threaded : Bool) : Except ThreadsErr Nat :=
  let n : Except ThreadsErr Nat :=
    match cli with
    | some c => .ok (atLeastOne c)
    | none =>
      match env with
      | some (some e) => .ok (atLeastOne e)
      | some none => .error .invalidEnv
      | none => .ok 1
  match n with
  | .error e => .error e
  | .ok n => if n > 1 && !threaded then .error .notThreaded else .ok n

end LccModel.ExitCode

/-
  M8b — report-based selection SEVERAL TIMES in one process, the report at a path REPLACED in between (C12, fifth seeded round).

  `reporting/loader.py: load_report(path)` reads the report directory / file as it is NOW (`load_reports_from_dir` lists the
  directory and loads the first loadable file) — nothing of an earlier call is kept.  `filter._make_from_report_filter` calls it
  every time `make_test_filter` gets a report-based command line (`--from-report DIR`, or the implicit `./report` with
  `--passed / --failed / --skipped / --non-passed / --grep`).

  `Disk` = what is saved where (a run rotates the old report directory away and writes the new report under the SAME path);
  `Proc` = what a Python process could remember of earlier loads (`loaded`: written by the model, never read by it — the code
  has no such memory); `run` = a sequence of saves and selections in one process.  Core Lean only.
-/
import LccModel.Model.Filter

namespace LccModel.ReportStore
open LccModel.Filter

/-- report directories: path ↦ the report saved there last -/
abbrev Disk := List (String × List SuiteRes)

/-- a run / a backend saves `r` at `path` (the previous report of that path is gone) -/
def Disk.save (d : Disk) (path : String) (r : List SuiteRes) : Disk := (path, r) :: d.filter (fun e => e.1 != path)

/-- the report that is at `path` now -/
def Disk.load (d : Disk) (path : String) : Option (List SuiteRes) := (d.find? (fun e => e.1 == path)).map (·.2)

/-- what the process has loaded so far, most recent first -/
structure Proc where
  loaded : List (String × List SuiteRes) := []

/-- `load_report(path)`: the report on disk now (`none`: ReportLoadingError); the process remembers nothing it would use -/
def loadReport (st : Proc) (d : Disk) (path : String) : Proc × Option (List SuiteRes) :=
  match d.load path with
  | some r => ({ loaded := (path, r) :: st.loaded }, some r)
  | none => (st, none)

inductive Op where
  | save (path : String) (r : List SuiteRes)
  | select (c : Cli) (path : String) (suites : List Suite)     -- `lcc run/show <c> --from-report path` on a project

inductive Out where
  | noReport                                          -- ReportLoadingError
  | sel (r : Except SelError (List Suite))            -- `load_suites_from_project(project, make_test_filter(cli_args))`

/-- one selection: the report is loaded only for a report-based command line -/
def selectIn (st : Proc) (d : Disk) (c : Cli) (path : String) (suites : List Suite) : Proc × Out :=
  if c.reportBased then
    match loadReport st d path with
    | (st', some r) => (st', .sel (selectCli c r suites))
    | (st', none) => (st', .noReport)
  else (st, .sel (selectCli c [] suites))

/-- a sequence of saves and selections in one process: the outputs of the selections, in order -/
def run (st : Proc) (d : Disk) : List Op → List Out
  | [] => []
  | .save p r :: rest => run st (d.save p r) rest
  | .select c p s :: rest =>
    let x := selectIn st d c p s
    x.2 :: run x.1 d rest

/-- the disk after a sequence of operations (selections do not write) -/
def diskAfter (d : Disk) : List Op → Disk
  | [] => d
  | .save p r :: rest => diskAfter (d.save p r) rest
  | .select _ _ _ :: rest => diskAfter d rest

/-- the selection the property asks for: the reference selection on the report that is at `path` NOW -/
def selectNow (d : Disk) (c : Cli) (path : String) (suites : List Suite) : Out :=
  if c.reportBased then
    match d.load path with
    | some r => .sel (selectCli c r suites)
    | none => .noReport
  else .sel (selectCli c [] suites)

/-- the reference outputs of a sequence: every selection judged on the disk as it is at that moment -/
def runNow (d : Disk) : List Op → List Out
  | [] => []
  | .save p r :: rest => runNow (d.save p r) rest
  | .select c p s :: rest => selectNow d c p s :: runNow d rest

end LccModel.ReportStore

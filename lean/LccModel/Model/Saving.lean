/-
  M13 — saving the report while the run is in progress.

  Four parts, all executable, core Lean only:

  1. `prefixB` / `Prefix` — "the later report extends the earlier one and everything the earlier one
     shows as finished is identical in the later one" (property C10), on the report data of
     `Model/Report.lean` (children in insertion order).
  2. `safe` — "the event targets nothing that is finished" as a guard on the writer state: what the
     stream grammar (C07) guarantees about an event, read off the report itself.
  3. the saving strategies of `reporting/savingstrategy.py` and the handler table of
     `reporting/backend.py:FileReportSession`, and the handler-thread loop "writer first, then the file
     session" (`events.py:_handler_loop`, `session.py:Session.create` subscription order).
  4. a tiny file system: a save is a sequence of operations; a crash or a reader may come between any two.

  Times are `Nat` milliseconds; the clock is an explicit parameter (`clock : Nat → Nat`, the n-th call of
  `time.time()` made by the file session).
-/
import LccModel.Model.Writer

namespace LccModel.Saving
open LccModel.Report LccModel.Writer

/-! ## 1. Prefix -/

/-- `listPrefixB R xs ys`: `ys` has at least as many elements as `xs` and they are pointwise `R`-related. -/
def listPrefixB {α : Type} (R : α → α → Bool) : List α → List α → Bool
  | [], _ => true
  | _ :: _, [] => false
  | a :: as, b :: bs => R a b && listPrefixB R as bs

/-- an optional time that may still be set, but never changes once it is set -/
def optTimePrefixB : Option Time → Option Time → Bool
  | none, _ => true
  | some t, some t' => t == t'
  | some _, none => false

/-- a step the report shows as ended -/
def Step.finished (s : Step) : Bool := s.endTime.isSome

/-- An ended step is identical; an open step keeps description and start time, its entries are extended
    at the end only. -/
def stepPrefixB (a b : Step) : Bool :=
  if Step.finished a then decide (a = b)
  else decide (a.description = b.description) && decide (a.startTime = b.startTime)
        && listPrefixB (fun x y => decide (x = y)) a.entries b.entries

/-- a result the report shows as finished: it has an end time or a status -/
def Result.finished (x : Result) : Bool := x.endTime.isSome || x.status.isSome

/-- A finished result (test, setup, teardown) is identical; an unfinished one keeps its start time, its
    steps are extended (new steps at the end, open steps extended). -/
def resultPrefixB (a b : Result) : Bool :=
  if Result.finished a then decide (a = b)
  else decide (a.startTime = b.startTime) && decide (a.statusDetails = b.statusDetails)
        && listPrefixB stepPrefixB a.steps b.steps

def optResultPrefixB : Option Result → Option Result → Bool
  | none, _ => true
  | some a, some b => resultPrefixB a b
  | some _, none => false

def testPrefixB (a b : TestResult) : Bool := decide (a.md = b.md) && resultPrefixB a.result b.result

mutual
/-- structural equality of suites (`SuiteResult` is a nested inductive: no derived `DecidableEq`) -/
def beqSuite : SuiteResult → SuiteResult → Bool
  | .mk md st en su td ts ss, .mk md' st' en' su' td' ts' ss' =>
    decide (md = md') && decide (st = st') && decide (en = en') && decide (su = su') && decide (td = td')
      && decide (ts = ts') && beqSuites ss ss'
def beqSuites : List SuiteResult → List SuiteResult → Bool
  | [], [] => true
  | a :: as, b :: bs => beqSuite a b && beqSuites as bs
  | [], _ :: _ => false
  | _ :: _, [] => false
end

mutual
/-- An ended suite is identical; an open suite keeps its metadata and start time, its setup / teardown /
    tests / sub-suites are extended (new children at the end of the insertion-ordered lists). -/
def suitePrefixB : SuiteResult → SuiteResult → Bool
  | .mk md st en su td ts ss, .mk md' st' en' su' td' ts' ss' =>
    if en.isSome then
      decide (md = md') && decide (st = st') && decide (en = en') && decide (su = su') && decide (td = td')
        && decide (ts = ts') && beqSuites ss ss'
    else
      decide (md = md') && decide (st = st') && optResultPrefixB su su' && optResultPrefixB td td'
        && listPrefixB testPrefixB ts ts' && suitesPrefixB ss ss'
def suitesPrefixB : List SuiteResult → List SuiteResult → Bool
  | [], _ => true
  | _ :: _, [] => false
  | a :: as, b :: bs => suitePrefixB a b && suitesPrefixB as bs
end

/-- The report-level relation.  Title, info and thread count never change; start and end time are set
    once; a report that shows the session as ended is identical.  `savingTime` is not part of the
    comparison: it is the time stamp the *file* carries (`generation_time`), not report content. -/
def prefixB (a b : Report) : Bool :=
  decide (a.title = b.title) && decide (a.info = b.info) && decide (a.nbThreads = b.nbThreads) &&
  (if a.endTime.isSome then
      decide (a.startTime = b.startTime) && decide (a.endTime = b.endTime) && decide (a.setup = b.setup)
        && decide (a.teardown = b.teardown) && beqSuites a.suites b.suites
   else
      optTimePrefixB a.startTime b.startTime && optResultPrefixB a.setup b.setup
        && optResultPrefixB a.teardown b.teardown && suitesPrefixB a.suites b.suites)

/-- C10's "describes a prefix of": see `prefixB`. -/
def Prefix (a b : Report) : Prop := prefixB a b = true

instance (a b : Report) : Decidable (Prefix a b) := by unfold Prefix; infer_instance

/-! ## 2. "The event targets nothing finished" -/

/-- Navigating `p` exactly like `Writer.modifySuite` (first suite of that name at every level): every
    suite on the way, the target included, is still open (no end time) and the target satisfies `g`. -/
def suiteOpen (g : SuiteResult → Bool) : Path → List SuiteResult → Bool
  | [], _ => false
  | [n], ss =>
    match ss.find? (fun s => s.md.name == n) with
    | some s => s.endTime.isNone && g s
    | none => false
  | n :: m :: rest, ss =>
    match ss.find? (fun s => s.md.name == n) with
    | some s => s.endTime.isNone && suiteOpen g (m :: rest) s.suites
    | none => false

def optResultIs (g : Result → Bool) : Option Result → Bool
  | some x => g x
  | none => false

/-- The result `report.get(loc)` exists, satisfies `g`, and every suite around it is open. -/
def resultOpen (g : Result → Bool) : Loc → Report → Bool
  | .sessionSetup, r => optResultIs g r.setup
  | .sessionTeardown, r => optResultIs g r.teardown
  | .suiteSetup p, r => suiteOpen (fun s => optResultIs g s.setup) p r.suites
  | .suiteTeardown p, r => suiteOpen (fun s => optResultIs g s.teardown) p r.suites
  | .test p, r =>
    match p.getLast? with
    | none => false
    | some last =>
      suiteOpen (fun s => match s.tests.find? (fun t => t.md.name == last) with
                          | some t => g t.result
                          | none => false) p.dropLast r.suites

def unfinished (x : Result) : Bool := !Result.finished x

/-- the `idx`-th step (if any) is open -/
def stepOpenAt (idx : Nat) (steps : List Step) : Bool :=
  match steps[idx]? with
  | some s => !Step.finished s
  | none => true

/-- The step `active_steps[tid]` refers to — if it is still part of the report — is open, inside an
    unfinished result, inside open suites. -/
def refOpen (w : WriterState) (tid : Nat) : Bool :=
  match w.active.lookup tid with
  | none => true
  | some ref =>
    match ref.target with
    | none => true
    | some (l, idx) => resultOpen (fun x => unfinished x && stepOpenAt idx x.steps) l w.report

/-- a new test goes into an open suite that has no test of that name yet -/
def newTestOk (parent : Path) (name : String) (r : Report) : Bool :=
  suiteOpen (fun s => s.tests.all (fun t => t.md.name != name)) parent r.suites

/-- What the event is about to modify is not finished: the session has not ended, a start event creates
    something that is not there yet inside an open suite, an end event ends something unfinished, a step
    event goes into an unfinished result, a log goes into an open step. -/
def safe (w : WriterState) (e : Event) : Bool :=
  let r := w.report
  r.endTime.isNone &&
  match e with
  | .sessionStart _ => r.startTime.isNone
  | .sessionEnd _ => true
  | .sessionSetupStart _ => r.setup.isNone
  | .sessionSetupEnd _ => resultOpen unfinished .sessionSetup r
  | .sessionTeardownStart _ => r.teardown.isNone
  | .sessionTeardownEnd _ => resultOpen unfinished .sessionTeardown r
  | .suiteStart path _ _ =>
    match path.dropLast with
    | [] => true
    | parent => suiteOpen (fun _ => true) parent r.suites
  | .suiteEnd path _ => suiteOpen (fun _ => true) path r.suites
  | .suiteSetupStart path _ => suiteOpen (fun s => s.setup.isNone) path r.suites
  | .suiteSetupEnd path _ => resultOpen unfinished (.suiteSetup path) r
  | .suiteTeardownStart path _ => suiteOpen (fun s => s.teardown.isNone) path r.suites
  | .suiteTeardownEnd path _ => resultOpen unfinished (.suiteTeardown path) r
  | .testStart path md _ => newTestOk path.dropLast md.name r
  | .testEnd path _ => resultOpen unfinished (.test path) r
  | .testSkipped path md _ _ => newTestOk path.dropLast md.name r
  | .testDisabled path md _ _ => newTestOk path.dropLast md.name r
  | .stepStart loc _ _ _ => resultOpen unfinished loc r
  | .stepEnd _ _ tid _ => refOpen w tid
  | .log _ _ tid _ _ _ => refOpen w tid
  | .check _ _ tid _ _ _ _ => refOpen w tid
  | .attachment _ _ tid _ _ _ _ => refOpen w tid
  | .url _ _ tid _ _ _ => refOpen w tid

/-- Every event of the stream is `safe` in the state the writer is in when it arrives (events after a
    raising handler are never handled: `_handler_loop` breaks). -/
def safeRun (w : WriterState) : List Event → Bool
  | [] => true
  | e :: es =>
    safe w e &&
    match Writer.apply w e with
    | .ok w' => safeRun w' es
    | .error _ => true

/-! ## 3. Strategies and the file session -/

/-- the 22 event classes of `events.py` -/
inductive EvClass
  | sessionStart | sessionEnd | sessionSetupStart | sessionSetupEnd | sessionTeardownStart | sessionTeardownEnd
  | suiteStart | suiteEnd | suiteSetupStart | suiteSetupEnd | suiteTeardownStart | suiteTeardownEnd
  | testStart | testEnd | testSkipped | testDisabled
  | stepStart | stepEnd | log | check | attachment | url
deriving DecidableEq, Repr, Inhabited

def classOf : Event → EvClass
  | .sessionStart _ => .sessionStart | .sessionEnd _ => .sessionEnd
  | .sessionSetupStart _ => .sessionSetupStart | .sessionSetupEnd _ => .sessionSetupEnd
  | .sessionTeardownStart _ => .sessionTeardownStart | .sessionTeardownEnd _ => .sessionTeardownEnd
  | .suiteStart _ _ _ => .suiteStart | .suiteEnd _ _ => .suiteEnd
  | .suiteSetupStart _ _ => .suiteSetupStart | .suiteSetupEnd _ _ => .suiteSetupEnd
  | .suiteTeardownStart _ _ => .suiteTeardownStart | .suiteTeardownEnd _ _ => .suiteTeardownEnd
  | .testStart _ _ _ => .testStart | .testEnd _ _ => .testEnd
  | .testSkipped _ _ _ _ => .testSkipped | .testDisabled _ _ _ _ => .testDisabled
  | .stepStart _ _ _ _ => .stepStart | .stepEnd _ _ _ _ => .stepEnd
  | .log _ _ _ _ _ _ => .log | .check _ _ _ _ _ _ _ => .check
  | .attachment _ _ _ _ _ _ _ => .attachment | .url _ _ _ _ _ _ => .url

/-- what `FileReportSession` binds to `on_<event>`: nothing, `_handle_event`, or the unconditional save -/
inductive HandlerKind | none | strategy | always
deriving DecidableEq, Repr, Inhabited

/-- the `on_… = _handle_event` block and `on_test_session_end` of `FileReportSession` -/
def handlerKind : EvClass → HandlerKind
  | .sessionEnd => .always
  | .sessionSetupEnd | .sessionTeardownEnd | .suiteSetupEnd | .suiteTeardownEnd | .testEnd | .suiteEnd
  | .log | .attachment | .url | .check => .strategy
  | _ => .none

/-- `--save-report` expressions (`make_report_saving_strategy`); `at_each_event` is an alias of `at_each_log` -/
inductive Strategy
  | atEndOfTests | atEachSuite | atEachTest | atEachFailedTest | atEachLog
  | everyN (seconds : Nat)
deriving DecidableEq, Repr, Inhabited

/-- `_is_end_of_result_event` on event classes -/
def isEndOfResult : EvClass → Bool
  | .testEnd | .suiteSetupEnd | .suiteTeardownEnd | .sessionSetupEnd | .sessionTeardownEnd => true
  | _ => false

/-- `isinstance(event, SteppedEvent)` -/
def isStepped : EvClass → Bool
  | .log | .check | .attachment | .url => true
  | _ => false

/-- `_is_end_of_result_event`: the location whose result has just ended -/
def endOfResultLoc : Event → Option Loc
  | .testEnd p _ => some (.test p)
  | .suiteSetupEnd p _ => some (.suiteSetup p)
  | .suiteTeardownEnd p _ => some (.suiteTeardown p)
  | .sessionSetupEnd _ => some .sessionSetup
  | .sessionTeardownEnd _ => some .sessionTeardown
  | _ => none

/-- what `report.get(location)` gives the strategy: it raised `LookupError`, it returned `None`, or it
    returned a result with that status -/
inductive ResArg
  | raises | absent | present (st : Option Status)
deriving DecidableEq, Repr, Inhabited

/-- The four strategy functions that look at the event only (and, for `at_each_failed_test`, at the
    status of the result that has just ended).  `none`: the strategy itself raises (`LookupError` out of
    `report.get`).  `at_end_of_tests` is the `None` strategy: `self.saving_strategy and …` is falsy. -/
def decideStatic : Strategy → EvClass → ResArg → Option Bool
  | .atEndOfTests, _, _ => some false
  | .atEachSuite, c, _ => some (decide (c = .suiteEnd))
  | .atEachTest, c, _ => some (isEndOfResult c)
  | .atEachFailedTest, c, a =>
    if isEndOfResult c then
      match a with
      | .raises => none
      | .absent => some false
      | .present st => some (decide (st = some .failed))
    else some false
  | .atEachLog, c, _ => some (isStepped c)
  | .everyN _, _, _ => some false      -- not a static strategy: see `decideInterval`

/-- `SaveAtInterval.__call__`: `last_saved_time + interval < time.time()` (milliseconds) -/
def decideInterval (seconds lastSaved now : Nat) : Bool := lastSaved + seconds * 1000 < now

/-- first suite of each name along the path: `find_suite` -/
def findSuite : Path → List SuiteResult → Option SuiteResult
  | [], _ => none
  | [n], ss => ss.find? (fun s => s.md.name == n)
  | n :: m :: rest, ss =>
    match ss.find? (fun s => s.md.name == n) with
    | some s => findSuite (m :: rest) s.suites
    | none => none

/-- `report.get(location)` as the strategy sees it -/
def resArg (loc : Loc) (r : Report) : ResArg :=
  let ofOpt : Option Result → ResArg := fun o => match o with
    | some x => .present x.status
    | none => .absent
  match loc with
  | .sessionSetup => ofOpt r.setup
  | .sessionTeardown => ofOpt r.teardown
  | .suiteSetup p =>
    match p with
    | [] => .raises                       -- `find_suite(…, ())` gives `None`; `.suite_setup` on it raises
    | _ => match findSuite p r.suites with
      | some s => ofOpt s.setup
      | none => .raises
  | .suiteTeardown p =>
    match p with
    | [] => .raises
    | _ => match findSuite p r.suites with
      | some s => ofOpt s.teardown
      | none => .raises
  | .test p =>
    match p.getLast? with
    | none => .raises
    | some last =>
      match findSuite p.dropLast r.suites with
      | none => .raises
      | some s => match s.tests.find? (fun t => t.md.name == last) with
        | some t => .present t.result.status
        | none => .raises

/-- does the strategy ask for a save, given the report *as the writer left it* after this event?
    (`none`: the strategy raises).  For `every_Ns` the answer needs the clock: `now`. -/
def wantsSave (s : Strategy) (e : Event) (r : Report) (lastSaved now : Nat) : Option Bool :=
  match s with
  | .everyN n => some (decideInterval n lastSaved now)
  | s =>
    match endOfResultLoc e with
    | some loc => decideStatic s (classOf e) (resArg loc r)
    | none => decideStatic s (classOf e) .absent

/-- does the strategy read the clock when it is asked? -/
def Strategy.readsClock : Strategy → Bool
  | .everyN _ => true
  | _ => false

inductive SessErr
  | writer (e : WriterErr)     -- the `ReportWriter` handler raised: the session handler is not reached
  | strategy                   -- the saving strategy raised
deriving DecidableEq, Repr, Inhabited

/-- The handler thread's view: the writer state, how many events were handled, and what the file session
    did.  `saves` lists every completed `_save()` (most recent first) as (number of events handled when the
    save was made, the report that was serialised). -/
structure Sess where
  w : WriterState
  handled : Nat
  lastSaved : Nat
  tick : Nat                       -- number of `time.time()` calls made by the file session so far
  saves : List (Nat × Report)
deriving Repr, Inhabited

/-- `FileReportSession.__init__`: `last_saved_time = time.time()` (clock call number 0) -/
def Sess.init (clock : Nat → Nat) (r : Report := Report.empty) : Sess :=
  { w := initState r, handled := 0, lastSaved := clock 0, tick := 1, saves := [] }

/-- `_save()`: serialise the report as it is now, then `last_saved_time = time.time()` -/
def Sess.save (clock : Nat → Nat) (s : Sess) : Sess :=
  { s with saves := (s.handled, s.w.report) :: s.saves, lastSaved := clock s.tick, tick := s.tick + 1 }

/-- The file session's handler for the event (the report has already been updated by the writer):
    nothing for event classes it has no `on_…` for, the unconditional `_save()` for the end of the session,
    `_handle_event` otherwise. -/
def fileSessionHandle (strat : Strategy) (clock : Nat → Nat) (s1 : Sess) (e : Event) : Except SessErr Sess :=
  match handlerKind (classOf e) with
  | .none => .ok s1
  | .always => .ok (s1.save clock)
  | .strategy =>
    match strat with
    | .atEndOfTests => .ok s1                -- strategy `None`: nothing is called, no clock read
    | strat =>
      let s2 : Sess := if strat.readsClock then { s1 with tick := s1.tick + 1 } else s1
      match wantsSave strat e s1.w.report s1.lastSaved (clock s1.tick) with
      | none => .error .strategy
      | some true => .ok (s2.save clock)
      | some false => .ok s2

/-- One event on the handler thread: first `ReportWriter.on_<event>` mutates the report, then — on the
    same thread, before the next event is taken from the queue — the file session's handler. -/
def sessStep (strat : Strategy) (clock : Nat → Nat) (s : Sess) (e : Event) : Except SessErr Sess :=
  match Writer.apply s.w e with
  | .error err => .error (.writer err)
  | .ok w' => fileSessionHandle strat clock { s with w := w', handled := s.handled + 1 } e

def sessRun (strat : Strategy) (clock : Nat → Nat) : Sess → List Event → Except SessErr Sess
  | s, [] => .ok s
  | s, e :: es =>
    match sessStep strat clock s e with
    | .ok s' => sessRun strat clock s' es
    | .error err => .error err

/-! ### a save that can raise

  `backend.save_report` may raise while writing the file (`UnicodeEncodeError`: a text the file's encoding cannot take).
  The exception escapes `_save()` on the handler thread: `_handler_loop` stops, no later event is handled, nothing is
  saved any more — the end of the session included.  `saveOk r` says whether serialising and writing the report value
  `r` succeeds; `sessRun` above is the case `saveOk = fun _ => true` (`Lemmas/SavingG.lean`). -/

inductive SessErrG
  | base (e : SessErr)
  | save                       -- `backend.save_report` raised
deriving DecidableEq, Repr, Inhabited

def liftErr {α : Type} : Except SessErr α → Except SessErrG α
  | .ok a => .ok a
  | .error e => .error (.base e)

/-- the file session's handler when the save itself can fail: a save was made iff `saves` grew, and it
    serialised the report the writer had just updated -/
def fileSessionHandleG (saveOk : Report → Bool) (strat : Strategy) (clock : Nat → Nat) (s1 : Sess) (e : Event) :
    Except SessErrG Sess :=
  match fileSessionHandle strat clock s1 e with
  | .error err => .error (.base err)
  | .ok s2 => if s2.saves.length != s1.saves.length && !saveOk s1.w.report then .error .save else .ok s2

def sessStepG (saveOk : Report → Bool) (strat : Strategy) (clock : Nat → Nat) (s : Sess) (e : Event) : Except SessErrG Sess :=
  match Writer.apply s.w e with
  | .error err => .error (.base (.writer err))
  | .ok w' => fileSessionHandleG saveOk strat clock { s with w := w', handled := s.handled + 1 } e

/-- the run up to the first raising handler: the session state reached and what stopped the loop -/
def sessRunG (saveOk : Report → Bool) (strat : Strategy) (clock : Nat → Nat) : Sess → List Event → Sess × Option SessErrG
  | s, [] => (s, none)
  | s, e :: es =>
    match sessStepG saveOk strat clock s e with
    | .ok s' => sessRunG saveOk strat clock s' es
    | .error err => (s, some err)

/-- Several file backends attached to one run (`--reporting json xml junit`: one `FileReportSession` each, the same
    strategy, the same handler thread, called in subscription order): `bs` says for each whether saving this report
    succeeds.  The save of the run succeeds iff every backend's does — the first one that raises stops the loop. -/
def allOk (bs : List (Report → Bool)) (r : Report) : Bool := bs.all (fun b => b r)

/-- how many of the attached backends have refreshed their file when the loop stops: those subscribed before the first
    one that raises -/
def refreshedBeforeRaise (bs : List (Report → Bool)) (r : Report) : Nat := (bs.takeWhile (fun b => b r)).length

/-! ### which strategy a run uses: `--save-report`, `$LCC_SAVE_REPORT`, the default -/

/-- Python truthiness of `cli_args.save_report` / `os.environ.get(…)`: absent and `""` are falsy -/
def truthy : Option String → Option String
  | some s => if s.isEmpty then none else some s
  | none => none

def defaultExpr : String := "at_each_failed_test"

/-- `cli_args.save_report or os.environ.get("LCC_SAVE_REPORT") or DEFAULT_REPORT_SAVING_STRATEGY`
    (cli/commands/run.py: `get_report_saving_strategy`) -/
def resolveExpr (cli env : Option String) : String :=
  match truthy cli with
  | some s => s
  | none =>
    match truthy env with
    | some s => s
    | none => defaultExpr

def isAsciiDigit (c : Char) : Bool := '0' ≤ c && c ≤ '9'

def digitsValue (cs : List Char) : Nat := cs.foldl (fun acc c => acc * 10 + (c.toNat - 48)) 0

/-- `re.compile(r"^every[_ ](\d+)s$").match(expression)` on ASCII digits (`$` also matches before one final line feed) -/
def parseEvery (expr : String) : Option Nat :=
  let cs := expr.toList
  let cs := if cs.getLast? = some '\n' then cs.dropLast else cs
  match cs with
  | 'e' :: 'v' :: 'e' :: 'r' :: 'y' :: sepc :: rest =>
    if (sepc = '_' || sepc = ' ') && rest.getLast? = some 's' then
      let ds := rest.dropLast
      if !ds.isEmpty && ds.all isAsciiDigit then some (digitsValue ds) else none
    else none
  | _ => none

/-- `make_report_saving_strategy` (`none`: `ValueError`, surfaced as `LemoncheesecakeException` by `lcc run`) -/
def parseStrategy (expr : String) : Option Strategy :=
  if expr = "at_end_of_tests" then some .atEndOfTests
  else if expr = "at_each_suite" then some .atEachSuite
  else if expr = "at_each_test" then some .atEachTest
  else if expr = "at_each_failed_test" then some .atEachFailedTest
  else if expr = "at_each_log" then some .atEachLog
  else if expr = "at_each_event" then some .atEachLog
  else (parseEvery expr).map .everyN

/-- `get_report_saving_strategy(cli_args)` -/
def chosenStrategy (cli env : Option String) : Option Strategy := parseStrategy (resolveExpr cli env)

/-- the report the file holds (`none`: no file yet) when every save is atomic -/
def Sess.file (s : Sess) : Option Report := s.saves.head?.map (·.2)

/-! ## 4. File system -/

abbrev Text := List Nat           -- code units / bytes of the file content

/-- the report file and the temporary file beside it -/
structure FS where
  file : Option Text
  tmp : Option Text
deriving DecidableEq, Repr, Inhabited

inductive FsOp
  | truncate                 -- `open(filename, "w")`: O_CREAT | O_TRUNC on the report file itself
  | write (c : Text)         -- one `write` reaching the report file
  | close
  | createTmp                -- `open(tmp_filename, "w")`
  | writeTmp (c : Text)
  | closeTmp
  | rename                   -- `os.replace(tmp_filename, filename)`
deriving DecidableEq, Repr, Inhabited

def fsStep (s : FS) : FsOp → FS
  | .truncate => { s with file := some [] }
  | .write c => { s with file := s.file.map (· ++ c) }
  | .close => s
  | .createTmp => { s with tmp := some [] }
  | .writeTmp c => { s with tmp := s.tmp.map (· ++ c) }
  | .closeTmp => s
  | .rename =>
    match s.tmp with
    | some t => { file := some t, tmp := none }
    | none => s

def fsRun (s : FS) (ops : List FsOp) : FS := ops.foldl fsStep s

/-- `save_report_into_file` of the unchanged code: truncate the report file, write the text in pieces -/
def saveInPlace (chunks : List Text) : List FsOp := .truncate :: (chunks.map .write ++ [.close])

/-- `save_report_into_file` with `open_for_atomic_write` (fixes/D16): write a temporary file beside the
    report file, close it, move it over the report file -/
def saveAtomic (chunks : List Text) : List FsOp := .createTmp :: (chunks.map .writeTmp ++ [.closeTmp, .rename])

/-- what a reader opening the report file — or whoever looks after the process died — finds -/
def visible (s : FS) : Option Text := s.file

def FS.empty : FS := { file := none, tmp := none }

/-- Everything the file session does to the file system during the run, in order: one save per entry of
    `saves` (oldest first).  `ser` is the serialiser (`serialize_report_into_json` + `json.dumps`, or
    `serialize_report_as_string`), `chunk` says in which pieces the text reaches the file (any split). -/
def diskOps (save : List Text → List FsOp) (ser : Report → Text) (chunk : Text → List Text) (s : Sess) : List FsOp :=
  (s.saves.reverse.map (fun p => chunk (ser p.2))).flatMap save

end LccModel.Saving

/-
  C20 — views evaluated SEVERAL TIMES on one live report while the run goes on.

  `lcc run --reporting console json junit` keeps ONE `Report` object: the `ReportWriter` mutates it event after
  event, the JUnit backend's save (each time the saving strategy fires) calls `ReportStats.from_report(report)`,
  the console backend calls it again at the end of the run, `Report.build_message` (Slack) once more.
  A view is a function of the report AS IT IS WHEN THE VIEW IS EVALUATED: nothing is remembered between two
  evaluations.  `liveRun` is that reading; `liveRunCached` is what a `from_report` memoised on the report object
  (and forgotten only when a top-level suite is added) would give — NOT the code, kept to show that the
  theorems of `Props/C20Live.lean` tell the two apart.  Core Lean only.
-/
import LccModel.Model.Views

namespace LccModel.Views
open LccModel.Report LccModel.Writer

inductive LiveAct
  | ev (e : Event)      -- the writer handles an event
  | view                -- `ReportStats.from_report(report)` is evaluated (by a save of the JUnit backend, the console, …)
deriving DecidableEq, Repr, Inhabited

/-- the evaluations made during the run, in order: (the report at that moment, the statistics obtained).
    A raising writer handler stops the run. -/
def liveRun (w : WriterState) : List LiveAct → List (Report × Stats)
  | [] => []
  | .view :: rest => (w.report, statsOf w.report) :: liveRun w rest
  | .ev e :: rest =>
    match Writer.apply w e with
    | .ok w' => liveRun w' rest
    | .error _ => []

/-- a memoised variant: the first evaluation is kept in `cache` and only dropped by `Report.add_suite`
    (a new TOP-LEVEL suite: the number of top-level suites grows) -/
def liveRunCached (w : WriterState) (cache : Option Stats) : List LiveAct → List (Report × Stats)
  | [] => []
  | .view :: rest =>
    let s := cache.getD (statsOf w.report)
    (w.report, s) :: liveRunCached w (some s) rest
  | .ev e :: rest =>
    match Writer.apply w e with
    | .ok w' => liveRunCached w' (if w'.report.suites.length != w.report.suites.length then none else cache) rest
    | .error _ => []

/-- driver helper: the reports at which the views are evaluated (after `k` events, for each `k` of `cuts`) -/
def actsOfCuts (es : List Event) (cuts : List Nat) : List LiveAct :=
  (if cuts.contains 0 then [LiveAct.view] else []) ++
    es.zipIdx.flatMap (fun (e, i) => LiveAct.ev e :: (if cuts.contains (i + 1) then [LiveAct.view] else []))

end LccModel.Views

/-
  M9d — SEVERAL loads in one Python process (`helpers/moduleimport.py: import_module`, the importer behind
  `load_suite_from_file` / `load_suites_from_directory` / `Project.load_suites`).

      def import_module(path):
          spec = importlib.util.spec_from_file_location(path, path)
          module = importlib.util.module_from_spec(spec)
          sys.modules[path] = module          # registered under the PATH STRING, before the file is executed
          spec.loader.exec_module(module)     # the file as it is NOW is executed; an exception leaves the entry behind
          return module

  What a process keeps between two loads is `sys.modules`: `Proc.sysModules`, path string ↦ the module object registered
  there (the content the file had at that moment; also after a failed import).  `importModule` writes that registry and
  never reads it.  A load of a directory imports every module file of the tree under `<root>/<sub>/…/<stem>.py`
  (`reimportDir`: the directory rebuilt from what the importer returned, the registry threaded through), then builds the
  suites from the imported modules (`loadDirReal`).  `runLoads` is a sequence of loads — the files edited in between, the
  same or different directories reached through the same or different path strings (a relative `suites` after a chdir).
  Core Lean only.
-/
import LccModel.Model.Loader

namespace LccModel.Reload
open LccModel.Loader

/-- the part of the interpreter state that survives a load: `sys.modules` restricted to path-named entries -/
structure Proc where
  sysModules : List (String × Module) := []

/-- `sys.modules[path] = module` -/
def Proc.register (st : Proc) (path : String) (m : Module) : Proc :=
  { sysModules := (path, m) :: st.sysModules.filter (fun e => e.1 != path) }

/-- `path in sys.modules` -/
def Proc.has (st : Proc) (path : String) : Bool := st.sysModules.any (fun e => e.1 == path)

/-- `import_module(path)` when the file at `path` holds `m` (`m.broken`: executing it raises — the half-initialised module
    travels on, the loader model turns it into the `SuiteLoadingError`): the new registry and the module the caller gets. -/
def importModule (st : Proc) (path : String) (m : Module) : Proc × Module :=
  (st.register path m, m)

/-- the module files of one directory, in scan order -/
def reimportMods (st : Proc) (dirPath : String) : List Module → Proc × List Module
  | [] => (st, [])
  | m :: ms =>
    let r := importModule st (dirPath ++ "/" ++ m.stem ++ ".py") m
    let rs := reimportMods r.1 dirPath ms
    (rs.1, r.2 :: rs.2)

mutual
/-- every `import_module` call of `load_suites_from_directory(path)`: the directory as the importer hands it over -/
def reimportDir (st : Proc) (path : String) : Dir → Proc × Dir
  | .mk name mods dirs =>
    let a := reimportMods st path mods
    let b := reimportDirs a.1 path dirs
    (b.1, .mk name a.2 b.2)
def reimportDirs (st : Proc) (path : String) : List Dir → Proc × List Dir
  | [] => (st, [])
  | d :: ds =>
    let a := reimportDir st (path ++ "/" ++ d.name) d
    let b := reimportDirs a.1 path ds
    (b.1, a.2 :: b.2)
end

/-- `load_suites_from_directory(root)` in a process with history `st`, the directory holding `d` now -/
def loadDirIn (st : Proc) (root : String) (d : Dir) : Proc × Except LoadErr (List Suite) :=
  let r := reimportDir st root d
  (r.1, loadDirReal r.2)

/-- a sequence of loads in one process: (path string passed to the loader, what the directory holds at that moment) -/
def runLoads (st : Proc) : List (String × Dir) → Proc × List (Except LoadErr (List Suite))
  | [] => (st, [])
  | (root, d) :: rest =>
    let r := loadDirIn st root d
    let rs := runLoads r.1 rest
    (rs.1, r.2 :: rs.2)

end LccModel.Reload

/-
  M10 (first half) — `reporting/backends/json_.py` and `reporting/backends/xml.py`:
  report tree ⟷ JSON value and report tree ⟷ XML element tree, field by field.

  Text layers are explicit parameters, each validated by its own differential stream:

  * `jsonText`: `json.dumps` → file → `json.loads` is assumed to be the identity on JSON values whose
    objects have distinct keys (stream `C09.json` exercises it on every string class);
  * `etNorm`: what `ET.tostring` → file (text mode, UTF-8) → `ET.parse` does to an element tree, written
    down below (stream `C09.etnorm`);
  * times: the model's times are integers of milliseconds; `JVal.time ms` / `XVal.time ms` stand for the
    ISO-8601 text `format_time_as_iso8601(ms/1000)`; that `parse_iso8601_time` inverts it, and how a
    float is rounded to ms, is validated by stream `C09.time` (floats are not modelled).

  Readers of a report go through the rank-sorted accessors: both serializers are defined on
  `Writer.view` (children stably sorted by rank at every level); `rank` itself is not serialized and a
  loaded node has rank 0.
  Core Lean only.
-/
import LccModel.Model.Report
import LccModel.Model.Writer

namespace LccModel.Serial
open LccModel.Report LccModel.Writer

/-! ### generic helpers -/

def mapExcept {α β ε : Type} (f : α → Except ε β) : List α → Except ε (List β)
  | [] => .ok []
  | x :: xs =>
    match f x with
    | .error e => .error e
    | .ok y =>
      match mapExcept f xs with
      | .error e => .error e
      | .ok ys => .ok (y :: ys)

/-- fill an insertion-ordered dict from a sequence of values (`add_test` in a loop, dict comprehension) -/
def dictFromList {α : Type} (key : α → String) (xs : List α) : List α :=
  xs.foldl (fun acc x => dictSet key x acc) []

/-! ### what a loaded report looks like: sorted children, rank 0, saving time = generation time -/

def zeroRank (m : Meta) : Meta := { m with rank := 0 }
def clearTest (t : TestResult) : TestResult := { t with md := zeroRank t.md }

mutual
def clearRanks : SuiteResult → SuiteResult
  | .mk md st en su td ts ss => .mk (zeroRank md) st en su td (ts.map clearTest) (clearRanksList ss)
def clearRanksList : List SuiteResult → List SuiteResult
  | [] => []
  | s :: ss => clearRanks s :: clearRanksList ss
end

/-- The report every reader sees, as a fresh object graph: children in accessor order, ranks 0,
    `saving_time` = the time the file was generated. -/
def loaded (g : Time) (r : Report) : Report :=
  { r with savingTime := some g, suites := clearRanksList (view r) }

/-! ### JSON -/

inductive JVal
  | null
  | bool (b : Bool)
  | num (n : Nat)
  | ver (major minor : Nat)             -- the float `report_version` (1.1)
  | time (ms : Nat)                     -- the ISO-8601 string of a time (text layer: stream `C09.time`)
  | str (s : String)
  | arr (xs : List JVal)
  | obj (kvs : List (String × JVal))
deriving Repr, Inhabited

mutual
def JVal.depth : JVal → Nat
  | .arr xs => depthList xs + 1
  | .obj kvs => depthKvs kvs + 1
  | _ => 0
def depthList : List JVal → Nat
  | [] => 0
  | x :: xs => max x.depth (depthList xs)
def depthKvs : List (String × JVal) → Nat
  | [] => 0
  | (_, v) :: r => max v.depth (depthKvs r)
end

def jTime : Option Time → JVal
  | none => .null
  | some t => .time t
def jOptStr : Option String → JVal
  | none => .null
  | some s => .str s

def levelName : LogLevel → String
  | .debug => "debug" | .info => "info" | .warn => "warn" | .error => "error"
def statusName : Status → String
  | .passed => "passed" | .failed => "failed" | .skipped => "skipped" | .disabled => "disabled"
def jStatus : Option Status → JVal
  | none => .null
  | some s => .str (statusName s)

/-- `_serialize_steps`: one log -/
def toJsonEntry : Entry → JVal
  | .log level msg t => .obj [("type", .str "log"), ("level", .str (levelName level)), ("message", .str msg), ("time", .time t)]
  | .attachment d f img t =>
    .obj [("type", .str "attachment"), ("description", .str d), ("filename", .str f), ("as_image", .bool img), ("time", .time t)]
  | .url d u t => .obj [("type", .str "url"), ("description", .str d), ("url", .str u), ("time", .time t)]
  | .check d ok det t =>
    .obj [("type", .str "check"), ("description", .str d), ("is_successful", .bool ok), ("details", jOptStr det), ("time", .time t)]

def toJsonStep (s : Step) : JVal :=
  .obj [("description", .str s.description), ("start_time", jTime s.startTime), ("end_time", jTime s.endTime),
        ("entries", .arr (s.entries.map toJsonEntry))]

/-- `_serialize_result` -/
def resultFields (r : Result) : List (String × JVal) :=
  [("start_time", jTime r.startTime), ("end_time", jTime r.endTime), ("steps", .arr (r.steps.map toJsonStep)),
   ("status", jStatus r.status), ("status_details", jOptStr r.statusDetails)]

/-- `_serialize_node_metadata` -/
def metaFields (m : Meta) : List (String × JVal) :=
  [("name", .str m.name), ("description", .str m.description), ("tags", .arr (m.tags.map .str)),
   ("properties", .obj (m.properties.map (fun (k, v) => (k, .str v)))),
   ("links", .arr (m.links.map (fun (u, n) => .obj [("name", jOptStr n), ("url", .str u)])))]

def toJsonResult (r : Result) : JVal := .obj (resultFields r)
def toJsonTest (t : TestResult) : JVal := .obj (resultFields t.result ++ metaFields t.md)

def optField (k : String) : Option Result → List (String × JVal)
  | none => []
  | some r => [(k, toJsonResult r)]

mutual
/-- `_serialize_suite_result` on a suite whose children are already in accessor order -/
def toJsonSuite : SuiteResult → JVal
  | .mk md st en su td ts ss =>
    .obj ([("start_time", jTime st), ("end_time", jTime en), ("tests", .arr (ts.map toJsonTest)),
           ("suites", .arr (toJsonSuites ss))] ++ metaFields md ++ optField "suite_setup" su ++ optField "suite_teardown" td)
def toJsonSuites : List SuiteResult → List JVal
  | [] => []
  | s :: ss => toJsonSuite s :: toJsonSuites ss
end

/-- `serialize_report_into_json`; `g` = `time.time()` at serialization, in ms -/
def toJson (g : Time) (r : Report) : JVal :=
  .obj ([("lemoncheesecake_version", .str "lcc"), ("report_version", .ver 1 1), ("start_time", jTime r.startTime),
         ("end_time", jTime r.endTime), ("generation_time", .time g), ("nb_threads", .num r.nbThreads),
         ("title", .str r.title), ("info", .arr (r.info.map (fun (n, v) => .arr [.str n, .str v])))]
        ++ optField "test_session_setup" r.setup ++ [("suites", .arr (toJsonSuites (view r)))]
        ++ optField "test_session_teardown" r.teardown)

inductive LoadErr
  | missingKey (k : String)       -- `KeyError`
  | wrongType (what : String)     -- a value of another JSON type than the serializer writes (outside the model)
  | noVersion                     -- `ReportLoadingError`: no `report_version`
  | badVersion                    -- `ReportLoadingError`: incompatible version
  | badRoot                       -- `ReportLoadingError`: no `lemoncheesecake-report` root element
  | unknownEntry                  -- `ValueError`: unknown step log type / tag
  | noneText (what : String)      -- the load SUCCEEDS but puts `None` where the report model has a string
  | fuel                          -- unreachable: recursion bound of the model exhausted
deriving DecidableEq, Repr, Inhabited

def lookupKey (k : String) : List (String × JVal) → Option JVal
  | [] => none
  | (k', v) :: r => if k' == k then some v else lookupKey k r

/-- `json[k]` -/
def JVal.get (k : String) : JVal → Except LoadErr JVal
  | .obj kvs => match lookupKey k kvs with
    | some v => .ok v
    | none => .error (.missingKey k)
  | _ => .error (.wrongType "object")

/-- `k in json` / `json.get(k)` -/
def JVal.get? (k : String) : JVal → Option JVal
  | .obj kvs => lookupKey k kvs
  | _ => none

def asStr : JVal → Except LoadErr String
  | .str s => .ok s
  | _ => .error (.wrongType "string")
def asOptStr : JVal → Except LoadErr (Option String)
  | .null => .ok none
  | .str s => .ok (some s)
  | _ => .error (.wrongType "string or null")
def asBool : JVal → Except LoadErr Bool
  | .bool b => .ok b
  | _ => .error (.wrongType "bool")
def asNat : JVal → Except LoadErr Nat
  | .num n => .ok n
  | _ => .error (.wrongType "number")
def asArr : JVal → Except LoadErr (List JVal)
  | .arr xs => .ok xs
  | _ => .error (.wrongType "array")
/-- `_unserialize_time` -/
def asTime : JVal → Except LoadErr (Option Time)
  | .null => .ok none
  | .time t => .ok (some t)
  | _ => .error (.wrongType "time")
def asReqTime : JVal → Except LoadErr Time
  | .time t => .ok t
  | _ => .error (.wrongType "time")

def parseLevel : String → Except LoadErr LogLevel
  | "debug" => .ok .debug | "info" => .ok .info | "warn" => .ok .warn | "error" => .ok .error
  | _ => .error (.wrongType "log level")
def parseStatus : String → Except LoadErr Status
  | "passed" => .ok .passed | "failed" => .ok .failed | "skipped" => .ok .skipped | "disabled" => .ok .disabled
  | _ => .error (.wrongType "status")
def asStatus : JVal → Except LoadErr (Option Status)
  | .null => .ok none
  | .str s => match parseStatus s with
    | .ok st => .ok (some st)
    | .error e => .error e
  | _ => .error (.wrongType "status")

/-- `_unserialize_step`: one log -/
def fromJsonEntry (j : JVal) : Except LoadErr Entry := do
  let ty ← asStr (← j.get "type")
  if ty == "log" then
    let level ← parseLevel (← asStr (← j.get "level"))
    let msg ← asStr (← j.get "message")
    let t ← asReqTime (← j.get "time")
    pure (.log level msg t)
  else if ty == "attachment" then
    let d ← asStr (← j.get "description")
    let f ← asStr (← j.get "filename")
    let img ← asBool (← j.get "as_image")
    let t ← asReqTime (← j.get "time")
    pure (.attachment d f img t)
  else if ty == "url" then
    let d ← asStr (← j.get "description")
    let u ← asStr (← j.get "url")
    let t ← asReqTime (← j.get "time")
    pure (.url d u t)
  else if ty == "check" then
    let d ← asStr (← j.get "description")
    let ok ← asBool (← j.get "is_successful")
    let det ← asOptStr (← j.get "details")
    let t ← asReqTime (← j.get "time")
    pure (.check d ok det t)
  else throw .unknownEntry

def fromJsonStep (j : JVal) : Except LoadErr Step := do
  let d ← asStr (← j.get "description")
  let st ← asTime (← j.get "start_time")
  let en ← asTime (← j.get "end_time")
  let es ← mapExcept fromJsonEntry (← asArr (← j.get "entries"))
  pure { description := d, startTime := st, endTime := en, entries := es }

/-- `_unserialize_result` -/
def fromJsonResult (j : JVal) : Except LoadErr Result := do
  let status ← asStatus (← j.get "status")
  let details ← match j.get? "status_details" with
    | none => pure none
    | some v => asOptStr v
  let st ← asTime (← j.get "start_time")
  let en ← asTime (← j.get "end_time")
  let steps ← mapExcept fromJsonStep (← asArr (← j.get "steps"))
  pure { steps := steps, startTime := st, endTime := en, status := status, statusDetails := details }

def fromJsonProp : String × JVal → Except LoadErr (String × String)
  | (k, v) => match asStr v with
    | .ok s => .ok (k, s)
    | .error e => .error e

def asObj : JVal → Except LoadErr (List (String × JVal))
  | .obj kvs => .ok kvs
  | _ => .error (.wrongType "object")

def fromJsonLink (j : JVal) : Except LoadErr (String × Option String) := do
  let u ← asStr (← j.get "url")
  let n ← asOptStr (← j.get "name")
  pure (u, n)

/-- `TestResult(name, description)` / `SuiteResult(…)` + `_unserialize_node_metadata`; rank stays 0 -/
def fromJsonMeta (j : JVal) : Except LoadErr Meta := do
  let name ← asStr (← j.get "name")
  let d ← asStr (← j.get "description")
  let tags ← mapExcept asStr (← asArr (← j.get "tags"))
  let props ← mapExcept fromJsonProp (← asObj (← j.get "properties"))
  let links ← mapExcept fromJsonLink (← asArr (← j.get "links"))
  pure { name := name, description := d, tags := tags, properties := props, links := links, rank := 0 }

def fromJsonTest (j : JVal) : Except LoadErr TestResult := do
  let md ← fromJsonMeta j
  let res ← fromJsonResult j
  pure { md := md, result := res }

def fromJsonOptResult (k : String) (j : JVal) : Except LoadErr (Option Result) :=
  match j.get? k with
  | none => .ok none
  | some v => match fromJsonResult v with
    | .ok r => .ok (some r)
    | .error e => .error e

def testName (t : TestResult) : String := t.md.name

/-- `_unserialize_suite_result`; `fuel` bounds the suite nesting (structural recursion on it) -/
def fromJsonSuite : Nat → JVal → Except LoadErr SuiteResult
  | 0, _ => .error .fuel
  | fuel + 1, j => do
    let md ← fromJsonMeta j
    let st ← asTime (← j.get "start_time")
    let en ← asTime (← j.get "end_time")
    let su ← fromJsonOptResult "suite_setup" j
    let ts ← mapExcept fromJsonTest (← asArr (← j.get "tests"))
    let td ← fromJsonOptResult "suite_teardown" j
    let ss ← mapExcept (fromJsonSuite fuel) (← asArr (← j.get "suites"))
    pure (.mk md st en su td (dictFromList testName ts) ss)

def fromJsonInfo (x : JVal) : Except LoadErr (String × String) := do
  match (← asArr x) with
  | [n, v] => pure ((← asStr n), (← asStr v))
  | _ => throw (.wrongType "info pair")

/-- `load_report_from_file` after `json.loads` + `_unserialize_report` -/
def fromJsonFuel (fuel : Nat) (j : JVal) : Except LoadErr Report := do
  match j.get? "report_version" with
  | none => throw .noVersion
  | some (.ver major _) => if major ≥ 2 then throw .badVersion
  | some _ => throw (.wrongType "version")
  let title ← asStr (← j.get "title")
  let info ← mapExcept fromJsonInfo (← asArr (← j.get "info"))
  let st ← asTime (← j.get "start_time")
  let en ← asTime (← j.get "end_time")
  let gen ← asTime (← j.get "generation_time")
  let nb ← asNat (← j.get "nb_threads")
  let su ← fromJsonOptResult "test_session_setup" j
  let ss ← mapExcept (fromJsonSuite fuel) (← asArr (← j.get "suites"))
  let td ← fromJsonOptResult "test_session_teardown" j
  pure { title := title, info := info, nbThreads := nb, startTime := st, endTime := en, savingTime := gen,
         setup := su, teardown := td, suites := ss }

def fromJson (j : JVal) : Except LoadErr Report := fromJsonFuel j.depth j

/-! ### XML -/

inductive XVal
  | text (s : String)
  | time (ms : Nat)                 -- ISO-8601 text of a time (text layer: stream `C09.time`)
  | num (n : Nat)                   -- `str(n)` of an int, read back with `int(…)`
deriving DecidableEq, Repr, Inhabited

/-- an `xml.etree.ElementTree.Element` without tails (the loader never reads them) -/
inductive XElem
  | mk (tag : String) (attrs : List (String × XVal)) (text : Option String) (children : List XElem)
deriving Repr, Inhabited

namespace XElem
def tag : XElem → String | mk t _ _ _ => t
def attrs : XElem → List (String × XVal) | mk _ a _ _ => a
def text : XElem → Option String | mk _ _ t _ => t
def children : XElem → List XElem | mk _ _ _ c => c
end XElem

mutual
def XElem.depth : XElem → Nat
  | .mk _ _ _ cs => xdepthList cs + 1
def xdepthList : List XElem → Nat
  | [] => 0
  | x :: xs => max x.depth (xdepthList xs)
end

inductive SaveErr
  | noneTime (what : String)      -- `TypeError`: `format_time_as_iso8601(None)` (the XML serializer formats start times unconditionally)
  | encode                        -- `UnicodeEncodeError`: a lone surrogate cannot be written to the UTF-8 file
deriving DecidableEq, Repr, Inhabited

def boolText (b : Bool) : XVal := .text (if b then "true" else "false")

def leaf (tag : String) (attrs : List (String × XVal)) (text : Option String) : XElem := .mk tag attrs text []

/-- `_serialize_steps`: one log -/
def toXmlEntry : Entry → XElem
  | .log level msg t => leaf "log" [("level", .text (levelName level)), ("time", .time t)] (some msg)
  | .attachment d f img t => leaf "attachment" [("description", .text d), ("as-image", boolText img), ("time", .time t)] (some f)
  | .url d u t => leaf "url" [("description", .text d), ("time", .time t)] (some u)
  | .check d ok det t => leaf "check" [("description", .text d), ("is-successful", boolText ok), ("time", .time t)] det

def endAttr : Option Time → List (String × XVal)
  | none => []
  | some t => [("end-time", .time t)]

def toXmlStep (s : Step) : Except SaveErr XElem :=
  match s.startTime with
  | none => .error (.noneTime "step")
  | some st => .ok (.mk "step" ([("description", .text s.description), ("start-time", .time st)] ++ endAttr s.endTime) none
                     (s.entries.map toXmlEntry))

def optAttr (k : String) : Option String → List (String × XVal)
  | none => []
  | some s => [(k, .text s)]

/-- `_serialize_result`: attributes and step children added to an element
    (mirrors the code WITH `fixes/D8b-xml-empty-attribute-strings.diff`: `status_details is not None`) -/
def resultAttrs (r : Result) : Except SaveErr (List (String × XVal)) :=
  match r.startTime with
  | none => .error (.noneTime "result")
  | some st => .ok (optAttr "status" (r.status.map statusName) ++ optAttr "status-details" r.statusDetails
                     ++ [("start-time", .time st)] ++ endAttr r.endTime)

/-- `_serialize_node_metadata` -/
def metaAttrs (m : Meta) : List (String × XVal) := [("name", .text m.name), ("description", .text m.description)]
def toXmlTag (t : String) : XElem := leaf "tag" [] (some t)
def toXmlProp (p : String × String) : XElem := leaf "property" [("name", .text p.1)] (some p.2)
def toXmlLink (l : String × Option String) : XElem := leaf "link" (optAttr "name" l.2) (some l.1)
def toXmlInfo (p : String × String) : XElem := leaf "info" [("name", .text p.1)] (some p.2)
def metaChildren (m : Meta) : List XElem :=
  m.tags.map toXmlTag ++ m.properties.map toXmlProp ++ m.links.map toXmlLink

def toXmlResult (tag : String) (r : Result) : Except SaveErr XElem :=
  match resultAttrs r, mapExcept toXmlStep r.steps with
  | .ok a, .ok steps => .ok (.mk tag a none steps)
  | .error e, _ => .error e
  | _, .error e => .error e

def toXmlTest (t : TestResult) : Except SaveErr XElem :=
  match resultAttrs t.result, mapExcept toXmlStep t.result.steps with
  | .ok a, .ok steps => .ok (.mk "test" (metaAttrs t.md ++ a) none (metaChildren t.md ++ steps))
  | .error e, _ => .error e
  | _, .error e => .error e

def toXmlOptResult (tag : String) : Option Result → Except SaveErr (List XElem)
  | none => .ok []
  | some r => match toXmlResult tag r with
    | .ok x => .ok [x]
    | .error e => .error e

mutual
/-- `_serialize_suite_result` on a suite whose children are already in accessor order.
    (Evaluation order of the code: metadata, start time, setup, tests, sub-suites, teardown.) -/
def toXmlSuite : SuiteResult → Except SaveErr XElem
  | .mk md st en su td ts ss =>
    match st with
    | none => .error (.noneTime "suite")
    | some st =>
      match toXmlOptResult "suite-setup" su with
      | .error e => .error e
      | .ok xsu =>
        match mapExcept toXmlTest ts with
        | .error e => .error e
        | .ok xts =>
          match toXmlSuites ss with
          | .error e => .error e
          | .ok xss =>
            match toXmlOptResult "suite-teardown" td with
            | .error e => .error e
            | .ok xtd =>
              .ok (.mk "suite" (metaAttrs md ++ [("start-time", .time st)] ++ endAttr en) none
                    (metaChildren md ++ xsu ++ xts ++ xss ++ xtd))
def toXmlSuites : List SuiteResult → Except SaveErr (List XElem)
  | [] => .ok []
  | s :: ss =>
    match toXmlSuite s with
    | .error e => .error e
    | .ok x =>
      match toXmlSuites ss with
      | .error e => .error e
      | .ok xs => .ok (x :: xs)
end

/-- `serialize_report_as_xml_tree` -/
def toXml (g : Time) (r : Report) : Except SaveErr XElem :=
  match r.startTime with
  | none => .error (.noneTime "report")
  | some st =>
    match toXmlOptResult "test-session-setup" r.setup with
    | .error e => .error e
    | .ok xsu =>
      match toXmlSuites (view r) with
      | .error e => .error e
      | .ok xss =>
        match toXmlOptResult "test-session-teardown" r.teardown with
        | .error e => .error e
        | .ok xtd =>
          .ok (.mk "lemoncheesecake-report"
                ([("lemoncheesecake-version", .text "lcc"), ("report-version", .text "1.1"), ("start-time", .time st)]
                  ++ endAttr r.endTime ++ [("generation-time", .time g), ("nb-threads", .num r.nbThreads)])
                none
                ([leaf "title" [] (some r.title)] ++ r.info.map toXmlInfo
                  ++ xsu ++ xss ++ xtd))

/-! #### the XML text layer, `etNorm` -/

/-- a lone surrogate, carried as a plane-16 private-use scalar (see `ProtoReport.lean`) -/
def isSurrogateCarrier (c : Char) : Bool := 0x10F800 ≤ c.toNat

/-- XML 1.0 `Char` production, as expat enforces it on parsing -/
def isXmlChar (c : Char) : Bool :=
  let n := c.toNat
  n == 0x9 || n == 0xA || n == 0xD || (0x20 ≤ n && n != 0xFFFE && n != 0xFFFF)

/-- end-of-line handling of parsed character data: CRLF and lone CR become LF -/
def normEol : List Char → List Char
  | [] => []
  | '\r' :: '\n' :: rest => '\n' :: normEol rest
  | '\r' :: rest => '\n' :: normEol rest
  | c :: rest => c :: normEol rest

/-- element text: `""` is written as no text at all, line ends are normalised -/
def normText (s : String) : Option String :=
  if s.isEmpty then none else some (String.ofList (normEol s.toList))

inductive TextErr
  | encode        -- writing the file raises `UnicodeEncodeError` (lone surrogate)
  | parse         -- loading raises `ParseError` → `ReportLoadingError` (a character XML 1.0 does not allow)
deriving DecidableEq, Repr, Inhabited

def valChars : XVal → List Char
  | .text s => s.toList
  | .time _ => []
  | .num _ => []

mutual
/-- every character of the document, in document order -/
def XElem.chars : XElem → List Char
  | .mk _ attrs text cs =>
    attrs.flatMap (fun a => valChars a.2) ++ (match text with | some s => s.toList | none => []) ++ charsList cs
def charsList : List XElem → List Char
  | [] => []
  | x :: xs => x.chars ++ charsList xs
end

mutual
def normElem : XElem → XElem
  | .mk tag attrs text cs => .mk tag attrs (text.bind normText) (normElems cs)
def normElems : List XElem → List XElem
  | [] => []
  | x :: xs => normElem x :: normElems xs
end

/-- `ET.tostring(tree)` → `open(path, "w").write` → `ET.parse(open(path))`:
    attribute values are preserved (tab, LF, CR are written as character references);
    text `""` comes back as `None`; CR / CRLF in text come back as LF;
    any lone surrogate anywhere makes the write fail; otherwise any non-XML character makes the parse fail. -/
def etNorm (x : XElem) : Except TextErr XElem :=
  if x.chars.any isSurrogateCarrier then .error .encode
  else if x.chars.any (fun c => !isXmlChar c) then .error .parse
  else .ok (normElem x)

/-! #### loading -/

def attr? (k : String) (x : XElem) : Option XVal := x.attrs.lookup k

def attrText (k : String) (x : XElem) : Except LoadErr String :=
  match attr? k x with
  | some (.text s) => .ok s
  | some _ => .error (.wrongType "text attribute")
  | none => .error (.missingKey k)

def attrTime (k : String) (x : XElem) : Except LoadErr Time :=
  match attr? k x with
  | some (.time t) => .ok t
  | some _ => .error (.wrongType "time attribute")
  | none => .error (.missingKey k)

/-- `… if "end-time" in attrib else None` -/
def attrOptTime (k : String) (x : XElem) : Except LoadErr (Option Time) :=
  match attr? k x with
  | some (.time t) => .ok (some t)
  | some _ => .error (.wrongType "time attribute")
  | none => .ok none

/-- `attrib.get(k, None)` -/
def attrOptText (k : String) (x : XElem) : Except LoadErr (Option String) :=
  match attr? k x with
  | some (.text s) => .ok (some s)
  | some _ => .error (.wrongType "text attribute")
  | none => .ok none

def parseBool : String → Except LoadErr Bool
  | "true" => .ok true
  | "false" => .ok false
  | _ => .error (.wrongType "boolean")

/-- a text the report model needs as a string -/
def reqText (what : String) (x : XElem) : Except LoadErr String :=
  match x.text with
  | some s => .ok s
  | none => .error (.noneText what)

def findall (tag : String) (x : XElem) : List XElem := x.children.filter (fun c => c.tag == tag)
def find? (tag : String) (x : XElem) : Option XElem := x.children.find? (fun c => c.tag == tag)

/-- `_unserialize_step`: one log -/
def fromXmlEntry (x : XElem) : Except LoadErr Entry := do
  if x.tag == "log" then
    let level ← parseLevel (← attrText "level" x)
    let msg ← reqText "log message" x
    let t ← attrTime "time" x
    pure (.log level msg t)
  else if x.tag == "attachment" then
    let d ← attrText "description" x
    let f ← reqText "attachment filename" x
    let img ← parseBool (← attrText "as-image" x)
    let t ← attrTime "time" x
    pure (.attachment d f img t)
  else if x.tag == "url" then
    let d ← attrText "description" x
    let u ← reqText "url" x
    let t ← attrTime "time" x
    pure (.url d u t)
  else if x.tag == "check" then
    let d ← attrText "description" x
    let ok ← parseBool (← attrText "is-successful" x)
    let t ← attrTime "time" x
    pure (.check d ok x.text t)
  else throw .unknownEntry

def fromXmlStep (x : XElem) : Except LoadErr Step := do
  let d ← attrText "description" x
  let st ← attrTime "start-time" x
  let en ← attrOptTime "end-time" x
  let es ← mapExcept fromXmlEntry x.children
  pure { description := d, startTime := some st, endTime := en, entries := es }

/-- `_unserialize_result` -/
def fromXmlResult (x : XElem) : Except LoadErr Result := do
  let status ← match (← attrOptText "status" x) with
    | none => pure none
    | some s => do pure (some (← parseStatus s))
  let details ← attrOptText "status-details" x
  let st ← attrTime "start-time" x
  let en ← attrOptTime "end-time" x
  let steps ← mapExcept fromXmlStep (findall "step" x)
  pure { steps := steps, startTime := some st, endTime := en, status := status, statusDetails := details }

def propKey (p : String × String) : String := p.1

def fromXmlProp (n : XElem) : Except LoadErr (String × String) := do
  pure ((← attrText "name" n), (← reqText "property value" n))
def fromXmlLink (n : XElem) : Except LoadErr (String × Option String) := do
  pure ((← reqText "link url" n), (← attrOptText "name" n))
def fromXmlInfo (n : XElem) : Except LoadErr (String × String) := do
  pure ((← attrText "name" n), (← reqText "info value" n))

/-- node constructor + `_unserialize_node_metadata` (`properties` is built by a dict comprehension) -/
def fromXmlMeta (x : XElem) : Except LoadErr Meta := do
  let name ← attrText "name" x
  let d ← attrText "description" x
  let tags ← mapExcept (reqText "tag") (findall "tag" x)
  let props ← mapExcept fromXmlProp (findall "property" x)
  let links ← mapExcept fromXmlLink (findall "link" x)
  pure { name := name, description := d, tags := tags, properties := dictFromList propKey props, links := links, rank := 0 }

def fromXmlTest (x : XElem) : Except LoadErr TestResult := do
  let name ← attrText "name" x           -- `TestResult(attrib["name"], attrib["description"])` comes first
  let _ ← attrText "description" x
  let _ := name
  let res ← fromXmlResult x
  let md ← fromXmlMeta x
  pure { md := md, result := res }

def fromXmlOptResult (tag : String) (x : XElem) : Except LoadErr (Option Result) :=
  match find? tag x with
  | none => .ok none
  | some c => match fromXmlResult c with
    | .ok r => .ok (some r)
    | .error e => .error e

/-- `_unserialize_suite_result` -/
def fromXmlSuite : Nat → XElem → Except LoadErr SuiteResult
  | 0, _ => .error .fuel
  | fuel + 1, x => do
    let _ ← attrText "name" x
    let _ ← attrText "description" x
    let st ← attrTime "start-time" x
    let en ← attrOptTime "end-time" x
    let md ← fromXmlMeta x
    let su ← fromXmlOptResult "suite-setup" x
    let ts ← mapExcept fromXmlTest (findall "test" x)
    let td ← fromXmlOptResult "suite-teardown" x
    let ss ← mapExcept (fromXmlSuite fuel) (findall "suite" x)
    pure (.mk md (some st) en su td (dictFromList testName ts) ss)

/-- `int(attrib[k])` -/
def attrNum (k : String) (x : XElem) : Except LoadErr Nat :=
  match attr? k x with
  | some (.num n) => .ok n
  | some _ => .error (.wrongType "integer attribute")
  | none => .error (.missingKey k)

/-- `load_report_from_file` after `ET.parse` + `_unserialize_report` -/
def fromXmlFuel (fuel : Nat) (x : XElem) : Except LoadErr Report := do
  if x.tag != "lemoncheesecake-report" then throw .badRoot
  let ver ← attrText "report-version" x
  if !(ver == "1.0" || ver == "1.1") then throw .badVersion
  let st ← attrTime "start-time" x
  let en ← attrOptTime "end-time" x
  let gen ← attrOptTime "generation-time" x
  let nb ← attrNum "nb-threads" x
  let title ← match find? "title" x with
    | none => throw (.missingKey "title")
    | some t => reqText "title" t
  let info ← mapExcept fromXmlInfo (findall "info" x)
  let su ← fromXmlOptResult "test-session-setup" x
  let ss ← mapExcept (fromXmlSuite fuel) (findall "suite" x)
  let td ← fromXmlOptResult "test-session-teardown" x
  pure { title := title, info := info, nbThreads := nb, startTime := some st, endTime := en, savingTime := gen,
         setup := su, teardown := td, suites := ss }

def fromXml (x : XElem) : Except LoadErr Report := fromXmlFuel x.depth x

/-- save as XML, then load: the outcome classes the harness observes -/
inductive XmlOutcome
  | saveError (e : SaveErr)
  | textError (e : TextErr)
  | loadError (e : LoadErr)
  | loaded (r : Report)
deriving Repr

def xmlRoundTrip (g : Time) (r : Report) : XmlOutcome :=
  match toXml g r with
  | .error e => .saveError e
  | .ok x =>
    match etNorm x with
    | .error .encode => .saveError .encode
    | .error e => .textError e
    | .ok y =>
      match fromXml y with
      | .error e => .loadError e
      | .ok r' => .loaded r'

/-! ### guards -/

/-- Python-representability of a suite's children: `_tests` is a dict keyed by test name and
    `properties` a dict, so names / keys are distinct (the Lean types do not enforce it). -/

def metaRepr (m : Meta) : Bool := distinctNames (m.properties.map propKey)
def testRepr (t : TestResult) : Bool := metaRepr t.md

mutual
def suiteRepr : SuiteResult → Bool
  | .mk md _ _ _ _ ts ss => metaRepr md && distinctNames (ts.map testName) && ts.all testRepr && suitesRepr ss
def suitesRepr : List SuiteResult → Bool
  | [] => true
  | s :: ss => suiteRepr s && suitesRepr ss
end

/-- the report is one a Python object graph can hold -/
def representable (r : Report) : Bool := suitesRepr r.suites

mutual
/-- every node has rank 0 — the shape of a report that was itself loaded from a file -/
def ranksZero : SuiteResult → Bool
  | .mk md _ _ _ _ ts ss => md.rank == 0 && ts.all (fun t => t.md.rank == 0) && ranksZeroList ss
def ranksZeroList : List SuiteResult → Bool
  | [] => true
  | s :: ss => ranksZero s && ranksZeroList ss
end

def charOk (c : Char) : Bool := isXmlChar c && !isSurrogateCarrier c
/-- an attribute position keeps its value iff every character is an XML character -/
def attrOk (s : String) : Bool := s.toList.all charOk
/-- a text position keeps its value iff moreover it is non-empty and has no CR -/
def textOk (s : String) : Bool := !s.isEmpty && s.toList.all (fun c => charOk c && c != '\r')
/-- `status-details`, link name: optional attributes (written `if … is not None`, with
    `fixes/D8b-xml-empty-attribute-strings.diff`; the unchanged tree tests truthiness and drops `""`) -/
def optAttrOk : Option String → Bool
  | none => true
  | some s => attrOk s
def optTextOk : Option String → Bool
  | none => true
  | some s => textOk s

def entrySafe : Entry → Bool
  | .log _ msg _ => textOk msg
  | .check d _ det _ => attrOk d && optTextOk det
  | .attachment d f _ _ => attrOk d && textOk f
  | .url d u _ => attrOk d && textOk u

def stepSafe (s : Step) : Bool := s.startTime.isSome && attrOk s.description && s.entries.all entrySafe
def resultSafe (r : Result) : Bool := r.startTime.isSome && optAttrOk r.statusDetails && r.steps.all stepSafe
def optResultSafe : Option Result → Bool
  | none => true
  | some r => resultSafe r
def metaSafe (m : Meta) : Bool :=
  attrOk m.name && attrOk m.description && m.tags.all textOk
  && m.properties.all (fun p => attrOk p.1 && textOk p.2) && m.links.all (fun l => textOk l.1 && optAttrOk l.2)
def testSafe (t : TestResult) : Bool := metaSafe t.md && resultSafe t.result

mutual
def suiteSafe : SuiteResult → Bool
  | .mk md st _ su td ts ss =>
    metaSafe md && st.isSome && optResultSafe su && optResultSafe td && ts.all testSafe && suitesSafe ss
def suitesSafe : List SuiteResult → Bool
  | [] => true
  | s :: ss => suiteSafe s && suitesSafe ss
end

/-- The exact guard under which an XML save/load gives the report back:
    every start time is set (the serializer formats them unconditionally);
    no text-position string (title, info value, tag, property value, link url, log message, attachment
    file name, url, check details) is empty or contains CR;
    every character anywhere is an XML 1.0 character and not a lone surrogate. -/
def xmlSafe (r : Report) : Bool :=
  r.startTime.isSome && textOk r.title && r.info.all (fun p => attrOk p.1 && textOk p.2)
  && optResultSafe r.setup && optResultSafe r.teardown && suitesSafe r.suites

end LccModel.Serial

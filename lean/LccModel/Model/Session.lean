/-
  M3 — model of the cursor / hold / flush / discard protocol of `lemoncheesecake/session.py`.

  One `Cursor` per thread (the `threading.local`), the shared failure set (`_failures`), the shared
  attachment counter, the attachments that are prepared but not yet reported (`prepare_attachment` is a
  context manager: the name is computed on entry, the event is fired on normal exit, the user's `with` body runs
  in between; when the body raises the block is left without any event: `attachAbort`), and the list of events fired so far (what `event_manager.fire` received, in
  order).  Every `Event(...)` construction reads the clock once; with the harness's fake clock
  (+1 per read) `now` is exactly that counter, so fired events can be compared including times.
  Core Lean only.
-/
import LccModel.Model.Report
import LccModel.Model.AttachName

namespace LccModel.Session
open LccModel.Report

structure Cursor where
  loc : Loc
  step : Option String
  pending : List Event          -- `pending_events`, oldest first
deriving Repr, DecidableEq

/-- a `prepare_attachment(filename, description, as_image)` context manager that has been entered (by
    thread `tid`) and not yet left: what its generator frame remembers -/
structure Prep where
  tid : Nat
  name : String                 -- "attachments/%04d_<filename>", computed on entry
  description : String
  asImage : Bool
deriving Repr, DecidableEq

structure St where
  cursors : List (Nat × Cursor)        -- thread id ↦ cursor (`self._local.cursor`); first match wins
  saved : List (Nat × Cursor × Option String)  -- lcc.Thread objects created but not yet running: tid ↦ (cursor, default step)
  failures : List Loc                  -- `_failures` (a set; membership is what matters)
  fired : List Event                   -- events given to `event_manager.fire`, oldest first
  attachCount : Nat
  prepared : List Prep                 -- entered `prepare_attachment` blocks, newest first (per thread: a LIFO stack)
  now : Nat                            -- fake clock: value the next `time.time()` returns
deriving Repr

def St.init : St := { cursors := [], saved := [], failures := [], fired := [], attachCount := 0, prepared := [], now := 1 }

inductive Err
  | noCursor            -- AttributeError: thread-local has no cursor
  | noStep              -- AssertionError "There is no started step"
  | noSavedThread
  | noAttach            -- leaving a `prepare_attachment` block that was never entered: not expressible in Python
deriving Repr, DecidableEq

/-- the API calls of `Session` (and of `lcc.Thread`), each issued by thread `tid` -/
inductive Op
  | startTestSession | endTestSession
  | startSessionSetup | endSessionSetup | startSessionTeardown | endSessionTeardown
  | startSuite (path : Path) (md : Meta) | endSuite (path : Path)
  | startSuiteSetup (path : Path) | endSuiteSetup (path : Path)
  | startSuiteTeardown (path : Path) | endSuiteTeardown (path : Path)
  | startTest (path : Path) (md : Meta) | endTest (path : Path)
  | skipTest (path : Path) (md : Meta) (reason : Option String)
  | disableTest (path : Path) (md : Meta) (reason : Option String)
  | setStep (description : String)
  | endStep
  | log (level : LogLevel) (message : String)
  | check (description : String) (ok : Bool) (details : Option String)
  | url (url description : String)
  | attach (filename description : String) (asImage : Bool)   -- `with prepare_attachment(..)` with a body that calls no api
  | attachBegin (filename description : String) (asImage : Bool)  -- entering `with prepare_attachment(..)`
  | attachEnd                                                -- leaving the innermost block this thread entered
  | attachAbort                                              -- an exception leaves the innermost block this thread entered
  | threadCreate (newTid : Nat)        -- `lcc.Thread(...)` constructed by thread `tid`
  | threadRun                          -- `Thread.run` prologue, executed by the new thread itself
  | threadEnd                          -- `Thread.run` epilogue (`finally: end_step()`)
deriving Repr, DecidableEq

def getCursor (s : St) (tid : Nat) : Option Cursor :=
  (s.cursors.find? (fun p => p.1 == tid)).map (·.2)

def setCursor (s : St) (tid : Nat) (c : Cursor) : St :=
  { s with cursors := (tid, c) :: s.cursors.filter (fun p => p.1 != tid) }

def fire (s : St) (e : Event) : St := { s with fired := s.fired ++ [e] }
def fireAll (s : St) (es : List Event) : St := { s with fired := s.fired ++ es }
def tick (s : St) : St := { s with now := s.now + 1 }

def markFailed (s : St) (l : Loc) : St :=
  if l ∈ s.failures then s else { s with failures := s.failures ++ [l] }

/-- `is_successful(location)` -/
def isSuccessful (s : St) (l : Loc) : Bool := !(s.failures.contains l)
/-- `is_successful()` -/
def isSuccessfulAll (s : St) : Bool := s.failures.isEmpty

def isStepStart : Event → Bool | .stepStart .. => true | _ => false
def isSessionSetupStart : Event → Bool | .sessionSetupStart .. => true | _ => false
def isSessionTeardownStart : Event → Bool | .sessionTeardownStart .. => true | _ => false
def isSuiteSetupStart : Event → Bool | .suiteSetupStart .. => true | _ => false
def isSuiteTeardownStart : Event → Bool | .suiteTeardownStart .. => true | _ => false

/-- `_discard_or_fire_event(event_class, event)`: drop the LAST pending event if it is of the class,
    otherwise fire `e`. -/
def discardOrFire (s : St) (c : Cursor) (isClass : Event → Bool) (e : Event) : St × Cursor :=
  match c.pending.getLast? with
  | some last =>
    if isClass last then (s, { c with pending := c.pending.dropLast })
    else (fire s e, c)
  | none => (fire s e, c)

/-- `_end_step_if_any()` (constructs the StepEnd event — one clock read — even when it is discarded) -/
def endStepIfAny (s : St) (tid : Nat) (c : Cursor) : St × Cursor :=
  match c.step with
  | none => (s, c)
  | some d =>
    let e := Event.stepEnd c.loc d tid s.now
    let (s, c) := discardOrFire (tick s) c isStepStart e
    (s, { c with step := none })

/-- `_flush_pending_events()` -/
def flush (s : St) (c : Cursor) : St × Cursor :=
  (fireAll s c.pending, { c with pending := [] })

def withCursor (s : St) (tid : Nat) (f : Cursor → Except Err St) : Except Err St :=
  match getCursor s tid with
  | none => .error .noCursor
  | some c => f c

def startPhase (s : St) (tid : Nat) (loc : Loc) (mk : Nat → Event) : St :=
  let e := mk s.now
  setCursor (tick s) tid { loc := loc, step := none, pending := [e] }

def endPhase (s : St) (tid : Nat) (isClass : Event → Bool) (mk : Nat → Event) : Except Err St :=
  withCursor s tid fun c =>
    let (s, c) := endStepIfAny s tid c
    let e := mk s.now
    let (s, c) := discardOrFire (tick s) c isClass e
    .ok (setCursor s tid c)

def stepped (s : St) (tid : Nat) (failing : Bool) (mk : Loc → Option String → Nat → Event) : Except Err St :=
  withCursor s tid fun c =>
    let (s, c) := flush s c
    let s := if failing then markFailed s c.loc else s
    let e := mk c.loc c.step s.now
    .ok (setCursor (fire (tick s) e) tid c)

/-- the path the `LogAttachmentEvent` carries: `"%s/%s" % ("attachments", "%04d_%s" % (n, filename))` — the directory
    and the very name the file is created under (`AttachName.stored`, any characters, any length) -/
def attachName (n : Nat) (filename : String) : String :=
  "attachments/" ++ String.ofList (AttachName.stored n filename.toList)

def step (s : St) (tid : Nat) : Op → Except Err St
  | .startTestSession => .ok (fire (tick s) (.sessionStart s.now))
  | .endTestSession => .ok (fire (tick s) (.sessionEnd s.now))
  | .startSessionSetup => .ok (startPhase s tid .sessionSetup .sessionSetupStart)
  | .endSessionSetup => endPhase s tid isSessionSetupStart .sessionSetupEnd
  | .startSessionTeardown => .ok (startPhase s tid .sessionTeardown .sessionTeardownStart)
  | .endSessionTeardown => endPhase s tid isSessionTeardownStart .sessionTeardownEnd
  | .startSuite p md => .ok (fire (tick s) (.suiteStart p md s.now))
  | .endSuite p => .ok (fire (tick s) (.suiteEnd p s.now))
  | .startSuiteSetup p => .ok (startPhase s tid (.suiteSetup p) (.suiteSetupStart p))
  | .endSuiteSetup p => endPhase s tid isSuiteSetupStart (.suiteSetupEnd p)
  | .startSuiteTeardown p => .ok (startPhase s tid (.suiteTeardown p) (.suiteTeardownStart p))
  | .endSuiteTeardown p => endPhase s tid isSuiteTeardownStart (.suiteTeardownEnd p)
  | .startTest p md =>
    let s1 := fire (tick s) (.testStart p md s.now)
    .ok (setCursor s1 tid { loc := .test p, step := none, pending := [] })
  | .endTest p =>
    withCursor s tid fun c =>
      let (s, c) := endStepIfAny s tid c
      .ok (setCursor (fire (tick s) (.testEnd p s.now)) tid c)
  | .skipTest p md reason =>
    .ok (markFailed (fire (tick s) (.testSkipped p md reason s.now)) (.test p))
  | .disableTest p md reason => .ok (fire (tick s) (.testDisabled p md reason s.now))
  | .setStep d =>
    withCursor s tid fun c =>
      let (s, c) := endStepIfAny s tid c
      let e := Event.stepStart c.loc d tid s.now
      let s := tick s
      .ok (setCursor s tid { c with step := some d, pending := c.pending ++ [e] })
  | .endStep =>
    withCursor s tid fun c =>
      match c.step with
      | none => .error .noStep
      | some _ => let (s, c) := endStepIfAny s tid c; .ok (setCursor s tid c)
  | .log level msg =>
    stepped s tid (level == .error) (fun loc st t => .log loc st tid level msg t)
  | .check d ok details =>
    stepped s tid (ok == false) (fun loc st t => .check loc st tid d ok details t)
  | .url u d => stepped s tid false (fun loc st t => .url loc st tid u d t)
  | .attach filename d asImage =>
    let n := s.attachCount + 1
    let s := { s with attachCount := n }
    stepped s tid false (fun loc st t => .attachment loc st tid (attachName n filename) d asImage t)
  | .attachBegin filename d asImage =>
    -- under `_attachment_lock`: compute the name, bump the counter; then `yield`.  The cursor is not touched.
    let n := s.attachCount + 1
    .ok { s with attachCount := n,
                 prepared := { tid := tid, name := attachName n filename, description := d, asImage := asImage } :: s.prepared }
  | .attachEnd =>
    -- after the `yield`: flush, then fire the event with the location and step the cursor has NOW
    match s.prepared.find? (fun p => p.tid == tid) with
    | none => .error .noAttach
    | some p =>
      let s := { s with prepared := s.prepared.eraseP (fun p => p.tid == tid) }
      stepped s tid false (fun loc st t => .attachment loc st tid p.name p.description p.asImage t)
  | .attachAbort =>
    -- the `with` body (or `shutil.copy` in `save_attachment_file`) raised: the exception is thrown into the
    -- generator at its `yield` and propagates (there is no `try` around the `yield`) — nothing after the `yield`
    -- runs: no flush, no event; the name that was handed out is simply never reported (the counter keeps its value)
    match s.prepared.find? (fun p => p.tid == tid) with
    | none => .error .noAttach
    | some _ => .ok { s with prepared := s.prepared.eraseP (fun p => p.tid == tid) }
  | .threadCreate newTid =>
    withCursor s tid fun c =>
      -- precondition (always true when the runner calls user code): a step is current; without one the
      -- new thread's epilogue `end_step()` asserts.  Modelled as an error at creation.
      if c.step.isNone then .error .noStep else
      let (s, c) :=
        match c.pending with
        | e :: rest =>
          if isStepStart e then (s, c)
          else (fire s e, { c with pending := rest })
        | [] => (s, c)
      let s := setCursor s tid c
      .ok { s with saved := (newTid, { loc := c.loc, step := none, pending := [] }, c.step) ::
                            s.saved.filter (fun p => p.1 != newTid) }
  | .threadRun =>
    match s.saved.find? (fun p => p.1 == tid) with
    | none => .error .noSavedThread
    | some (_, c, dflt) =>
      match dflt with
      | none => .error .noStep        -- start_step(None) then end_step asserts: not reachable from the runner
      | some d =>
        let s := { s with saved := s.saved.filter (fun p => p.1 != tid) }
        let e := Event.stepStart c.loc d tid s.now
        let s := tick s
        .ok (setCursor s tid { c with step := some d, pending := [e] })
  | .threadEnd =>
    withCursor s tid fun c =>
      match c.step with
      | none => .error .noStep
      | some _ => let (s, c) := endStepIfAny s tid c; .ok (setCursor s tid c)

def runOps : St → List (Nat × Op) → Except Err St
  | s, [] => .ok s
  | s, (tid, op) :: rest => match step s tid op with
    | .error e => .error e
    | .ok s' => runOps s' rest

end LccModel.Session

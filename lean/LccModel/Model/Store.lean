/-
  M10 (sequences) — a live report object that is saved, modified and saved again.

  `Report.save()`, `backend.save_report(path, report)` and the file sessions of a run (`FileReportSession._save`,
  C10) all serialise the report object graph *as it is at the moment of the call*.  Whatever happened before — earlier
  saves of the same objects (same or another path, same or another backend instance, other options), modifications
  of tests that were already finished when they were saved for the first time — must not show in the file.

  The model: a state = the current report value + the files written so far; operations = an arbitrary modification
  of the report (`mutate f`, any function), a save with a backend / options to a path, a load of a path.
  `run` is the real pipeline (the file holds the *serialised* value: a `JVal` behind the JSON framing, or the element
  tree that came through the XML text layer); `specRun` is the specification (the file "holds" the report value that
  was current at the save, and a load returns the one-shot round trip of that value).  `Lemmas/Store.lean` proves
  they coincide on every operation sequence.

  Core Lean only.
-/
import LccModel.Model.Serial
import LccModel.Model.JsonFile

namespace LccModel.Store
open LccModel.Report LccModel.Serial LccModel.JsonFile

inductive Fmt
  | json (o : Opts)
  | xml
deriving DecidableEq, Repr, Inhabited

inductive Op
  | mutate (f : Report → Report)              -- any in-place modification of the live objects
  | save (path : Nat) (fmt : Fmt) (g : Time)  -- `g`: `time.time()` at serialisation (ms)
  | load (path : Nat)

/-- what a save / load gives back to the caller -/
inductive Outcome
  | saved
  | saveFailed (e : SaveErr)                 -- the save raised; the file is untouched (temporary file + rename)
  | noFile                                   -- load of a path nothing was saved to
  | loadFailedText                           -- XML: the file does not parse
  | loadFailed (e : LoadErr)
  | loaded (r : Report)
deriving Repr

/-- a file's content *after the text layer* -/
inductive Content
  | json (o : Opts) (v : JVal)               -- `frame o (render o.pretty v)`; read back through `unframe` + parse
  | xml (x : Except TextErr XElem)           -- `etNorm` of the serialised tree (`parse`: the file cannot be parsed)

structure St where
  report : Report
  files : List (Nat × Content)               -- most recent save of each path first

def St.init (r : Report) : St := { report := r, files := [] }

def lookupFile {α : Type} (p : Nat) : List (Nat × α) → Option α
  | [] => none
  | (q, c) :: rest => if q = p then some c else lookupFile p rest

/-- `backend.load_report(path)` on a file with this content -/
def loadContent : Content → Outcome
  | .json _ v =>
    match fromJson v with
    | .ok r => .loaded r
    | .error e => .loadFailed e
  | .xml (.error _) => .loadFailedText
  | .xml (.ok y) =>
    match fromXml y with
    | .ok r => .loaded r
    | .error e => .loadFailed e

/-- `save_report_into_file` of xml.py: the serialiser may raise (`TypeError` on a missing start time), writing the text
    may raise (`UnicodeEncodeError`: the temporary file is dropped, the report file untouched); otherwise the file
    holds what came through the XML text layer (possibly something that cannot be parsed back) -/
def xmlFile (g : Time) (r : Report) : Except SaveErr (Except TextErr XElem) :=
  match toXml g r with
  | .error e => .error e
  | .ok x =>
    match etNorm x with
    | .error .encode => .error .encode
    | other => .ok other

/-- one operation of the real pipeline -/
def step (s : St) : Op → St × Option Outcome
  | .mutate f => ({ s with report := f s.report }, none)
  | .save p (.json o) g => ({ s with files := (p, .json o (toJson g s.report)) :: s.files }, some .saved)
  | .save p .xml g =>
    match xmlFile g s.report with
    | .error e => (s, some (.saveFailed e))
    | .ok c => ({ s with files := (p, .xml c) :: s.files }, some .saved)
  | .load p =>
    match lookupFile p s.files with
    | none => (s, some .noFile)
    | some c => (s, some (loadContent c))

def run (s : St) : List Op → List Outcome
  | [] => []
  | op :: ops =>
    match step s op with
    | (s', some o) => o :: run s' ops
    | (s', none) => run s' ops

/-! ### the specification: a file stands for the report value that was current when it was saved -/

structure Snap where
  fmt : Fmt
  g : Time
  report : Report

structure Spec where
  report : Report
  files : List (Nat × Snap)

/-- save `r` once with this backend and load it back -/
def oneShot (fmt : Fmt) (g : Time) (r : Report) : Outcome :=
  match fmt with
  | .json o => loadContent (.json o (toJson g r))
  | .xml =>
    match xmlFile g r with
    | .error e => .saveFailed e
    | .ok c => loadContent (.xml c)

/-- does a save of `r` with this backend produce a file? -/
def saveOutcome (fmt : Fmt) (g : Time) (r : Report) : Outcome :=
  match fmt with
  | .json _ => .saved
  | .xml =>
    match xmlFile g r with
    | .error e => .saveFailed e
    | .ok _ => .saved

/-- the outcome classes of `Serial.xmlRoundTrip`, as outcomes of a load -/
def ofXmlOutcome : XmlOutcome → Outcome
  | .saveError e => .saveFailed e
  | .textError _ => .loadFailedText
  | .loadError e => .loadFailed e
  | .loaded r => .loaded r

def specStep (s : Spec) : Op → Spec × Option Outcome
  | .mutate f => ({ s with report := f s.report }, none)
  | .save p fmt g =>
    match saveOutcome fmt g s.report with
    | .saved => ({ s with files := (p, { fmt := fmt, g := g, report := s.report }) :: s.files }, some .saved)
    | o => (s, some o)
  | .load p =>
    match lookupFile p s.files with
    | none => (s, some .noFile)
    | some sn => (s, some (oneShot sn.fmt sn.g sn.report))

def specRun (s : Spec) : List Op → List Outcome
  | [] => []
  | op :: ops =>
    match specStep s op with
    | (s', some o) => o :: specRun s' ops
    | (s', none) => specRun s' ops

/-- the code point a character of the model stands for (a lone surrogate travels as a plane-16 carrier, `ProtoReport.lean`) -/
def pyCode (c : Char) : Nat := if 0x10F800 ≤ c.toNat then c.toNat - 0x10F800 + 0xD800 else c.toNat

/-- does `save_report_into_file` of xml.py succeed when the file's (locale) encoding is `e`?  The serialiser must not raise
    and every character of the document — written raw, apart from the markup escapes — must be encodable.
    For `e = utf8` this is `xmlFile … ≠ .error _`. -/
def xmlSaveOkEnc (e : Encoding) (r : Report) : Bool :=
  match toXml 0 r with
  | .error _ => false
  | .ok x => x.chars.all (fun c => encodable e (pyCode c))

/-- the report value after the modifications among `ops` (saves and loads do not touch it) -/
def reportAfter (r : Report) : List Op → Report
  | [] => r
  | .mutate f :: ops => reportAfter (f r) ops
  | _ :: ops => reportAfter r ops

/-- is `op` a save to path `p`? -/
def Op.savesTo (p : Nat) : Op → Bool
  | .save q _ _ => q == p
  | _ => false

end LccModel.Store

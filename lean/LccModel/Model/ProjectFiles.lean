/-
  M9e — a project ON DISK, prepared SEVERAL TIMES in one Python process, DESIGNATED by `-p` / `$LCC_PROJECT` /
  `$LCC_PROJECT_FILE` / the working directory (fifth seeded round, C14).

  `project.py: load_project(path)`:

      if path: return _load_project_from_path(path)                       # first try: the argument (-p / --project)
      path = os.environ.get("LCC_PROJECT", os.environ.get("LCC_PROJECT_FILE"))
      if path: return _load_project_from_path(path)                       # second try: the environment
      for d in hierarchy(cwd): if exists(d/project.py): return _load_project_from_file(d/project.py)
      for d in hierarchy(cwd): if exists(d/suites):     return Project(d)
      raise ProjectNotFound

  `_load_project_from_path(p)`: a file -> the project module; a directory with `project.py` -> that module; a directory
  with `suites` -> `Project(p)`; anything else -> ProjectLoadingError.

  Everything a project holds reaches the process through `helpers/moduleimport.py: import_module(path)` — `project.py`
  (`_load_project_from_file`), every suite module (`load_suite_from_file`), every fixture module
  (`load_fixtures_from_file`): the file as it is NOW is executed, the module is registered in `sys.modules` under the
  path string, the registry is never read.  `Proc` is that registry (same shape as `Model/Reload.lean`, generic in what a
  module holds); `prepareIn` is one `lcc check` / `lcc run` / `PreparedProject.create(load_project(..))`; `runChecks` a
  sequence of them with the files and the designation changing in between.  Core Lean only.
-/
import LccModel.Model.Callable
import LccModel.Model.PolicySeq

namespace LccModel.ProjectFiles
open LccModel.Inject LccModel.Prepare

/-! ## The process: `sys.modules` restricted to path-named entries -/

structure Proc (μ : Type) where
  sysModules : List (String × μ) := []

/-- `sys.modules[path] = module` -/
def Proc.register {μ : Type} (st : Proc μ) (path : String) (m : μ) : Proc μ :=
  { sysModules := (path, m) :: st.sysModules.filter (fun e => e.1 != path) }

/-- `path in sys.modules` -/
def Proc.has {μ : Type} (st : Proc μ) (path : String) : Bool := st.sysModules.any (fun e => e.1 == path)

/-- `import_module(path)` when the file at `path` holds `m`: the new registry and the module the caller gets -/
def importModule {μ : Type} (st : Proc μ) (path : String) (m : μ) : Proc μ × μ := (st.register path m, m)

/-- the imports of one preparation, in order -/
def importAll {μ : Type} (st : Proc μ) : List (String × μ) → Proc μ × List μ
  | [] => (st, [])
  | (p, m) :: rest =>
    let r := importModule st p m
    let rs := importAll r.1 rest
    (rs.1, r.2 :: rs.2)

/-! ## What a project directory holds -/

/-- what one Python file of a project declares -/
inductive PMod where
  | projectPy (pol : Policy.Policy)          -- `project.py`: the metadata policy it configures on `project`
  | fixtures (ds : List Fixture.Decl)        -- a module of the `fixtures` directory
  | suite (s : DSuite)                       -- a module of the `suites` directory
deriving Repr

/-- a project directory at one moment -/
structure ProjDir where
  projectPy : Option Policy.Policy           -- `none`: no `project.py`
  suitesDir : Bool                           -- a `suites` sub-directory exists
  fixtures : List Fixture.Decl               -- `fixtures/fx.py`
  suites : List (String × DSuite)            -- `suites/<stem>.py`, in the loader's order (sorted file names)
deriving Repr

/-- the project the files DECLARE (`lcc check` / `lcc run` without filter: every suite is going to be run) -/
def ProjDir.project (d : ProjDir) : DProject :=
  ⟨d.projectPy.getD Policy.empty, d.fixtures, d.suites.map (·.2), d.suites.map (·.2)⟩

/-- the files of the project under `root`, with the path strings the importer is called with -/
def modulesOf (root : String) (d : ProjDir) : List (String × PMod) :=
  (match d.projectPy with
   | some p => [(root ++ "/project.py", PMod.projectPy p)]
   | none => [])
  ++ (root ++ "/fixtures/fx.py", PMod.fixtures d.fixtures)
  :: d.suites.map (fun s => (root ++ "/suites/" ++ s.1 ++ ".py", PMod.suite s.2))

def policyOf : List PMod → Policy.Policy
  | [] => Policy.empty
  | .projectPy p :: _ => p
  | _ :: rest => policyOf rest

def declsOf : List PMod → List Fixture.Decl
  | [] => []
  | .fixtures ds :: rest => ds ++ declsOf rest
  | _ :: rest => declsOf rest

def suitesOf : List PMod → List DSuite
  | [] => []
  | .suite s :: rest => s :: suitesOf rest
  | _ :: rest => suitesOf rest

/-- the project built from the modules the importer RETURNED -/
def assemble (ms : List PMod) : DProject := ⟨policyOf ms, declsOf ms, suitesOf ms, suitesOf ms⟩

/-- one preparation of the project under `root` (holding `d` now) in a process with history `st` -/
def prepareIn (st : Proc PMod) (root : String) (d : ProjDir) : Proc PMod × Except PrepErr Prepared :=
  let r := importAll st (modulesOf root d)
  (r.1, prepareFull (assemble r.2))

/-! ## Which project is designated -/

/-- the three places a path can come from; `none` = no `-p` / variable unset, `some ""` = given but empty -/
structure Desig where
  arg : Option String
  envProject : Option String
  envProjectFile : Option String
deriving Repr, DecidableEq

inductive Choice where
  | path (p : String)      -- `_load_project_from_path(p)`
  | search                 -- look in the working directory's hierarchy
deriving Repr, DecidableEq

def truthy : Option String → Option String
  | some p => if p = "" then none else some p
  | none => none

/-- `os.environ.get("LCC_PROJECT", os.environ.get("LCC_PROJECT_FILE"))`: the second variable only when the first is UNSET -/
def Desig.fromEnv (d : Desig) : Option String :=
  match d.envProject with
  | some v => some v
  | none => d.envProjectFile

/-- `load_project`'s decision -/
def Desig.choose (d : Desig) : Choice :=
  match truthy d.arg with
  | some p => .path p
  | none =>
    match truthy d.fromEnv with
    | some p => .path p
    | none => .search

/-- what a path string designates on disk -/
inductive Entry where
  | projectFile (root : String) (d : ProjDir)      -- a regular file: the project module of directory `root`
  | dir (d : ProjDir)
deriving Repr

abbrev FS := List (String × Entry)

def FS.get (fs : FS) (p : String) : Option Entry := (fs.find? (fun e => e.1 == p)).map (·.2)

inductive LoadErr where
  | notSuitable (p : String)     -- ProjectLoadingError "'%s' is not a suitable project path"
  | notFound                     -- ProjectNotFound
deriving Repr, DecidableEq

/-- `_load_project_from_path` -/
def fromPath (fs : FS) (p : String) : Except LoadErr (String × ProjDir) :=
  match fs.get p with
  | some (.projectFile root d) => .ok (root, d)
  | some (.dir d) => if d.projectPy.isSome || d.suitesDir then .ok (p, d) else .error (.notSuitable p)
  | none => .error (.notSuitable p)

def hasProjectPy (fs : FS) (p : String) : Bool :=
  match fs.get p with
  | some (.dir d) => d.projectPy.isSome
  | _ => false

def hasSuites (fs : FS) (p : String) : Bool :=
  match fs.get p with
  | some (.dir d) => d.suitesDir
  | _ => false

/-- third and fourth try: `hier` = the working directory and its ancestors, nearest first -/
def search (fs : FS) (hier : List String) : Except LoadErr (String × ProjDir) :=
  match hier.find? (hasProjectPy fs) with
  | some p => fromPath fs p
  | none =>
    match hier.find? (hasSuites fs) with
    | some p => fromPath fs p
    | none => .error .notFound

/-- `load_project(path)` -/
def loadProject (fs : FS) (hier : List String) (d : Desig) : Except LoadErr (String × ProjDir) :=
  match d.choose with
  | .path p => fromPath fs p
  | .search => search fs hier

/-- one `lcc check` / `lcc run`: the state of the disk, the working directory, the designation -/
structure Step where
  fs : FS
  hier : List String
  desig : Desig

/-- `PreparedProject.create(load_project(path))` in a process with history `st` -/
def checkIn (st : Proc PMod) (s : Step) : Proc PMod × Except LoadErr (Except PrepErr Prepared) :=
  match loadProject s.fs s.hier s.desig with
  | .error e => (st, .error e)
  | .ok (root, d) =>
    let r := prepareIn st root d
    (r.1, .ok r.2)

/-- a sequence of preparations in one process -/
def runChecks (st : Proc PMod) : List Step → Proc PMod × List (Except LoadErr (Except PrepErr Prepared))
  | [] => (st, [])
  | s :: rest =>
    let r := checkIn st s
    let rs := runChecks r.1 rest
    (rs.1, r.2 :: rs.2)

/-- the verdict the property asks for: that of the files, as they are now, of the project that is designated -/
def verdictNow (s : Step) : Except LoadErr (Except PrepErr Prepared) :=
  (loadProject s.fs s.hier s.desig).map (fun r => prepareFull r.2.project)

end LccModel.ProjectFiles

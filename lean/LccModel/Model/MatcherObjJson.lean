/-
  JSON encoding of the M12-obj syntax (`Model/MatcherObj.lean`) and the request handler of the `C17.seq` stream.

  OExpr : the Expr syntax of `MatcherJson`, plus ["obj", i] in matcher position and ["ref", l] in value position
          (`["equal_to", ["ref", 0]]`, `["val", ["ref", 0]]`, `["has_items", ["ref", 1]]`)
  Mut   : ["append", Val] | ["pop"] | ["set_idx", i, Val] | ["clear"] | ["set_key", key, Val] | ["del_key", key]
  Op    : {"op": "build", "expr": OExpr} | {"op": "mutate", "loc": l, "how": Mut} | {"op": "describe", "obj": i, "tr": [c, n]}
        | {"op": "check"|"require"|"assert", "obj": i, "hint": text|null, "value": Val | ["ref", l], "quiet": bool}
  request {"seq": {"store": [Val…], "ops": [Op…]}} → {"outs": [...]}; a request that Python could not even write down (dangling
  reference / object index, mutation that does not apply to the container) is answered by an error, never by a default.
  Core Lean only.
-/
import Lean.Data.Json
import LccModel.Model.MatcherObj
import LccModel.Model.MatcherJson

namespace LccModel.MatcherObjJson
open Lean LccModel.Matcher LccModel.MatcherObj LccModel.MatcherJson

def isRef (j : Json) : Option Nat :=
  match j with
  | .arr a =>
    if a.size == 2 && (a[0]?.getD Json.null) == Json.str "ref" then (a[1]?.getD Json.null).getNat?.toOption else none
  | _ => none

def parseVArg (j : Json) : Except String VArg :=
  match isRef j with
  | some l => pure (.ref l)
  | none => do pure (.lit (← parseVal j))

def parseLArg (j : Json) : Except String LArg :=
  match isRef j with
  | some l => pure (.ref l)
  | none => do pure (.lit (← (← j.getArr?).toList.mapM parseVal))

partial def parseOExpr (j : Json) : Except String OExpr := do
  let a ← j.getArr?
  let c ← (a[0]?.getD Json.null).getStr?
  let x := a[1]?.getD Json.null
  let y := a[2]?.getD Json.null
  let keys (j : Json) : Except String (List Key) := do (← j.getArr?).toList.mapM parseKey
  let exprs (j : Json) : Except String (List OExpr) := do (← j.getArr?).toList.mapM parseOExpr
  match c with
  | "obj" => pure (.obj (← x.getNat?))
  | "val" => pure (.val (← parseVArg x))
  | "equal_to" => pure (.equal_to (← parseVArg x))
  | "not_equal_to" => pure (.cmp .ne (← parseVArg x))
  | "greater_than" => pure (.cmp (.ord .gt) (← parseVArg x))
  | "greater_than_or_equal_to" => pure (.cmp (.ord .ge) (← parseVArg x))
  | "less_than" => pure (.cmp (.ord .lt) (← parseVArg x))
  | "less_than_or_equal_to" => pure (.cmp (.ord .le) (← parseVArg x))
  | "has_items" => pure (.has_items (← parseLArg x))
  | "has_only_items" => pure (.has_only_items (← parseLArg x))
  | "is_in" => pure (.is_in (← parseLArg x))
  | "is_" => pure (.is_ (← parseOExpr x))
  | "not_" => pure (.not_ (← parseOExpr x))
  | "has_length" => pure (.has_length (← parseOExpr x))
  | "has_item" => pure (.has_item (← parseOExpr x))
  | "has_all_items" => pure (.has_all_items (← parseOExpr x))
  | "has_entry" => pure (.has_entry (← keys x) (← parseOExpr y))
  | "is_type" => pure (.is_type (← parseTy x) (← parseOExpr y))
  | "all_of" => pure (.all_of (← exprs x))
  | "any_of" => pure (.any_of (← exprs x))
  | "hide" => pure (.hide (← parseOExpr x))
  | "override" => pure (.override (← x.getStr?).toList (← parseOExpr y))
  | _ => pure (.pure (← parseExpr j))

def parseMut (j : Json) : Except String Mut := do
  let a ← j.getArr?
  let c ← (a[0]?.getD Json.null).getStr?
  let x := a[1]?.getD Json.null
  let y := a[2]?.getD Json.null
  match c with
  | "append" => pure (.append (← parseVal x))
  | "pop" => pure .pop
  | "set_idx" => pure (.setIdx (← x.getNat?) (← parseVal y))
  | "clear" => pure .clear
  | "set_key" => pure (.setKey (← parseDKey x) (← parseVal y))
  | "del_key" => pure (.delKey (← parseDKey x))
  | t => throw s!"unknown mutation {t}"

/-- does the mutation apply to this container (Python would raise otherwise)? -/
def mutApplies : Mut → Val → Bool
  | .append _, .list _ => true
  | .pop, .list xs => !xs.isEmpty
  | .setIdx i _, .list xs => i < xs.length
  | .clear, .list _ => true
  | .clear, .dict _ _ => true
  | .setKey _ _, .dict _ _ => true
  | .delKey _, .dict _ _ => true
  | _, _ => false

mutual
/-- every reference / object index of the template exists (and collection references are lists) -/
partial def wf (σ : Store) (n : Nat) : OExpr → Bool
  | .pure _ => true
  | .obj i => i < n
  | .val a | .equal_to a | .cmp _ a => (match a with | .ref l => l < σ.length | .lit _ => true)
  | .has_items a | .has_only_items a | .is_in a =>
    (match a with
     | .ref l => (match σ[l]? with | some (.list _) => true | _ => false)
     | .lit _ => true)
  | .is_ e | .not_ e | .has_length e | .has_item e | .has_all_items e | .has_entry _ e | .is_type _ e | .hide e
  | .override _ e => wf σ n e
  | .all_of es | .any_of es => es.all (wf σ n)
end

def parseTr (j : Json) : Except String Tr := do
  let a ← j.getArr?
  pure ⟨← (a[0]?.getD Json.null).getBool?, ← (a[1]?.getD Json.null).getBool?⟩

def outJ : Out → Json
  | .built i => Json.mkObj [("built", Json.num i)]
  | .mutated v => Json.mkObj [("mutated", str (jsonify v))]
  | .text d t => Json.mkObj [("desc", str d), ("tr_after", Json.arr #[Json.bool t.conjugate, Json.bool t.negative])]
  | .checked added r => Json.mkObj [("checks", Json.arr (added.map checkJ).toArray), ("result", opResultJ r)]

def handleSeq (j : Json) : Except String Json := do
  let store ← (← (← j.getObjVal? "store").getArr?).toList.mapM parseVal
  let ops ← (← j.getObjVal? "ops").getArr?
  let mut w : World := ⟨store, [], []⟩
  let mut outs : Array Json := #[]
  for o in ops do
    let kind ← (← o.getObjVal? "op").getStr?
    let op : Op ← match kind with
      | "build" => do
        let t ← parseOExpr (← o.getObjVal? "expr")
        if !wf w.store w.heap.length t then throw "build: dangling reference or object index"
        pure (Op.build t)
      | "mutate" => do
        let l ← (← o.getObjVal? "loc").getNat?
        let μ ← parseMut (← o.getObjVal? "how")
        match w.store[l]? with
        | none => throw "mutate: no such container"
        | some x => if !mutApplies μ x then throw "mutate: does not apply to this container"
        pure (Op.mutate l μ)
      | "describe" => do
        let i ← (← o.getObjVal? "obj").getNat?
        if i ≥ w.heap.length then throw "describe: no such object"
        pure (Op.describe i (← parseTr (← o.getObjVal? "tr")))
      | k => do
        let kind ← match k with
          | "check" => pure OpKind.check
          | "require" => pure OpKind.require
          | "assert" => pure OpKind.assert
          | t => throw s!"unknown operation {t}"
        let i ← (← o.getObjVal? "obj").getNat?
        if i ≥ w.heap.length then throw "check: no such object"
        let a ← parseVArg (← o.getObjVal? "value")
        if let .ref l := a then
          if l ≥ w.store.length then throw "check: dangling reference"
        let hint := match o.getObjVal? "hint" with
          | .ok (.str s) => some s.toList
          | _ => none
        let quiet := match o.getObjVal? "quiet" with
          | .ok (.bool b) => b
          | _ => false
        pure (Op.check kind i hint a quiet)
    let p := step w op
    outs := outs.push (outJ p.2)
    w := p.1
  pure (Json.mkObj [("outs", Json.arr outs), ("log_length", Json.num w.log.length)])

/-- the handler of `drivers/C17.lean`: sequences of uses of matcher objects, else the requests of `MatcherJson.handle` -/
def handle (j : Json) : Except String Json := do
  if let .ok s := j.getObjVal? "seq" then return (← handleSeq s)
  MatcherJson.handle j

end LccModel.MatcherObjJson

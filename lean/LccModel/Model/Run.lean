/-
  M5 (with M2 and the run-time part of M6) — model of `lemoncheesecake/runner.py`:
  project syntax, the task graph built by `build_tasks`, fixture scheduling per scope
  (`FixtureRegistry.get_fixtures_scheduled_for_*`, `ScheduledFixtures`) and the behaviour of every task
  kind (`TestTask.run/skip`, `SuiteInitializationTask.run`, `SuiteTeardownTask.run`, `SuiteBeginning/
  EndingTask`, `TestSession{Setup,Teardown}Task`, `RunContext.run_setup_funcs / run_teardown_funcs /
  handle_exception`) as a *pure function* from (project, fixture-instance state, task, worker, decision)
  to the exact sequence of observable items the task produces: events fired through the session
  protocol (M3 is executed, so hold/flush/discard elision is reproduced) and user-code records.

  Why a task's output is a function of its inputs (no interleaving inside a task): a task only writes
  its own cursor, its own report location and fixture instances no concurrently running task writes
  (DESIGN App. B); the only asynchronous input is the keyboard-interrupt flag, modelled by `cut`:
  API acts with index ≥ cut raise `AbortTest` (what `_interruptible` does once `session.aborted`).
  Payload texts are not modelled (blank); step descriptions, locations, levels, outcomes, thread roles are.
  Core Lean only.
-/
import LccModel.Model.Session

namespace LccModel.Run
open LccModel.Report LccModel.Session

/-! ### Project syntax -/

inductive Scope | test | suite | session | preRun
deriving DecidableEq, Repr, Inhabited

def Scope.level : Scope → Nat
  | .test => 1 | .suite => 2 | .session => 3 | .preRun => 4

/-- how a unit of user code is left by an exception, as the runner and `lcc.Thread.run` classify it.
    `sysExit` / `baseExc`: a `BaseException` that is NOT an `Exception` — `sys.exit()` in user code (`SystemExit`),
    resp. any other one (`GeneratorExit`, a project's own `BaseException` subclass).  In a unit run by the task's
    own thread the runner catches `BaseException` (fix D38) and `handle_exception` treats both like any unexpected
    exception.  In the target of an `lcc.Thread` (`Thread.run`, as repaired by fix D40):
    `except Exception: log_error(..)` / `except SystemExit: raise` / `except BaseException: log_error(..); raise` /
    `finally: end_step()` — `sys.exit()` is the regular way of ending a thread from the inside: nothing is logged;
    every other class is an uncaught exception of the test: an error is logged (the location is failed); in all
    cases the `finally` clause ends the thread's step, and the test goes on (`ExcKind.caughtByThread`). -/
inductive ExcKind | exc | abortTest | abortSuite | abortAll | interrupted | sysExit | baseExc
deriving DecidableEq, Repr, Inhabited

/-- `lcc.Thread.run`: is what ended the thread's target logged as an error?  Everything but `SystemExit`. -/
def ExcKind.caughtByThread : ExcKind → Bool
  | .sysExit => false
  | _ => true

/-- does `Thread.run` log an error for this outcome of the thread's target? (`none` = the target returned) -/
def threadLogs : Option ExcKind → Bool
  | some k => k.caughtByThread
  | none => false

/-- The CLASS of an exception object raised by user code: a plain exception, one of the three `Abort*`
    classes of `lemoncheesecake.exceptions`, or a project-defined SUBCLASS of one of them
    (`class EnvironmentDown(lcc.AbortAllTests)`).  `RunContext.handle_exception` and `lcc.Thread.run`
    classify with `isinstance`, so a subclass instance behaves exactly like an instance of its base class:
    `ExcClass.kind` is that classification (tied to the code by the extracted table `handleExcTable`,
    `Generated/C08TablesCheck.lean`). -/
inductive ExcClass | exc | abortTest | abortSuite | abortAll | subAbortTest | subAbortSuite | subAbortAll
deriving DecidableEq, Repr, Inhabited

def ExcClass.kind : ExcClass → ExcKind
  | .exc => .exc
  | .abortTest | .subAbortTest => .abortTest
  | .abortSuite | .subAbortSuite => .abortSuite
  | .abortAll | .subAbortAll => .abortAll

/-- class name as the harness writes it (`kind`, and `sub` = "an instance of a project-defined subclass of it") -/
def ExcClass.ofName (k : String) (sub : Bool) : Option ExcClass :=
  match k, sub with
  | "exc", false => some .exc
  | "AbortTest", false => some .abortTest | "AbortSuite", false => some .abortSuite | "AbortAllTests", false => some .abortAll
  | "AbortTest", true => some .subAbortTest | "AbortSuite", true => some .subAbortSuite | "AbortAllTests", true => some .subAbortAll
  | _, _ => none

inductive Act
  | log (level : LogLevel) | check (ok : Bool) | step (d : String) | url | attach
  | raise (k : ExcKind) | gate | thread (script : List Act)
  /-- `with lcc.prepare_attachment(..) as path:` around further acts of the same thread (a nested block, a
      `save_attachment_*`, a step change, logs, an `lcc.Thread` started and joined inside, a raise) -/
  | attachBlock (script : List Act)
deriving Repr, Inhabited

abbrev Script := List Act

structure Fx where
  name : String          -- the name it is registered under
  func : String          -- the function (primary name): multi-name fixtures share it
  scope : Scope
  perThread : Bool
  params : List String
  gen : Bool
  setup : Script
  teardown : Script
deriving Repr, Inhabited

structure TestSpec where
  name : String
  rank : Nat
  disabled : Bool
  disabledReason : Bool      -- `disabled` is a string (a reason) rather than `True`
  deps : List Path
  fixtures : List String
  script : Script
deriving Repr, Inhabited

inductive SuiteSpec
  | mk (name : String) (rank : Nat) (disabled : Bool)
       (setupSuite : Option (List String × Script))
       (teardownSuite setupTest teardownTest : Option Script)
       (injected : List String) (tests : List TestSpec) (subs : List SuiteSpec)
deriving Repr, Inhabited

namespace SuiteSpec
def name : SuiteSpec → String | mk n .. => n
def rank : SuiteSpec → Nat | mk _ r .. => r
def disabled : SuiteSpec → Bool | mk _ _ d .. => d
def setupSuite : SuiteSpec → Option (List String × Script) | mk _ _ _ s .. => s
def teardownSuite : SuiteSpec → Option Script | mk _ _ _ _ t .. => t
def setupTest : SuiteSpec → Option Script | mk _ _ _ _ _ s .. => s
def teardownTest : SuiteSpec → Option Script | mk _ _ _ _ _ _ t .. => t
def injected : SuiteSpec → List String | mk _ _ _ _ _ _ _ i .. => i
def tests : SuiteSpec → List TestSpec | mk _ _ _ _ _ _ _ _ ts _ => ts
def subs : SuiteSpec → List SuiteSpec | mk _ _ _ _ _ _ _ _ _ ss => ss
end SuiteSpec

structure Proj where
  fixtures : List Fx
  suites : List SuiteSpec
  nbThreads : Nat
  forceDisabled : Bool
  stopOnFailure : Bool
deriving Repr, Inhabited

/-! ### Ordered sets (`helpers/orderedset.py`): insertion order, no duplicates -/

def osAdd (s : List String) (x : String) : List String := if s.contains x then s else s ++ [x]
def osUnion (s t : List String) : List String := t.foldl osAdd s

/-! ### Fixtures: dependencies and scheduling (fixture.py) -/

def findFx (P : Proj) (n : String) : Option Fx := P.fixtures.find? (fun f => f.name == n)

/-- `get_fixture_dependencies(name)`: dependencies first, each once (cycle/unknown checks are C14's;
    here the registry is valid and `fuel` = number of fixtures suffices). -/
def fxDeps (P : Proj) : Nat → String → List String
  | 0, _ => []
  | fuel + 1, n =>
    match findFx P n with
    | none => []
    | some f =>
      let ps := f.params.filter (· != "fixture_name")
      let deps := ps.foldl (fun acc p => osUnion acc (fxDeps P fuel p)) []
      osUnion deps ps

/-- flattened view of a suite with the inherited disabled flag (`_is_node_disabled`) -/
structure SuiteView where
  path : Path
  spec : SuiteSpec
  inhDisabled : Bool          -- the suite or an ancestor is disabled
deriving Repr, Inhabited

def testEnabled (sv : SuiteView) (t : TestSpec) : Bool := !(t.disabled || sv.inhDisabled)
def hasEnabledTests (sv : SuiteView) : Bool := sv.spec.tests.any (testEnabled sv)

/-- `Suite.get_fixtures()`: injected names, then the parameters of `setup_suite` -/
def suiteOwnFixtures (s : SuiteSpec) : List String :=
  osUnion (osUnion [] s.injected) (match s.setupSuite with | some (ps, _) => ps | none => [])

/-- `FixtureRegistry.get_fixtures_used_in_suite(suite, include_disabled)` -/
def usedInSuite (sv : SuiteView) (force : Bool) : List String :=
  if !hasEnabledTests sv && !force then []
  else sv.spec.tests.foldl (fun acc t => if testEnabled sv t || force then osUnion acc t.fixtures else acc)
        (suiteOwnFixtures sv.spec)

mutual
/-- all suites, depth first in declaration order (`flatten_suites`) -/
def flattenSuite (parent : Path) (inh : Bool) : SuiteSpec → List SuiteView
  | .mk n r d ss ts st tt inj tests subs =>
    let p := parent ++ [n]
    let sv : SuiteView := { path := p, spec := .mk n r d ss ts st tt inj tests subs, inhDisabled := inh || d }
    sv :: flattenSuites p (inh || d) subs
def flattenSuites (parent : Path) (inh : Bool) : List SuiteSpec → List SuiteView
  | [] => []
  | s :: rest => flattenSuite parent inh s ++ flattenSuites parent inh rest
end

def allSuites (P : Proj) : List SuiteView := flattenSuites [] false P.suites

/-- `get_fixtures_used_in_suite_recursively` over all top-level suites -/
def usedOverall (P : Proj) : List String :=
  (allSuites P).foldl (fun acc sv => osUnion acc (usedInSuite sv P.forceDisabled)) []

/-- `get_scheduled_fixtures_for_scope(direct, scope)`: names in dependency order -/
def scheduledFor (P : Proj) (direct : List String) (scope : Scope) : List String :=
  let all := direct.foldl (fun acc f => osAdd (osUnion acc (fxDeps P P.fixtures.length f)) f) []
  all.filter (fun n => match findFx P n with | some f => f.scope == scope | none => false)

def preRunFixtures (P : Proj) : List String := scheduledFor P (usedOverall P) .preRun
def sessionFixtures (P : Proj) : List String := scheduledFor P (usedOverall P) .session
def suiteFixtures (P : Proj) (sv : SuiteView) : List String :=
  scheduledFor P (usedInSuite sv P.forceDisabled) .suite
def testFixtures (P : Proj) (t : TestSpec) : List String := scheduledFor P t.fixtures .test

/-! ### The task graph (`build_tasks`) -/

inductive TaskKind | sessSetup | sessTeardown | begin | init | test | teardown | end_
deriving DecidableEq, Repr, Inhabited

structure TaskId where
  kind : TaskKind
  path : Path
deriving DecidableEq, Repr, Inhabited

structure TaskSpec where
  id : TaskId
  succ : List TaskId
  compl : List TaskId
deriving Repr, Inhabited

/-- does `build_suite_initialization_task` create a task? -/
def hasInit (P : Proj) (sv : SuiteView) : Bool :=
  (hasEnabledTests sv || P.forceDisabled) &&
  (!(suiteFixtures P sv).isEmpty || !sv.spec.injected.isEmpty ||
    sv.spec.setupSuite.isSome || sv.spec.teardownSuite.isSome)

def hasSessSetup (P : Proj) : Bool := !(sessionFixtures P).isEmpty

mutual
/-- `build_suite_tasks` -/
def suiteTasks (P : Proj) (parent : Path) (inh : Bool) (parentBegin : Option TaskId) : SuiteSpec → List TaskSpec
  | .mk n r d ss ts st tt inj tests subs =>
    let p := parent ++ [n]
    let sv : SuiteView := { path := p, spec := .mk n r d ss ts st tt inj tests subs, inhDisabled := inh || d }
    let beginId : TaskId := ⟨.begin, p⟩
    let beginT : TaskSpec :=
      { id := beginId
        succ := (if hasSessSetup P then [⟨.sessSetup, []⟩] else []) ++ parentBegin.toList
        compl := [] }
    let initId : TaskId := ⟨.init, p⟩
    let init? := hasInit P sv
    let initT : List TaskSpec := if init? then [{ id := initId, succ := [beginId], compl := [] }] else []
    let testDep := if init? then initId else beginId
    let testTs : List TaskSpec := tests.map (fun t =>
      { id := ⟨.test, p ++ [t.name]⟩, succ := testDep :: t.deps.map (fun dp => ⟨.test, dp⟩), compl := [] })
    let testIds := testTs.map (·.id)
    let tdT : List TaskSpec := if init? then [{ id := ⟨.teardown, p⟩, succ := [], compl := initId :: testIds }] else []
    let subTs := suitesTasks P p (inh || d) (some beginId) subs
    let subEnds : List TaskId := subs.map (fun s => ⟨.end_, p ++ [s.name]⟩)
    let endT : TaskSpec :=
      { id := ⟨.end_, p⟩, succ := beginId :: testIds ++ (if init? then [⟨.teardown, p⟩] else []) ++ subEnds, compl := [] }
    [beginT] ++ initT ++ testTs ++ tdT ++ subTs ++ [endT]
def suitesTasks (P : Proj) (parent : Path) (inh : Bool) (parentBegin : Option TaskId) : List SuiteSpec → List TaskSpec
  | [] => []
  | s :: rest => suiteTasks P parent inh parentBegin s ++ suitesTasks P parent inh parentBegin rest
end

/-- `build_tasks` -/
def buildTasks (P : Proj) : List TaskSpec :=
  let ss := hasSessSetup P
  let suiteTs := suitesTasks P [] false none P.suites
  let topEnds : List TaskId := P.suites.map (fun s => ⟨.end_, [s.name]⟩)
  (if ss then [{ id := ⟨.sessSetup, []⟩, succ := [], compl := [] }] else []) ++ suiteTs ++
  (if ss then [{ id := ⟨.sessTeardown, []⟩, succ := [], compl := topEnds }] else [])

/-! ### Observable items -/

inductive UnitId
  | fx (func : String) (teardown : Bool)
  | hook (suite : Path) (hook : String) (test : Option Path)
  | body (test : Path)
  | th (parent : UnitId) (i : Nat)
  | blk (parent : UnitId) (i : Nat)       -- the body of the `with prepare_attachment` block that is act `i` of `parent`
deriving DecidableEq, Repr, Inhabited

inductive Item
  /-- an event fired by the task; thread ids inside it are *roles*: 0 = the pool worker, k ≥ 1 = the
      k-th `lcc.Thread` the task started -/
  | ev (e : Event)
  | user (role : Nat) (u : UnitId) (what : String)
deriving DecidableEq, Repr, Inhabited

/-! ### Fixture instances -/

inductive InstKey | preRun | session | suite (p : Path) | test (p : Path)
deriving DecidableEq, Repr, Inhabited

/-- what the instances hold: which fixtures have a result (`_results`), and for per-thread fixtures which
    workers have created their object, in creation order (`ThreadedFactory._objects`) -/
structure Insts where
  results : List (InstKey × String)
  ptObjects : List (InstKey × String × Nat)      -- (instance, fixture, worker), oldest first
deriving Repr, Inhabited

def Insts.empty : Insts := { results := [], ptObjects := [] }
def Insts.has (i : Insts) (k : InstKey) (n : String) : Bool := i.results.contains (k, n)
def Insts.add (i : Insts) (k : InstKey) (n : String) : Insts :=
  if i.has k n then i else { i with results := i.results ++ [(k, n)] }
def Insts.del (i : Insts) (k : InstKey) (n : String) : Insts :=
  { i with results := i.results.filter (· != (k, n)), ptObjects := i.ptObjects.filter (fun x => !(x.1 == k && x.2.1 == n)) }

/-- a teardown function kept by `run_setup_funcs` -/
inductive Td
  | fixture (inst : InstKey) (name : String)
  | teardownSuite (suite : Path)
  | teardownTest (suite test : Path)
  | none_                                  -- a `None` teardown (e.g. of the injection pair)
deriving DecidableEq, Repr, Inhabited

/-! ### The interpreter -/

structure TS where
  sess : Session.St
  out : Array Item
  acts : Nat                  -- API acts performed so far by this task
  cut : Option Nat            -- keyboard interrupt: API acts with index ≥ cut raise AbortTest
  nextChild : Nat
  insts : Insts
  abortedSuites : List (Option Path)    -- `_aborted_suites.add(suite)` (None when called without suite)
  abortAll : Bool
  err : Option String         -- the model reached a state the real code would crash in (assertion/lookup)

instance : Inhabited TS :=
  ⟨{ sess := Session.St.init, out := #[], acts := 0, cut := none, nextChild := 1, insts := Insts.empty,
     abortedSuites := [], abortAll := false, err := none }⟩

abbrev M := StateM TS

def emitUser (role : Nat) (u : UnitId) (what : String) : M Unit :=
  modify fun ts => { ts with out := ts.out.push (.user role u what) }

def modelErr (msg : String) : M Unit :=
  modify fun ts => if ts.err.isSome then ts else { ts with err := some msg }

/-- a `Session` method call by thread `role`; newly fired events become items -/
def sop (role : Nat) (op : Session.Op) : M Unit :=
  modify fun ts =>
    match Session.step ts.sess role op with
    | .ok s' =>
      let new := s'.fired.drop ts.sess.fired.length
      { ts with sess := s', out := ts.out ++ (new.map Item.ev).toArray }
    | .error _ => if ts.err.isSome then ts else { ts with err := some "session protocol error" }

/-- a public-API call (`lcc.log_info`, `set_step`, …): `_interruptible` first -/
def apiAct (role : Nat) (op : Session.Op) : M (Option ExcKind) := do
  let ts ← get
  let i := ts.acts
  set { ts with acts := i + 1 }
  match ts.cut with
  | some c => if c ≤ i then return some .interrupted
  | none => pure ()
  sop role op
  return none

def isOk (loc : Loc) : M Bool := do return Session.isSuccessful (← get).sess loc

mutual
/-- run the acts of a script from index `i`; `none` = completed, `some k` = raised -/
def execActs (fuel : Nat) (role : Nat) (u : UnitId) (i : Nat) : List Act → M (Option ExcKind)
  | [] => do emitUser role u "exit"; return none
  | a :: rest =>
    match fuel with
    | 0 => do modelErr "fuel"; return none
    | fuel + 1 => do
      emitUser role u s!"act:{i}"
      let r ← (match a with
        | .log l => apiAct role (.log l "")
        | .check ok => apiAct role (.check "" ok none)
        | .step d => apiAct role (.setStep d)
        | .url => apiAct role (.url "" "")
        | .attach => apiAct role (.attach "" "" false)
        | .raise k => pure (some k)
        | .gate => pure none
        | .thread inner => do
          let c := (← get).nextChild
          modify fun ts => { ts with nextChild := c + 1 }
          sop role (.threadCreate c)
          sop c .threadRun
          let r ← execScript fuel c (.th u i) inner
          if threadLogs r then
            -- `Thread.run`: `except Exception: self._session.log_error(...)` (the session method: no interrupt check),
            -- the same for a BaseException other than SystemExit (fix D40); SystemExit passes through unlogged
            sop c (.log .error "")
          -- `finally: self._session.end_step()`: whatever ended the target — return, Exception, BaseException
          sop c .threadEnd
          pure none
        | .attachBlock inner => do
          -- `lcc.prepare_attachment(..)` is a public-API call (`_interruptible`); entering the block takes the
          -- name under the lock and RELEASES the lock before the body runs; leaving it normally flushes and fires
          -- the attachment event (session method: no interrupt check); an exception leaves it without any event
          match ← apiAct role (.attachBegin "" "" false) with
          | some k => pure (some k)
          | none =>
            match ← execScript fuel role (.blk u i) inner with
            | some k => do sop role .attachAbort; pure (some k)
            | none => do sop role .attachEnd; pure none)
      match r with
      | some k =>
        emitUser role u (match k with
          | .exc => "raise:exc" | .abortTest => "raise:AbortTest" | .abortSuite => "raise:AbortSuite"
          | .abortAll => "raise:AbortAllTests" | .interrupted => "raise:interrupted" | .sysExit => "raise:exc" | .baseExc => "raise:exc")
        return some k
      | none => execActs fuel role u (i + 1) rest
/-- a unit of user code -/
def execScript (fuel : Nat) (role : Nat) (u : UnitId) (sc : Script) : M (Option ExcKind) :=
  match fuel with
  | 0 => do modelErr "fuel"; return none
  | fuel + 1 => do
    emitUser role u "enter"
    execActs fuel role u 0 sc
end

def FUEL : Nat := 100000

def runUnit (u : UnitId) (sc : Script) : M (Option ExcKind) := execScript FUEL 0 u sc

/-- `RunContext.handle_exception(excp, suite)`: every case logs an error through the session object
    (not the public API: no interrupt check) -/
def handleException (k : ExcKind) (suite : Option Path) (withSuite : Bool) : M Unit := do
  sop 0 (.log .error "")
  match k with
  | .abortSuite => modify fun ts => { ts with abortedSuites := ts.abortedSuites ++ [if withSuite then suite else none] }
  | .abortAll => modify fun ts => { ts with abortAll := true }
  | _ => pure ()

/-- the chain of instances a lookup walks: own instance, then parents -/
def instChain : InstKey → Path → List InstKey
  | .test p, suite => [.test p, .suite suite, .session, .preRun]
  | .suite p, _ => [.suite p, .session, .preRun]
  | .session, _ => [.session, .preRun]
  | .preRun, _ => [.preRun]

/-- which fixtures an instance schedules -/
def instFixtures (P : Proj) (svs : List SuiteView) : InstKey → List String
  | .preRun => preRunFixtures P
  | .session => sessionFixtures P
  | .suite p => match svs.find? (fun sv => sv.path == p) with
    | some sv => suiteFixtures P sv
    | none => []
  | .test p => match svs.find? (fun sv => sv.path == p.dropLast) with
    | some sv => match sv.spec.tests.find? (fun t => t.name == p.getLast?.getD "") with
      | some t => testFixtures P t
      | none => []
    | none => []

/-- `ScheduledFixtures.get_fixture_result(name)` as seen from instance `k` (suite of the consumer: `suite`),
    executed by worker `w`.  A per-thread fixture creates its object lazily here — user code. -/
def getFixtureResult (P : Proj) (svs : List SuiteView) (w : Nat) (k : InstKey) (suite : Path) (name : String) :
    M (Option ExcKind) := do
  let chain := instChain k suite
  match chain.find? (fun ik => (instFixtures P svs ik).contains name) with
  | none => do modelErr s!"LookupError: fixture {name}"; return none
  | some ik =>
    let ts ← get
    if !ts.insts.has ik name then do modelErr s!"AssertionError: fixture {name} not executed"; return none
    else match findFx P name with
      | none => do modelErr "unknown fixture"; return none
      | some f =>
        if f.perThread then
          if ts.insts.ptObjects.contains (ik, name, w) then return none
          else do
            -- `setup_object` → `_build_fixture_result_from_func`: the fixture function runs now
            let r ← runUnit (.fx f.func false) f.setup
            if r.isNone then
              modify fun ts => { ts with insts := { ts.insts with ptObjects := ts.insts.ptObjects ++ [(ik, name, w)] } }
            return r
        else return none

def lookupAll (P : Proj) (svs : List SuiteView) (w : Nat) (k : InstKey) (suite : Path) : List String → M (Option ExcKind)
  | [] => return none
  | n :: rest => do
    match ← getFixtureResult P svs w k suite n with
    | some e => return some e
    | none => lookupAll P svs w k suite rest

/-- `ScheduledFixtures._setup_fixture(name)` in instance `k` -/
def setupFixture (P : Proj) (svs : List SuiteView) (w : Nat) (k : InstKey) (suite : Path) (name : String) :
    M (Option ExcKind) := do
  match findFx P name with
  | none => do modelErr "unknown fixture"; return none
  | some f =>
    if (← get).insts.has k name then modelErr s!"AssertionError: fixture {name} already executed"
    match ← lookupAll P svs w k suite (f.params.filter (· != "fixture_name")) with
    | some e => return some e
    | none =>
      if f.perThread then
        modify fun ts => { ts with insts := ts.insts.add k name }
        return none
      else
        let r ← runUnit (.fx f.func false) f.setup
        if r.isNone then modify fun ts => { ts with insts := ts.insts.add k name }
        return r

/-- `teardown_factory`: every created object of a per-thread fixture, oldest first; a failing teardown does
    not stop the loop, the first exception is re-raised once all objects have been torn down -/
def teardownObjects (f : Fx) (first : Option ExcKind) : List (InstKey × String × Nat) → M (Option ExcKind)
  | [] => return first
  | _ :: rest => do
    if f.gen then
      match ← runUnit (.fx f.func true) f.teardown with
      | some e => teardownObjects f (if first.isSome then first else some e) rest
      | none => teardownObjects f first rest
    else teardownObjects f first rest

/-- `ScheduledFixtures._teardown_fixture(name)` -/
def teardownFixture (P : Proj) (k : InstKey) (name : String) : M (Option ExcKind) := do
  match findFx P name with
  | none => do modelErr "unknown fixture"; return none
  | some f =>
    if !(← get).insts.has k name then do modelErr s!"AssertionError: fixture {name} not executed"; return none
    else
      let r ← (if f.perThread then do
          let objs := (← get).insts.ptObjects.filter (fun x => x.1 == k && x.2.1 == name)
          teardownObjects f none objs
        else if f.gen then runUnit (.fx f.func true) f.teardown
        else pure none)
      if r.isNone then modify fun ts => { ts with insts := ts.insts.del k name }
      return r

/-- one (setup, teardown) pair of `run_setup_funcs` -/
inductive SetupFn
  | fixture (inst : InstKey) (name : String)
  | inject (names : List String)
  | setupSuite (params : List String) (script : Script)
  | setupTest (script : Script) (test : Path)
deriving Repr, Inhabited

def runSetupFn (P : Proj) (svs : List SuiteView) (w : Nat) (suite : Path) : SetupFn → M (Option ExcKind)
  | .fixture k n => setupFixture P svs w k suite n
  | .inject names => lookupAll P svs w (.suite suite) suite names
  | .setupSuite params sc => do
    match ← lookupAll P svs w (.suite suite) suite params with
    | some e => return some e
    | none => runUnit (.hook suite "setup_suite" none) sc
  | .setupTest sc t => runUnit (.hook suite "setup_test" (some t)) sc

/-- `RunContext.run_setup_funcs(funcs, location)` -/
def runSetupFuncs (P : Proj) (svs : List SuiteView) (w : Nat) (suite : Path) (loc : Loc) (hs : Option Path) :
    List (Option SetupFn × Td) → List Td → M (List Td)
  | [], acc => return acc
  | (none, td) :: rest, acc => runSetupFuncs P svs w suite loc hs rest (acc ++ [td])
  | (some fn, td) :: rest, acc => do
    match ← runSetupFn P svs w suite fn with
    | some e => do handleException e hs hs.isSome; return acc
    | none =>
      if !(← isOk loc) then return acc
      else runSetupFuncs P svs w suite loc hs rest (acc ++ [td])

def runTd (P : Proj) (svs : List SuiteView) (loc : Loc) : Td → M (Option ExcKind)
  | .fixture k n => teardownFixture P k n
  | .teardownSuite s => match svs.find? (fun sv => sv.path == s) with
    | some sv => match sv.spec.teardownSuite with
      | some sc => runUnit (.hook s "teardown_suite" none) sc
      | none => pure none
    | none => pure none
  | .teardownTest s t => match svs.find? (fun sv => sv.path == s) with
    | some sv => match sv.spec.teardownTest with
      | some sc => do let _ ← isOk loc; runUnit (.hook s "teardown_test" (some t)) sc
      | none => pure none
    | none => pure none
  | .none_ => pure none

/-- one iteration of the loop of `run_teardown_funcs`: `None` is skipped, an exception is handled (and the
    loop goes on) -/
def tdStep (P : Proj) (svs : List SuiteView) (loc : Loc) (hs : Option Path) (td : Td) : M Unit := do
  if td != .none_ then
    match ← runTd P svs loc td with
    | some e => handleException e hs hs.isSome
    | none => pure ()

def runTdList (P : Proj) (svs : List SuiteView) (loc : Loc) (hs : Option Path) : List Td → M Unit
  | [] => pure ()
  | td :: rest => do tdStep P svs loc hs td; runTdList P svs loc hs rest

/-- `RunContext.run_teardown_funcs(teardown_funcs)`: reversed, `None`s skipped, exceptions survive -/
def runTeardownFuncs (P : Proj) (svs : List SuiteView) (loc : Loc) (hs : Option Path) (tds : List Td) : M Unit :=
  runTdList P svs loc hs tds.reverse

def mdOf (name : String) (rank : Nat) : Meta :=
  { name := name, description := "", tags := [], properties := [], links := [], rank := rank }

/-- result class of a task (`TaskResult*`) -/
inductive ResClass | success | failure | skipped | exception
deriving DecidableEq, Repr, Inhabited

/-- what a task leaves behind for other tasks -/
structure Effects where
  insts : Insts
  kept : List Td                       -- `teardown_funcs` of a setup task
  abortedSuites : List (Option Path)
  abortAll : Bool
  failed : Bool                        -- some location was marked failed (`session.is_successful()` turns false)
deriving Repr, Inhabited

structure TaskOut where
  items : List Item
  res : ResClass
  eff : Effects
  err : Option String
deriving Repr, Inhabited

def phaseProgram (P : Proj) (svs : List SuiteView) (w : Nat) (suite : Path) (loc : Loc)
    (startOp endOp : Session.Op) (stepName : String) (pairs : List (Option SetupFn × Td)) : M (List Td × Bool) := do
  if pairs.any (fun p => p.1.isSome) then
    sop 0 startOp
    sop 0 (.setStep stepName)
    let kept ← runSetupFuncs P svs w suite loc none pairs []
    sop 0 endOp
    return (kept, !(← isOk loc))
  else
    return (pairs.filterMap (fun p => if p.2 == .none_ then none else some p.2), false)

def teardownProgram (P : Proj) (svs : List SuiteView) (loc : Loc)
    (startOp endOp : Session.Op) (stepName : String) (kept : List Td) : M Unit := do
  if kept.any (· != .none_) then
    sop 0 startOp
    sop 0 (.setStep stepName)
    runTeardownFuncs P svs loc none kept
    sop 0 endOp

/-! #### The test task (`TestTask.run` / `TestTask.skip`), split into its phases -/

def testDisabledNow (P : Proj) (sv : SuiteView) (ts : TestSpec) : Bool :=
  (ts.disabled || sv.inhDisabled) && !P.forceDisabled

def disabledReasonOf (ts : TestSpec) : Option String := if ts.disabledReason && ts.disabled then some "" else none

/-- the (setup, teardown) pairs of a test: the suite's `setup_test`/`teardown_test` hooks, then the test-scoped fixtures -/
def testPairs (P : Proj) (sv : SuiteView) (ts : TestSpec) (path : Path) : List (Option SetupFn × Td) :=
  (sv.spec.setupTest.map (fun sc => SetupFn.setupTest sc path),
   if sv.spec.teardownTest.isSome then Td.teardownTest path.dropLast path else Td.none_) ::
  (testFixtures P ts).map (fun n => (some (SetupFn.fixture (.test path) n), Td.fixture (.test path) n))

def testSetup (P : Proj) (svs : List SuiteView) (w : Nat) (path : Path) (sv : SuiteView) (ts : TestSpec) : M (List Td) :=
  let pairs := testPairs P sv ts path
  if pairs.any (fun p => p.1.isSome) then runSetupFuncs P svs w path.dropLast (.test path) (some path.dropLast) pairs []
  else pure (pairs.filterMap (fun p => if p.2 == .none_ then none else some p.2))

/-- `_prepare_test_args` (a per-thread fixture is evaluated at its first use by the thread: here) and
    the body are guarded together; the body runs only if the test is still successful -/
def testBody (P : Proj) (svs : List SuiteView) (w : Nat) (path : Path) (ts : TestSpec) : M Unit := do
  if (← isOk (.test path)) then
    match ← lookupAll P svs w (.test path) path.dropLast ts.fixtures with
    | some e => handleException e (some path.dropLast) true
    | none =>
      if (← isOk (.test path)) then
        sop 0 (.setStep ("test " ++ ts.name))   -- set_step(test.description); the harness names it "test <name>"
        match ← runUnit (.body path) ts.script with
        | some e => handleException e (some path.dropLast) true
        | none => pure ()

def testTeardown (P : Proj) (svs : List SuiteView) (path : Path) (kept : List Td) : M Unit := do
  if kept.any (· != .none_) then
    sop 0 (.setStep "Teardown test")
    runTeardownFuncs P svs (.test path) (some path.dropLast) kept

/-- `TestTask.run` of an enabled test -/
def testRun (P : Proj) (svs : List SuiteView) (w : Nat) (path : Path) (sv : SuiteView) (ts : TestSpec) :
    M (ResClass × List Td) := do
  sop 0 (.startTest path (mdOf ts.name ts.rank))
  sop 0 (.setStep "Setup test")
  let kept ← testSetup P svs w path sv ts
  testBody P svs w path ts
  testTeardown P svs path kept
  sop 0 (.endTest path)
  return (if (← isOk (.test path)) then .success else .failure, [])

/-- `TestTask.skip` (a disabled test is reported as disabled, not skipped) -/
def testSkip (P : Proj) (path : Path) (sv : SuiteView) (ts : TestSpec) (reason : Bool) : M (ResClass × List Td) := do
  if testDisabledNow P sv ts then
    sop 0 (.disableTest path (mdOf ts.name ts.rank) (disabledReasonOf ts))
  else
    sop 0 (.skipTest path (mdOf ts.name ts.rank) (if reason then some "" else none))
  return (.skipped, [])

def testTask (P : Proj) (svs : List SuiteView) (w : Nat) (path : Path) (run reason : Bool) (sv : SuiteView)
    (ts : TestSpec) : M (ResClass × List Td) :=
  if !run then testSkip P path sv ts reason
  else if testDisabledNow P sv ts then do
    sop 0 (.disableTest path (mdOf ts.name ts.rank) (disabledReasonOf ts))
    return (.success, [])
  else testRun P svs w path sv ts

def sessSetupPairs (P : Proj) : List (Option SetupFn × Td) :=
  (sessionFixtures P).map (fun n => (some (SetupFn.fixture .session n), Td.fixture .session n))

def initPairs (P : Proj) (sv : SuiteView) (path : Path) : List (Option SetupFn × Td) :=
  let fxPairs := (suiteFixtures P sv).map (fun n => (some (SetupFn.fixture (.suite path) n), Td.fixture (.suite path) n))
  let injPairs := if sv.spec.injected.isEmpty then [] else [(some (SetupFn.inject sv.spec.injected), Td.none_)]
  let hookPairs :=
    if sv.spec.setupSuite.isSome || sv.spec.teardownSuite.isSome then
      [((sv.spec.setupSuite.map (fun (ps, sc) => SetupFn.setupSuite ps sc)),
        (if sv.spec.teardownSuite.isSome then Td.teardownSuite path else Td.none_))]
    else []
  fxPairs ++ injPairs ++ hookPairs

/-- the whole behaviour of one task.  `run = true`: `task.run(context)`, `false`: `task.skip(context, reason)`;
    `reason`: whether a skip reason string was given; `kept`: the teardown list of the matching setup task. -/
def taskProgram (P : Proj) (svs : List SuiteView) (w : Nat) (t : TaskId) (run : Bool) (reason : Bool)
    (kept : List Td) : M (ResClass × List Td) := do
  match t.kind with
  | .begin =>
    match svs.find? (fun sv => sv.path == t.path) with
    | some sv => do sop 0 (.startSuite t.path (mdOf sv.spec.name sv.spec.rank)); return (if run then .success else .skipped, [])
    | none => do modelErr "unknown suite"; return (.exception, [])
  | .end_ => do sop 0 (.endSuite t.path); return (if run then .success else .skipped, [])
  | .sessSetup =>
    if !run then return (.skipped, []) else do
    let (kept, failed) ← phaseProgram P svs w [] .sessionSetup .startSessionSetup .endSessionSetup "Setup test session"
      (sessSetupPairs P)
    return (if failed then .failure else .success, kept)
  | .sessTeardown => do
    teardownProgram P svs .sessionTeardown .startSessionTeardown .endSessionTeardown "Teardown test session" kept
    return (if run then .success else .skipped, [])
  | .init =>
    if !run then return (.skipped, []) else
    match svs.find? (fun sv => sv.path == t.path) with
    | none => do modelErr "unknown suite"; return (.exception, [])
    | some sv => do
      let (kept, failed) ← phaseProgram P svs w t.path (.suiteSetup t.path) (.startSuiteSetup t.path) (.endSuiteSetup t.path)
        "Setup suite" (initPairs P sv t.path)
      return (if failed then .failure else .success, kept)
  | .teardown => do
    teardownProgram P svs (.suiteTeardown t.path) (.startSuiteTeardown t.path) (.endSuiteTeardown t.path) "Teardown suite" kept
    return (if run then .success else .skipped, [])
  | .test =>
    match svs.find? (fun sv => sv.path == t.path.dropLast) with
    | none => do modelErr "unknown suite"; return (.exception, [])
    | some sv =>
      match sv.spec.tests.find? (fun x => x.name == t.path.getLast?.getD "") with
      | none => do modelErr "unknown test"; return (.exception, [])
      | some ts => testTask P svs w t.path run reason sv ts

/-- run one task from scratch on worker `w` -/
def runTask (P : Proj) (insts : Insts) (w : Nat) (t : TaskId) (run : Bool) (reason : Bool) (kept : List Td)
    (cut : Option Nat) : TaskOut :=
  let svs := allSuites P
  let ts0 : TS := { sess := Session.St.init, out := #[], acts := 0, cut := cut, nextChild := 1, insts := insts,
                    abortedSuites := [], abortAll := false, err := none }
  let ((res, kept'), ts) := (taskProgram P svs w t run reason kept).run ts0
  { items := ts.out.toList, res := res,
    eff := { insts := ts.insts, kept := kept', abortedSuites := ts.abortedSuites, abortAll := ts.abortAll,
             failed := !ts.sess.failures.isEmpty },
    err := ts.err }

end LccModel.Run

/-
  M10 (text of the JSON file) — `json.dumps(serialize_report_into_json(report)[, indent=4])` as a list of code points.

  Every string of the report — values AND keys (`properties` is written as a JSON object whose keys are the property
  names) — goes through the `ensure_ascii` escaping `JsonFile.jsonEscape`; everything else is punctuation, blanks,
  the literals `null` / `true` / `false`, digits, and the ISO-8601 text of a time.  How numbers and times are spelled is a
  parameter (`Atoms`: digits / calendar arithmetic are not modelled) that only has to be ASCII.

  Used for one fact (`Lemmas/JsonRender.lean`): the whole text is ASCII, so `fh.write(text)` cannot raise
  `UnicodeEncodeError` under any locale encoding — a save of the JSON backend never fails on account of the report's text.
  Core Lean only.
-/
import LccModel.Model.Serial
import LccModel.Model.JsonFile

namespace LccModel.JsonFile
open LccModel.Serial

/-- the spelling of numbers and times -/
structure Atoms where
  num : Nat → List Nat
  time : Nat → List Nat           -- the text between the quotes
  numAscii : ∀ n, ∀ x ∈ num n, x < 128
  timeAscii : ∀ t, ∀ x ∈ time t, x < 128

def codes (s : String) : List Nat := s.toList.map Char.toNat

def quoted (s : String) : List Nat := 34 :: (jsonEscape (codes s) ++ [34])

/-- line break + indentation of `json.dumps(indent=4)` at nesting depth `d`; nothing in compact form -/
def nl (pretty : Bool) (d : Nat) : List Nat := if pretty then 10 :: List.replicate (4 * d) 32 else []

/-- item separator: `", "` in compact form, `","` + line break when indenting -/
def sep (pretty : Bool) (d : Nat) : List Nat := if pretty then 44 :: nl pretty d else [44, 32]

mutual
def render (a : Atoms) (pretty : Bool) (d : Nat) : JVal → List Nat
  | .null => [110, 117, 108, 108]
  | .bool true => [116, 114, 117, 101]
  | .bool false => [102, 97, 108, 115, 101]
  | .num n => a.num n
  | .ver major minor => a.num major ++ 46 :: a.num minor
  | .time t => 34 :: (a.time t ++ [34])
  | .str s => quoted s
  | .arr [] => [91, 93]
  | .arr (x :: xs) => 91 :: (nl pretty (d + 1) ++ renderItems a pretty (d + 1) (x :: xs) ++ nl pretty d ++ [93])
  | .obj [] => [123, 125]
  | .obj (kv :: kvs) => 123 :: (nl pretty (d + 1) ++ renderPairs a pretty (d + 1) (kv :: kvs) ++ nl pretty d ++ [125])
def renderItems (a : Atoms) (pretty : Bool) (d : Nat) : List JVal → List Nat
  | [] => []
  | [x] => render a pretty d x
  | x :: y :: rest => render a pretty d x ++ sep pretty d ++ renderItems a pretty d (y :: rest)
def renderPairs (a : Atoms) (pretty : Bool) (d : Nat) : List (String × JVal) → List Nat
  | [] => []
  | [(k, v)] => quoted k ++ 58 :: 32 :: render a pretty d v
  | (k, v) :: kv :: rest => quoted k ++ 58 :: 32 :: render a pretty d v ++ sep pretty d ++ renderPairs a pretty d (kv :: rest)
end

/-- the text `save_report_into_file` hands to `fh.write` (in two calls when the prefix is written) -/
def fileText (a : Atoms) (o : Opts) (v : JVal) : List Nat :=
  (if o.jsCompat then jsPrefix.map Char.toNat else []) ++ render a o.pretty 0 v

end LccModel.JsonFile

/-
  C10 — what user code does to the report OUTSIDE the event stream while the run is going on.

  `lcc.add_report_info(name, value)` (session.py) calls `Report.add_info` directly: no event is fired, the
  `[name, value]` pair is APPENDED to `report.info` (`self.info.append([name, value])`) — also when the name
  is already there.  `Project.build_report_info()` goes through the same method before the first event.
  The report information is part of what every intermediate save writes, so the prefix relation of C10
  must speak about it: the information lines a file shows are the first lines of the final report's.

  An `Act` is one thing that happens to the report: an event handled by the writer (and then by the file
  session), or an `add_info` call between two events.  Core Lean only.
-/
import LccModel.Model.Saving

namespace LccModel.Saving
open LccModel.Report LccModel.Writer

inductive Act
  | ev (e : Event)
  | addInfo (name value : String)
deriving DecidableEq, Repr, Inhabited

/-- `Report.add_info`: `self.info.append([name, value])` -/
def addInfo (r : Report) (name value : String) : Report := { r with info := r.info ++ [(name, value)] }

/-- what a "no duplicated information lines" variant would do (NOT the code): the entry registered under the
    name is rewritten in place -/
def updateInfo (r : Report) (name value : String) : Report :=
  if r.info.any (fun p => p.1 == name) then
    { r with info := r.info.map (fun p => if p.1 == name then (p.1, value) else p) }
  else addInfo r name value

def stripInfo (r : Report) : Report := { r with info := [] }

/-- The report-level relation when information lines can be published during the run: everything `prefixB`
    says about the rest of the report, and the information lines of `a` are the FIRST lines of `b`'s, in order,
    unchanged (a report that shows the session as ended has exactly the same lines). -/
def prefixAB (a b : Report) : Bool :=
  (if a.endTime.isSome then decide (a.info = b.info) else a.info.isPrefixOf b.info) &&
    prefixB (stripInfo a) (stripInfo b)

def PrefixA (a b : Report) : Prop := prefixAB a b = true

instance (a b : Report) : Decidable (PrefixA a b) := by unfold PrefixA; infer_instance

/-- one act on the writer's state -/
def actApply (w : WriterState) : Act → Except WriterErr WriterState
  | .ev e => Writer.apply w e
  | .addInfo n v => .ok { w with report := addInfo w.report n v }

def actRun (w : WriterState) : List Act → Except WriterErr WriterState
  | [] => .ok w
  | a :: as =>
    match actApply w a with
    | .ok w' => actRun w' as
    | .error err => .error err

/-- every event targets nothing finished (`safe`), and information is only published while the session is
    running -/
def safeActs (w : WriterState) : List Act → Bool
  | [] => true
  | .ev e :: as =>
    safe w e && (match Writer.apply w e with
      | .ok w' => safeActs w' as
      | .error _ => true)
  | .addInfo n v :: as => w.report.endTime.isNone && safeActs { w with report := addInfo w.report n v } as

/-- the handler thread over acts: an event is handled by the writer and then by the file session
    (`sessStep`); an `add_info` call only changes the report (nothing is saved because of it) -/
def sessStepA (strat : Strategy) (clock : Nat → Nat) (s : Sess) : Act → Except SessErr Sess
  | .ev e => sessStep strat clock s e
  | .addInfo n v => .ok { s with w := { s.w with report := addInfo s.w.report n v } }

def sessRunA (strat : Strategy) (clock : Nat → Nat) : Sess → List Act → Except SessErr Sess
  | s, [] => .ok s
  | s, a :: as =>
    match sessStepA strat clock s a with
    | .ok s' => sessRunA strat clock s' as
    | .error err => .error err

/-- driver helper: the report after each handled EVENT (index = number of handled events; the information
    published after the k-th event is seen from event k+1 on), and the report after all acts -/
def actTrace (w : WriterState) (as : List Act) (acc : Array Report) : Array Report × WriterState × Option (WriterErr × Nat) :=
  match as with
  | [] => (acc, w, none)
  | .ev e :: rest =>
    match Writer.apply w e with
    | .ok w' => actTrace w' rest (acc.push w'.report)
    | .error err => (acc, w, some (err, acc.size - 1))
  | .addInfo n v :: rest => actTrace { w with report := addInfo w.report n v } rest acc

end LccModel.Saving

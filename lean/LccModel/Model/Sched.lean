/-
  M1 — model of the dependency-aware dispatch loop of `lemoncheesecake/task.py`
  (`run_tasks`, `pop_runnable_tasks`, `schedule_tasks_to_be_run`, `handle_task`, `run_task`,
  `skip_task`, `skip_all_tasks`) as a labelled transition system.

  Keyboard interrupt (as repaired by fix D11): `skip_all_tasks` keeps releasing the remaining tasks in
  dependency order — each round hands every task whose dependencies are completed to the pool for
  `skip_task` — so a task is queued only when all its dependencies are completed, interrupted run or not.

  `step : Graph → Nat → State → Label → Option State` is both the transition relation the theorems
  quantify over (every interleaving = every label sequence it accepts) and the acceptor the driver
  folds over traces observed from the real code.

  Where is task t?  `phase t`:
     remaining  — in `remaining_tasks`
     queued     — handed to the pool (`apply_async`), not yet picked by a worker
     running    — a worker is inside `handle_task` / `skip_task`
     done       — result set and task put on `completed_tasks_queue`
     completed  — taken from the queue by the main loop, in `completed_tasks`
  The pool's FIFO and the completion queue's FIFO are abstracted to "any queued / any done task":
  a superset of the real behaviours (sound for ∀-theorems; real traces are still accepted).
  Ghost fields (`clock`, `startAt`, `finishAt`, `starts`) record history so that ordering and
  exactly-once statements are state invariants.  Core Lean only.
-/
namespace LccModel.Sched

/- The scheduler is generic in the type of task identifiers (`Nat` in the driver, structured ids in the
   task-graph model M2). -/
variable {Tid : Type} [DecidableEq Tid]

/-- `TaskResultSuccess | TaskResultFailure | TaskResultSkipped | TaskResultException` -/
inductive Res | success | failure | skipped | exception
deriving DecidableEq, Repr, Inhabited

inductive Phase | remaining | queued | running | done | completed
deriving DecidableEq, Repr, Inhabited

def Phase.rank : Phase → Nat
  | .remaining => 4 | .queued => 3 | .running => 2 | .done => 1 | .completed => 0

/-- what `handle_task` decided for the task -/
inductive Mode | run | skip
deriving DecidableEq, Repr, Inhabited

structure Graph (Tid : Type) where
  tasks    : List Tid            -- list order matters: `pop_runnable_tasks` scans in this order
  succDeps : Tid → List Tid      -- get_on_success_dependencies
  complDeps : Tid → List Tid     -- get_on_completion_dependencies

/-- `get_all_dependencies` -/
def Graph.deps (g : Graph Tid) (t : Tid) : List Tid := g.complDeps t ++ g.succDeps t

structure State (Tid : Type) where
  phase    : Tid → Phase
  result   : Tid → Option Res
  mode     : Tid → Option Mode
  forced   : Tid → Bool           -- released by `skip_all_tasks` (after a keyboard interrupt): goes straight to `skip_task`
  aborted  : Bool                 -- `context.enable_task_abort()` has been called
  -- ghost history
  clock    : Nat
  startAt  : Tid → Option Nat
  finishAt : Tid → Option Nat
  starts   : Tid → Nat            -- how many times a worker picked the task

/-- `set(t.get_all_dependencies()).issubset(completed_tasks)` for a task still in `remaining_tasks` -/
def runnable (g : Graph Tid) (s : State Tid) (t : Tid) : Bool :=
  s.phase t = .remaining && (g.deps t).all (fun d => s.phase d = .completed)

/-- `pop_runnable_tasks(remaining_tasks, completed_tasks, nb_tasks)`: the first `n` runnable tasks in list order -/
def popped (g : Graph Tid) (s : State Tid) (n : Nat) : List Tid := (g.tasks.filter (runnable g s)).take n

/-- `schedule_tasks_to_be_run(pop_runnable_tasks(...))` -/
def dispatch (g : Graph Tid) (s : State Tid) (n : Nat) : State Tid :=
  let p := popped g s n
  { s with phase := fun t => if t ∈ p then .queued else s.phase t }

/-- one round of the loop of `skip_all_tasks` (after a keyboard interrupt):
    `for task in pop_runnable_tasks(remaining_tasks, completed_tasks, len(remaining_tasks)): apply_async(skip_task, task)`
    — EVERY task that is runnable now (no worker bound: `len(remaining_tasks)` ≥ the number of runnable
    tasks) is handed to the pool, marked `forced` (it will be skipped, never run).  Tasks with an uncompleted
    dependency stay in `remaining_tasks`. -/
def release (g : Graph Tid) (s : State Tid) : State Tid :=
  let p := popped g s g.tasks.length
  { s with phase := fun t => if t ∈ p then .queued else s.phase t
           forced := fun t => if t ∈ p then true else s.forced t }

def empty : State Tid :=
  { phase := fun _ => .remaining, result := fun _ => none, mode := fun _ => none, forced := fun _ => false,
    aborted := false, clock := 0, startAt := fun _ => none, finishAt := fun _ => none, starts := fun _ => 0 }

/-- state after the initial `schedule_tasks_to_be_run(pop_runnable_tasks(...))` of `run_tasks` -/
def init (g : Graph Tid) (n : Nat) : State Tid := dispatch g empty n

def nbRunning (g : Graph Tid) (s : State Tid) : Nat := (g.tasks.filter (fun t => s.phase t = .running)).length

/-- the dependency part of `handle_task`: some on-success dependency did not end in success -/
def depFailed (g : Graph Tid) (s : State Tid) (t : Tid) : Bool :=
  (g.succDeps t).any (fun d => s.result d != some .success)

inductive Label (Tid : Type)
  /-- a pool worker starts `handle_task t` (or `skip_task t` after an interrupt); `ctxSkip` = the
      context (`is_task_to_be_skipped`) returned a reason at that moment -/
  | start (t : Tid) (ctxSkip : Bool)
  /-- the worker has set `t.result` and put t on the completion queue -/
  | finish (t : Tid) (r : Res)
  /-- the main loop took t from the completion queue and scheduled what became runnable -/
  | receive (t : Tid)
  /-- `except KeyboardInterrupt` in `run_tasks`: abort flag, then the first round of `skip_all_tasks`
      (every task runnable now is queued for `skip_task`) -/
  | interrupt
deriving DecidableEq, Repr, Inhabited

/-- decision of `handle_task` (forced tasks go straight to `skip_task`) -/
def decideMode (g : Graph Tid) (s : State Tid) (t : Tid) (ctxSkip : Bool) : Mode :=
  if s.forced t then .skip
  else if depFailed g s t then .skip
  else if ctxSkip then .skip
  else .run

/-- results a task may end with, given the decision:
    run  → Success | Failure (TaskFailure) | Exception;   skip → Skipped | Exception (skip raised) -/
def resAllowed : Mode → Res → Bool
  | .run, .success => true | .run, .failure => true | .run, .exception => true
  | .skip, .skipped => true | .skip, .exception => true
  | _, _ => false

def step (g : Graph Tid) (n : Nat) (s : State Tid) : Label Tid → Option (State Tid)
  | .start t ctxSkip =>
    if t ∈ g.tasks ∧ s.phase t = .queued ∧ nbRunning g s < n then
      some { s with
        phase := fun x => if x = t then .running else s.phase x
        mode := fun x => if x = t then some (decideMode g s t ctxSkip) else s.mode x
        clock := s.clock + 1
        startAt := fun x => if x = t then some s.clock else s.startAt x
        starts := fun x => if x = t then s.starts x + 1 else s.starts x }
    else none
  | .finish t r =>
    if t ∈ g.tasks ∧ s.phase t = .running ∧ (∃ m, s.mode t = some m ∧ resAllowed m r = true) then
      some { s with
        phase := fun x => if x = t then .done else s.phase x
        result := fun x => if x = t then some r else s.result x
        clock := s.clock + 1
        finishAt := fun x => if x = t then some s.clock else s.finishAt x }
    else none
  | .receive t =>
    if t ∈ g.tasks ∧ s.phase t = .done then
      let s1 := { s with phase := fun x => if x = t then .completed else s.phase x, clock := s.clock + 1 }
      -- after an interrupt the main loop is the one of `skip_all_tasks`: what became runnable is released
      -- for skipping (all of it, no worker bound), still in dependency order
      some (if s.aborted then release g s1 else dispatch g s1 n)
    else none
  | .interrupt =>
    if s.aborted = false then
      some (release g { s with aborted := true, clock := s.clock + 1 })
    else none

/-- `len(completed_tasks) == len(tasks)`: the loop of `run_tasks` (or of `skip_all_tasks`) ends -/
def Final (g : Graph Tid) (s : State Tid) : Prop := ∀ t ∈ g.tasks, s.phase t = .completed

def finalB (g : Graph Tid) (s : State Tid) : Bool := g.tasks.all (fun t => s.phase t = .completed)

inductive Reachable (g : Graph Tid) (n : Nat) : State Tid → Prop
  | init : Reachable g n (init g n)
  | step {s s' l} : Reachable g n s → step g n s l = some s' → Reachable g n s'

/-- fold the acceptor over a trace -/
def run (g : Graph Tid) (n : Nat) : State Tid → List (Label Tid) → Option (State Tid)
  | s, [] => some s
  | s, l :: ls => match step g n s l with
    | none => none
    | some s' => run g n s' ls

/-- Well-formedness of a task graph: no duplicates, dependencies are tasks of the graph, and there
    is a topological numbering (what `check_task_dependencies` asserts, stated positively). -/
structure Graph.WF (g : Graph Tid) : Prop where
  nodup   : g.tasks.Nodup
  closed  : ∀ t ∈ g.tasks, ∀ d ∈ g.deps t, d ∈ g.tasks
  acyclic : ∃ lvl : Tid → Nat, ∀ t ∈ g.tasks, ∀ d ∈ g.deps t, lvl d < lvl t

/-- executable certificate check used by the driver on graphs extracted from the real `build_tasks` -/
def checkWF (g : Graph Tid) (lvl : Tid → Nat) : Bool :=
  decide g.tasks.Nodup &&
  g.tasks.all (fun t => (g.deps t).all (fun d => decide (d ∈ g.tasks) && decide (lvl d < lvl t)))

end LccModel.Sched

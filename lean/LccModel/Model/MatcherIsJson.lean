/-
  `is_json(expected)` (matching/matchers/string.py `IsJson`) on the value domain of M12, alone and under the
  combinators a test wraps it in.  Core Lean only.

  `IsJson.matches(actual)`:  `actual == expected` → `MatchResult.success()` (no details), otherwise a failure whose
  details are `"JSON does not match:\n" + <unified diff of the two pretty-printed documents>`.  The diff text is a
  PARAMETER of the model (`diff`): whatever the two renderings look like, they are only ever shown — the outcome is
  Python's `==` (`pyEq`: `1 == 1.0 == True`, `0 == 0.0 == False`, element-wise in lists, entry-wise in dicts).
-/
import LccModel.Model.Matcher

namespace LccModel.Matcher

/-- `IsJson(expected).matches(actual)` -/
def isJsonMatch (diff : Str → Str → Str) (expected actual : Val) : Res :=
  if pyEq actual expected then ⟨true, none⟩
  else ⟨false, some (c!"JSON does not match:\n" ++ diff (jsonify expected) (jsonify actual))⟩

/-- the ways a test uses `is_json`: alone, next to / inside the other matchers -/
inductive JM
  | isJson (e : Val)                 -- is_json(e)
  | lift (m : M)                     -- any modelled matcher
  | not (j : JM)                     -- not_(j)
  | both (j k : JM)                  -- all_of(j, k)
  | either (j k : JM)                -- any_of(j, k)
  | entry (path : List Key) (j : JM) -- has_entry(path, j)
deriving Repr, Inhabited

/-- success flag (or the exception) of `matches()`, computed the way the matcher classes do: `Not` flips the flag of the
    sub-result, `AllOf` stops at the first failure, `AnyOf` at the first success, `HasEntry` fails when the path is missing -/
def okJ (diff : Str → Str → Str) : JM → Val → Except PyErr Bool
  | .isJson e, v => .ok (isJsonMatch diff e v).ok
  | .lift m, v => okE m v
  | .not j, v =>
    match okJ diff j v with
    | .error e => .error e
    | .ok b => .ok (!b)
  | .both j k, v =>
    match okJ diff j v with
    | .error e => .error e
    | .ok false => .ok false
    | .ok true => okJ diff k v
  | .either j k, v =>
    match okJ diff j v with
    | .error e => .error e
    | .ok true => .ok true
    | .ok false => okJ diff k v
  | .entry p j, v =>
    match getPath v p with
    | none => .ok false
    | some x => okJ diff j x

/-- the reference meaning, with Python's operators only (`==`, `not`, `and`, `or`, `d[k]`) -/
def semJ : JM → Val → Except PyErr Bool
  | .isJson e, v => .ok (pyEq v e)
  | .lift m, v => sem m v
  | .not j, v => notE (semJ j v)
  | .both j k, v =>
    match semJ j v with
    | .error e => .error e
    | .ok false => .ok false
    | .ok true => semJ k v
  | .either j k, v =>
    match semJ j v with
    | .error e => .error e
    | .ok true => .ok true
    | .ok false => semJ k v
  | .entry p j, v =>
    match getPath v p with
    | none => .ok false
    | some x => semJ j x

mutual
/-- the copy of a value in which every `bool` / `int` is replaced by the float of the same numeric value (`True → 1.0`,
    `3 → 3.0`), through lists and dict VALUES at any depth: equal to the original for Python, printed differently by
    `json.dumps` (`1` / `1.0` / `true`) -/
def floatify : Val → Val
  | .bool b => .float (if b then 2 else 0)
  | .int i => .float (2 * i)
  | .list xs => .list (floatifyList xs)
  | .dict ks vs => .dict ks (floatifyList vs)
  | .none => .none
  | .float h => .float h
  | .nan => .nan
  | .str s => .str s
def floatifyList : List Val → List Val
  | [] => []
  | x :: xs => floatify x :: floatifyList xs
end

mutual
/-- a JSON document made of scalars and lists (no NaN — equal to nothing —, no dict) -/
def jsonPlain : Val → Bool
  | .nan => false
  | .dict _ _ => false
  | .list xs => jsonPlainList xs
  | _ => true
def jsonPlainList : List Val → Bool
  | [] => true
  | x :: xs => jsonPlain x && jsonPlainList xs
end

end LccModel.Matcher

/-
  Expected values OUTSIDE the value domain of `Model/Matcher.lean`, and object identity (C17, fourth seeded round).

  * `XVal` : an expected value as a test may write it down: a modelled value (`Val`), an object of a class `json.dumps` has no
    native rendering for (`foreign cls text`: `datetime.date`, `Decimal`, `UUID`, `set`, `bytes`, `complex`, a user class …;
    `text` is its `str()`), or a list / dict with such values inside.
  * `jsonifyE` : `helpers/text.py:jsonify` = `json.dumps(x, ensure_ascii=False)` ON THE WHOLE OF `XVal`: it RAISES `TypeError` as
    soon as a foreign object is reached; otherwise it is `Matcher.jsonify`.
  * `jsonifyDefaultStr` : the other implementation, `json.dumps(x, ensure_ascii=False, default=str)` (never raises, writes a foreign
    object as the quoted `str()` text) — kept for the refutation theorem only.
  * `describeLeafX` : `EqualTo.build_description` / `_Comparator.build_description` for an `XVal` expected value.
  * `equalToShortcut` : `EqualTo.matches` with an identity shortcut (`actual is expected or actual == expected`) — the other
    implementation, for the refutation theorem only; `sameObject = true` says the actual value IS the expected object.

  Core Lean only.
-/
import LccModel.Model.Matcher

namespace LccModel.Matcher

inductive XVal
  | plain (v : Val)
  | foreign (cls : Nat) (text : Str)
  | list (xs : List XVal)
  | dict (ks : List DKey) (xs : List XVal)
deriving Repr, Inhabited

mutual
/-- the modelled value this is, if no foreign object occurs anywhere in it -/
def XVal.toVal? : XVal → Option Val
  | .plain v => some v
  | .foreign _ _ => none
  | .list xs =>
    match XVal.toVals? xs with
    | some vs => some (.list vs)
    | none => none
  | .dict ks xs =>
    match XVal.toVals? xs with
    | some vs => some (.dict ks vs)
    | none => none
def XVal.toVals? : List XVal → Option (List Val)
  | [] => some []
  | x :: xs =>
    match XVal.toVal? x with
    | none => none
    | some v =>
      match XVal.toVals? xs with
      | some vs => some (v :: vs)
      | none => none
end

/-- `"key": value` texts of a dict (`jsonifyEntries` on already rendered values) -/
def zipEntries : List DKey → List Str → List Str
  | k :: ks, s :: ss => (k.json ++ c!": " ++ s) :: zipEntries ks ss
  | _, _ => []

mutual
/-- `jsonify(x)` of helpers/text.py: `json.dumps(x, ensure_ascii=False)` — `TypeError: Object of type … is not JSON serializable`
    when a foreign object is reached -/
def jsonifyE : XVal → Except PyErr Str
  | .plain v => .ok (jsonify v)
  | .foreign _ _ => .error .typeError
  | .list xs =>
    match jsonifyEList xs with
    | .ok ss => .ok (c!"[" ++ joinWith c!", " ss ++ c!"]")
    | .error e => .error e
  | .dict ks xs =>
    match jsonifyEList xs with
    | .ok ss => .ok (c!"{" ++ joinWith c!", " (zipEntries ks ss) ++ c!"}")
    | .error e => .error e
def jsonifyEList : List XVal → Except PyErr (List Str)
  | [] => .ok []
  | x :: xs =>
    match jsonifyE x with
    | .error e => .error e
    | .ok s =>
      match jsonifyEList xs with
      | .ok ss => .ok (s :: ss)
      | .error e => .error e
end

mutual
/-- `json.dumps(x, ensure_ascii=False, default=str)`: a foreign object is written as the JSON string of its `str()` -/
def jsonifyDefaultStr : XVal → Str
  | .plain v => jsonify v
  | .foreign _ text => jsonStr text
  | .list xs => c!"[" ++ joinWith c!", " (jsonifyDefaultStrList xs) ++ c!"]"
  | .dict ks xs => c!"{" ++ joinWith c!", " (zipEntries ks (jsonifyDefaultStrList xs)) ++ c!"}"
def jsonifyDefaultStrList : List XVal → List Str
  | [] => []
  | x :: xs => jsonifyDefaultStr x :: jsonifyDefaultStrList xs
end

/-- `equal_to(x)` (`op = none`) / a comparator built on the expected value `x`, when `x` is a modelled value -/
def leafOf (op : Option Cmp) (v : Val) : M :=
  match op with
  | none => .equalTo v
  | some c => .cmp c v

/-- the words between "to be" and the value -/
def leafWords : Option Cmp → Str
  | none => c!"equal to"
  | some c => c.words

/-- `EqualTo.build_description` / `_Comparator.build_description` for any expected value: the sentence, or the exception
    `jsonify` raises -/
def describeLeafX (op : Option Cmp) (x : XVal) (t : Tr) : Except PyErr Str :=
  match jsonifyE x with
  | .ok s => .ok (t.apply (c!"to be " ++ leafWords op ++ c!" " ++ s))
  | .error e => .error e

/-- the same with `default=str` (refutation only) -/
def describeLeafXDefaultStr (op : Option Cmp) (x : XVal) (t : Tr) : Str :=
  t.apply (c!"to be " ++ leafWords op ++ c!" " ++ jsonifyDefaultStr x)

/-- `EqualTo.matches` with an identity shortcut: `actual is self.expected or actual == self.expected`; `sameObject` = the actual
    value is the very object the matcher was built on (then `actual` and `expected` are the same value) -/
def equalToShortcut (sameObject : Bool) (expected actual : Val) : Bool :=
  sameObject || pyEq actual expected

end LccModel.Matcher

/-
  Sequence semantics of ONE `MetadataPolicy` object (`lemoncheesecake/metadatapolicy.py`) that is configured,
  used for a check, reconfigured, used again, …

  * `configure`: the four configuration methods (`add_property_rule`, `add_tag_rule` — one name or a list/tuple of
    names —, `disallow_unknown_properties`, `disallow_unknown_tags`) on the policy state of `Model/Policy.lean`.
    The two rule dicts are insertion-ordered: redefining a rule REPLACES it at its place (`upsert`), a new rule is appended.
    `_get_rule_application(on_test, on_suite)` is `ruleApplication` (`none` = the `AssertionError` "either on_test or
    on_suite need to be True", raised before anything is stored: the policy is unchanged).
  * `run`: the verdicts of the checks of a sequence of steps, in order.  A check reads the policy state and does not
    change it: the code rebuilds `available_*` / `forbidden_*` from `self._properties` / `self._tags` on every call.
  * `runCached`: what an implementation does that works the tag rules out once (at the first check) and forgets to
    invalidate that when a tag rule is declared afterwards — NOT the code; kept to show that the theorems of
    `Props/C14Reconfig.lean` are not vacuous (they refute it).
  Core Lean only.
-/
import LccModel.Model.Policy

namespace LccModel.Policy

/-- `MetadataPolicy._get_rule_application(on_test, on_suite)`: `None, None` -> tests only; both falsy -> AssertionError (`none`) -/
def ruleApplication : Option Bool → Option Bool → Option (Bool × Bool)
  | none, none => some (true, false)
  | a, b => if a.getD false || b.getD false then some (a.getD false, b.getD false) else none

inductive Op where
  | propRule (name : String) (values : List String) (onTest onSuite : Option Bool) (required : Bool)
  | tagRule (names : List String) (onTest onSuite : Option Bool)      -- `add_tag_rule(name)` = `add_tag_rule([name])`
  | noUnknownProps
  | noUnknownTags
deriving DecidableEq, Repr

/-- `d[key a] = a` on an insertion-ordered dict given as the list of its values -/
def upsert {α : Type} (key : α → String) : List α → α → List α
  | [], a => [a]
  | x :: xs, a => if key x = key a then a :: xs else x :: upsert key xs a

/-- the configuration call raises (`AssertionError`) instead of storing a rule -/
def Op.raises : Op → Bool
  | .propRule _ _ a b _ => (ruleApplication a b).isNone
  | .tagRule names a b => !names.isEmpty && (ruleApplication a b).isNone
  | _ => false

def configure (P : Policy) : Op → Policy
  | .propRule n vs a b req =>
    match ruleApplication a b with
    | none => P
    | some (t, s) => { P with props := upsert (·.name) P.props ⟨n, vs, t, s, req⟩ }
  | .tagRule names a b =>
    match ruleApplication a b with
    | none => P
    | some (t, s) => { P with tags := names.foldl (fun l n => upsert (·.name) l ⟨n, t, s⟩) P.tags }
  | .noUnknownProps => { P with noUnknownProps := true }
  | .noUnknownTags => { P with noUnknownTags := true }

/-- `MetadataPolicy()` -/
def empty : Policy := ⟨[], [], false, false⟩

def confAll (P : Policy) (ops : List Op) : Policy := ops.foldl configure P

inductive Step where
  | conf (o : Op)
  | check (nodes : List Node)     -- `check_test_compliance` / `check_suite_compliance` / `check_suites_compliance` /
                                  -- `PreparedProject.create`: the nodes visited, in order
deriving Repr

/-- the configuration calls of a sequence, in order -/
def confs : List Step → List Op
  | [] => []
  | .conf o :: r => o :: confs r
  | .check _ :: r => confs r

/-- the checks of a sequence, in order -/
def checks : List Step → List (List Node)
  | [] => []
  | .conf _ :: r => checks r
  | .check ns :: r => ns :: checks r

/-- the verdicts of the checks made with ONE policy object, in order -/
def run (P : Policy) : List Step → List (Except Err Unit)
  | [] => []
  | .conf o :: r => run (configure P o) r
  | .check ns :: r => checkNodes P ns :: run P r

/-! ### a caching implementation that forgets to invalidate (for non-vacuity only) -/

structure Cached where
  pol : Policy
  snap : Option (List TagRule)      -- the tag rules as they were when they were first worked out

/-- the rules a check of the caching implementation applies -/
def Cached.view (C : Cached) : Policy := { C.pol with tags := C.snap.getD C.pol.tags }

def runCached (C : Cached) : List Step → List (Except Err Unit)
  | [] => []
  | .conf o :: r => runCached { C with pol := configure C.pol o } r          -- `snap` is not cleared
  | .check ns :: r => checkNodes C.view ns :: runCached { C with snap := some C.view.tags } r

/-- verdict as a Boolean (accepted?) -/
def accepted (v : Except Err Unit) : Bool :=
  match v with
  | .ok _ => true
  | .error _ => false

/-- a test `s.t` tagged `slow`; first check with no rule; then `add_tag_rule("slow", on_suite=True)`; second check -/
def exSteps : List Step :=
  [.check [⟨.test, "s.t", [], ["slow"]⟩], .conf (.tagRule ["slow"] none (some true)), .check [⟨.test, "s.t", [], ["slow"]⟩]]

end LccModel.Policy

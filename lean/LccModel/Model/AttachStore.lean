/-
  M14c — what an attachment file holds: `save_attachment_file` / `save_image_file` COPY the source
  (session.py `_save_attachment_file`: `shutil.copy(filename, report_attachment_path)`; the docstrings say
  "The given file will be copied"), `save_attachment_content` / a `prepare_attachment` body write a
  new file.  The question C06's last sentence asks — "the attachment files the report references exist
  on disk with the written content" — is a question about the END of the run, after the test went on
  using (rewriting, appending to, truncating, replacing, deleting) the file it attached.  It needs a
  model of the file store with directory entries and i-nodes, because the two ways of importing a file
  (copy its bytes into a new i-node / add a second directory entry for the same i-node) cannot be told
  apart at the moment of the call.

  Core Lean only.

    data  : i-node → content            (a content is a list of chunk tokens; `append` concatenates)
    next  : every i-node ≥ next is unused
    src   : user path → i-node          (regular files of the test)
    lnk   : user path → user path       (symbolic links of the test, one level: the target is a regular path)
    att   : attachment number → i-node  (the files under <report dir>/attachments; the number is the `%04d`
                                          prefix handed out under `_attachment_lock`, see `Attach`)
    snap  : ghost — attachment number → the content the source had when it was attached

  `Mode.copy` is the code as it is.  `Mode.link` is the variant that adds a directory entry for the
  source's i-node (`os.link`) — kept only for the refutation theorem that shows what the copy is for.
-/

namespace LccModel.AttachStore

abbrev Content := List Nat

inductive Mode | copy | link
deriving DecidableEq, Repr

structure FS where
  data : Nat → Content
  next : Nat
  src : Nat → Option Nat
  lnk : Nat → Option Nat
  att : Nat → Option Nat
  snap : Nat → Option Content

def init : FS :=
  { data := fun _ => [], next := 0, src := fun _ => none, lnk := fun _ => none, att := fun _ => none, snap := fun _ => none }

/-- what the user-side operations of a test do to the files it owns -/
inductive Op
  | write (p : Nat) (c : Content)       -- `open(p, "w").write(c)`: in place when p exists (through a symlink too), else creates
  | append (p : Nat) (c : Content)      -- `open(p, "a").write(c)`
  | replace (p : Nat) (c : Content)     -- write a temporary file and `os.replace` it over p: a NEW i-node, p becomes a regular file
  | unlink (p : Nat)                    -- `os.unlink(p)` (removes the entry p itself, symlink or file)
  | symlink (p q : Nat)                 -- `os.symlink(q, p)`: p did not exist, q is not itself a symlink
  | save (n p : Nat)                    -- `save_attachment_file(p)` / `save_image_file(p)` that was handed the number n
  | saveContent (n : Nat) (c : Content) -- `save_attachment_content` / a `with prepare_attachment` body writing c
deriving DecidableEq, Repr

/-- the path whose directory entry holds the i-node reached through `p` (`open` follows a symlink) -/
def target (s : FS) (p : Nat) : Nat :=
  match s.lnk p with
  | some q => q
  | none => p

/-- the i-node `open(p)` reaches, `none` = FileNotFoundError -/
def resolve (s : FS) (p : Nat) : Option Nat := s.src (target s p)

/-- what is on disk under attachment number `n` -/
def attContent (s : FS) (n : Nat) : Option Content :=
  match s.att n with
  | some i => some (s.data i)
  | none => none

/-- what `open(p).read()` gives -/
def srcContent (s : FS) (p : Nat) : Option Content :=
  match resolve s p with
  | some i => some (s.data i)
  | none => none

def setData (s : FS) (i : Nat) (c : Content) : FS := { s with data := fun x => if x = i then c else s.data x }

/-- a new i-node holding `c` -/
def alloc (s : FS) (c : Content) : FS := { setData s s.next c with next := s.next + 1 }

def setSrc (s : FS) (p : Nat) (v : Option Nat) : FS := { s with src := fun x => if x = p then v else s.src x }

inductive Outcome
  | done                 -- the call returned
  | missing              -- FileNotFoundError: nothing was stored (the attachment number stays consumed)
deriving DecidableEq, Repr

/-- One operation.  `none` = not a call the model covers (a number handed out twice — excluded by
    `Attach`'s theorems —, a symlink over an existing entry or to a symlink). -/
def step (mode : Mode) (s : FS) : Op → Option (FS × Outcome)
  | .write p c =>
    match resolve s p with
    | some i => some (setData s i c, .done)
    | none => some (setSrc (alloc s c) (target s p) (some s.next), .done)
  | .append p c =>
    match resolve s p with
    | some i => some (setData s i (s.data i ++ c), .done)
    | none => some (setSrc (alloc s c) (target s p) (some s.next), .done)
  | .replace p c =>
    some ({ setSrc (alloc s c) p (some s.next) with lnk := fun x => if x = p then none else s.lnk x }, .done)
  | .unlink p =>
    match s.lnk p with
    | some _ => some ({ s with lnk := fun x => if x = p then none else s.lnk x }, .done)
    | none =>
      match s.src p with
      | some _ => some (setSrc s p none, .done)
      | none => some (s, .missing)
  | .symlink p q =>
    match s.lnk p, s.src p, s.lnk q with
    | none, none, none => if p = q then none else some ({ s with lnk := fun x => if x = p then some q else s.lnk x }, .done)
    | _, _, _ => none
  | .save n p =>
    match s.att n, s.snap n with
    | none, none =>
      match resolve s p with
      | none => some (s, .missing)
      | some i =>
        match mode with
        | .copy =>
          -- shutil.copy: the bytes of the source, read now, go into a new file
          some ({ alloc s (s.data i) with
                    att := fun x => if x = n then some s.next else s.att x,
                    snap := fun x => if x = n then some (s.data i) else s.snap x }, .done)
        | .link =>
          -- os.link: a second directory entry for the same i-node
          some ({ s with
                    att := fun x => if x = n then some i else s.att x,
                    snap := fun x => if x = n then some (s.data i) else s.snap x }, .done)
    | _, _ => none
  | .saveContent n c =>
    match s.att n, s.snap n with
    | none, none =>
      some ({ alloc s c with
                att := fun x => if x = n then some s.next else s.att x,
                snap := fun x => if x = n then some c else s.snap x }, .done)
    | _, _ => none

/-- a history of calls; `none` as soon as one is outside the model -/
def run (mode : Mode) : FS → List Op → Option FS
  | s, [] => some s
  | s, op :: rest =>
    match step mode s op with
    | none => none
    | some (s', _) => run mode s' rest

/-- the outcomes of the calls of a history, oldest first (what the harness compares with the real calls) -/
def outcomes (mode : Mode) : FS → List Op → List Outcome
  | _, [] => []
  | s, op :: rest =>
    match step mode s op with
    | none => []
    | some (s', o) => o :: outcomes mode s' rest

/-- an operation on the test's own files (everything but the two attachment calls) -/
def Op.isUser : Op → Bool
  | .save _ _ => false
  | .saveContent _ _ => false
  | _ => true

/-- the attachment number an attachment call stores under -/
def Op.number : Op → Option Nat
  | .save n _ => some n
  | .saveContent n _ => some n
  | _ => none

end LccModel.AttachStore

/-
  M9b — the directory scan in front of the loader: which entries of a suites directory are suite modules.

  `helpers/moduleimport.get_py_files_from_dir(dir)` is
      sorted(filter(lambda f: not basename(f).startswith("__"), glob.glob(join(dir, "*.py"))))
  and `load_suites_from_files(join(dir, "*.py"), excluding=join(dir, "__*.py"))` goes through `get_matching_files`
  (`glob.glob` then `fnmatch` on the excluded pattern).  `glob` matches the *name* of an entry against `*.py` (on POSIX:
  case-sensitive, `*` matches any text including dots and the empty text) and never matches a name starting with `.`
  against a pattern that does not start with `.`.  It does not look at what the entry *is*: a directory or a dangling
  symbolic link named `x.py` is returned like a regular file (and then fails to import).
  So the decision is a function of the entry's name alone:

      accepted  ⇔  the name ends with ".py"  ∧  does not start with "."  ∧  does not start with "__"

  and the suite's name is `strip_py_ext(basename)` = the name without its last three characters.

  A *raw* directory lists every entry: Python sources (accepted or not — a hidden draft `.alpha_draft.py` is a perfectly valid
  module with tests), junk (editor lock files = dangling symbolic links `.#alpha.py`, AppleDouble binaries `._alpha.py`, …)
  and sub-directories.  `scanDir` is what the loader sees of it; `loadRawDir = loadDirReal ∘ scanDir`.
  Sub-directories are *not* filtered by the real code (`_get_sub_dirs_from_dir` = every directory of `os.listdir`, hidden
  ones and `__pycache__` included): a directory without modules yields an empty synthetic suite, which `finalSort` drops.

  Core Lean only.
-/
import LccModel.Model.Loader

namespace LccModel.DirScan
open LccModel.Loader

def pyExt : List Char := ['.', 'p', 'y']

/-- the decision of `get_py_files_from_dir` on one directory entry, by its name -/
def acceptsChars (n : List Char) : Bool :=
  pyExt.isSuffixOf n && !(['.'].isPrefixOf n) && !(['_', '_'].isPrefixOf n)

def acceptsName (n : String) : Bool := acceptsChars n.toList

/-- `strip_py_ext` on an accepted name: without the last three characters -/
def stemChars (n : List Char) : List Char := n.take (n.length - 3)

def stemOf (n : String) : String := String.ofList (stemChars n.toList)

/-- What a directory entry named `*.py`-or-not contains. -/
inductive Body where
  /-- Python source (the `stem` field of `m` is ignored: the suite is named after the file; `m.broken`: the import raises) -/
  | module (m : Module)
  /-- not importable: binary garbage, a dangling symbolic link, a directory -/
  | junk
  deriving Repr

structure FileEntry where
  name : String
  body : Body
  deriving Repr

/-- the module the loader imports for an (accepted) entry -/
def FileEntry.toModule (e : FileEntry) : Module :=
  match e.body with
  | .module m => { m with stem := stemOf e.name }
  | .junk => { stem := stemOf e.name, autoRank := 0, broken := true }

def FileEntry.accepted (e : FileEntry) : Bool := acceptsName e.name

/-- `get_py_files_from_dir` (the sort happens in `sortMods`) -/
def scanFiles (fs : List FileEntry) : List Module := (fs.filter FileEntry.accepted).map FileEntry.toModule

/-- A directory as it is on disk: every file entry, every sub-directory. -/
inductive RawDir where
  | mk (name : String) (files : List FileEntry) (dirs : List RawDir)
  deriving Repr

mutual
/-- what the loader sees of a raw directory -/
def scanDir : RawDir → Dir
  | .mk n fs ds => .mk n (scanFiles fs) (scanDirs ds)
def scanDirs : List RawDir → List Dir
  | [] => []
  | d :: ds => scanDir d :: scanDirs ds
end

/-- `load_suites_from_directory(dir)` on the directory as it is on disk -/
def loadRawDir (d : RawDir) : Except LoadErr (List Suite) := loadDirReal (scanDir d)

/-- `load_suites_from_files("<dir>/*.py", excluding="<dir>/__*.py")` on the file entries of `<dir>` -/
def loadRawFiles (fs : List FileEntry) : Except LoadErr (List Suite) := loadFilesReal (scanFiles fs)

mutual
/-- the same directory tree with every entry the scan rejects removed (all levels) -/
def cleanDir : RawDir → RawDir
  | .mk n fs ds => .mk n (fs.filter FileEntry.accepted) (cleanDirs ds)
def cleanDirs : List RawDir → List RawDir
  | [] => []
  | d :: ds => cleanDir d :: cleanDirs ds
end

mutual
/-- every file entry of the tree is accepted by the scan -/
def allAccepted : RawDir → Bool
  | .mk _ fs ds => fs.all FileEntry.accepted && allAcceptedList ds
def allAcceptedList : List RawDir → Bool
  | [] => true
  | d :: ds => allAccepted d && allAcceptedList ds
end

/-! ## Example data for the non-vacuity examples of `Props/C13Scan.lean` -/

def tst (a : String) (r : Int) : TestDecl := { attr := a, rank := r }

/-- a valid module with one test (what a hidden draft contains) -/
def draft : Body := .module { stem := "", autoRank := 0, tests := [tst "draft" 0] }

/-- `suites/{alpha.py, .alpha_draft.py, .#alpha.py, ._alpha.py, alpha.py~, __init__.py, alpha.PY, .py, a.b.py}`,
    `suites/alpha/{beta.py, .beta_wip.py}`, `suites/__pycache__/{alpha.cpython-312.pyc}`, `suites/.git/{config}` -/
def exRaw : RawDir :=
  .mk "suites"
    [⟨"alpha.py", .module { stem := "", autoRank := 3, tests := [tst "first" 1, tst "second" 2] }⟩,
     ⟨".alpha_draft.py", draft⟩, ⟨".#alpha.py", .junk⟩, ⟨"._alpha.py", .junk⟩, ⟨"alpha.py~", draft⟩,
     ⟨"__init__.py", draft⟩, ⟨"alpha.PY", draft⟩, ⟨".py", draft⟩,
     ⟨"a.b.py", .module { stem := "", autoRank := 5, tests := [tst "dotted" 4] }⟩]
    [.mk "alpha" [⟨"beta.py", .module { stem := "", autoRank := 7, tests := [tst "nested" 6] }⟩, ⟨".beta_wip.py", draft⟩] [],
     .mk "__pycache__" [⟨"alpha.cpython-312.pyc", .junk⟩] [],
     .mk ".git" [⟨"config", .junk⟩] []]

end LccModel.DirScan

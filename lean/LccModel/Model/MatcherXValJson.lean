/-
  JSON for `Model/MatcherXVal.lean` (stream `C17.jsonify`): the `Val` syntax of `Model/MatcherJson.lean` plus
  `["x", cls, text]` (an object of foreign class number `cls` whose `str()` is `text`).
  Request `{"xvals": [XVal…], "op": null | "ne" | "lt" | "le" | "gt" | "ge", "tr": {conjugate, negative}}` →
  `{"out": [{"json": text} | {"error": "TypeError"} …], "sentences": […the same for the leaf matcher's description],
    "default_str": [text…]}`.  Core Lean only.
-/
import LccModel.Model.MatcherJson
import LccModel.Model.MatcherXVal

namespace LccModel.MatcherXValJson
open Lean LccModel.Matcher LccModel.MatcherJson

partial def parseXVal (j : Json) : Except String XVal :=
  match j with
  | .arr a => do
    let tag ← (a[0]?.getD Json.null).getStr?
    let x := a[1]?.getD Json.null
    match tag with
    | "x" => do
      let cls ← x.getNat?
      let text ← (a[2]?.getD Json.null).getStr?
      pure (.foreign cls text.toList)
    | "l" => do
      let xs ← (← x.getArr?).toList.mapM parseXVal
      pure (.list xs)
    | "d" => do
      let kvs : List (DKey × XVal) ← (← x.getArr?).toList.mapM fun e => do
        let p ← e.getArr?
        let k ← parseDKey (p[0]?.getD Json.null)
        let v ← parseXVal (p[1]?.getD Json.null)
        pure (k, v)
      pure (.dict (kvs.map Prod.fst) (kvs.map Prod.snd))
    | _ => do pure (.plain (← parseVal j))
  | _ => do pure (.plain (← parseVal j))

def strE : Except PyErr Str → Json
  | .ok s => Json.mkObj [("json", str s)]
  | .error _ => Json.mkObj [("error", Json.str "TypeError")]

def handle (j : Json) : Except String Json := do
  let xs ← (← (← j.getObjVal? "xvals").getArr?).toList.mapM parseXVal
  let op : Option Cmp ← match j.getObjVal? "op" with
    | .ok (.str "ne") => pure (some Cmp.ne)
    | .ok (.str "lt") => pure (some (Cmp.ord .lt))
    | .ok (.str "le") => pure (some (Cmp.ord .le))
    | .ok (.str "gt") => pure (some (Cmp.ord .gt))
    | .ok (.str "ge") => pure (some (Cmp.ord .ge))
    | _ => pure none
  let t : Tr ← match j.getObjVal? "tr" with
    | .ok (.obj _) => do
      let tj ← j.getObjVal? "tr"
      pure ⟨← (← tj.getObjVal? "conjugate").getBool?, ← (← tj.getObjVal? "negative").getBool?⟩
    | _ => pure Tr.plain
  pure (Json.mkObj [
    ("out", Json.arr (xs.map fun x => strE (jsonifyE x)).toArray),
    ("sentences", Json.arr (xs.map fun x => strE (describeLeafX op x t)).toArray),
    ("default_str", Json.arr (xs.map fun x => str (jsonifyDefaultStr x)).toArray)])

end LccModel.MatcherXValJson

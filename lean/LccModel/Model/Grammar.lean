/-
  The stream grammar of property C07 as an executable acceptor over `Report.Event`s
  (shared by C07 — streams of real runs, any number of threads — and C18 — replayed streams).

  The acceptor is a state machine rather than a context-free bracket grammar because with several
  worker threads sibling suites, tests and steps of different threads are legitimately open at the
  same time; what the property demands is stated per event:

    * session start first, session end last (and, strictly, only when everything is closed);
    * a suite starts inside its (open) parent suite and ends only after everything inside it has ended;
    * setup / teardown / test results start inside their open suite; a test end closes an open test
      whose steps are all closed; a skipped or disabled test is ONE event (no result is opened);
    * a step starts inside an open result, one open step per emitting thread; a step end closes the
      step open for that thread at that location; every log / check / attachment / url is inside the
      step open for the emitting thread, at that step's location;
    * every event carries a real time (`Event.__init__`: `event_time or time.time()` is never falsy).

  Two switches:
    `strict`      the exclusivity rules (no double start, ends only when the inside is closed, one step
                  per thread, everything closed at session end).  Without it only *containment* is
                  checked: every event lies inside its started parent and every end matches a start.
    `sequential`  one worker thread: a result is opened only when no other result is open, and suite /
                  bypass events only occur between results — "events of different tests and phases
                  never interleave".

  What the acceptor does not check (separate predicates where needed): uniqueness of paths over the
  whole stream (`Fresh`), and the hold/flush elision of empty steps (a `session.py` matter, M3).
  Core Lean only.
-/
import LccModel.Model.Report

namespace LccModel.Grammar
open LccModel.Report

inductive Phase | notStarted | running | ended
deriving DecidableEq, Repr, Inhabited

structure Mode where
  strict : Bool
  sequential : Bool
deriving DecidableEq, Repr

def Mode.lenient : Mode := ⟨false, false⟩
def Mode.parallel : Mode := ⟨true, false⟩
def Mode.seq : Mode := ⟨true, true⟩

structure GState where
  phase : Phase
  openSuites : List Path
  openResults : List Loc
  openSteps : List (Nat × Loc)      -- emitting thread ↦ location of the step it has open (latest first)
deriving DecidableEq, Repr, Inhabited

def init : GState := { phase := .notStarted, openSuites := [], openResults := [], openSteps := [] }

/-- the time an event carries -/
def time : Event → Nat
  | .sessionStart t | .sessionEnd t | .sessionSetupStart t | .sessionSetupEnd t
  | .sessionTeardownStart t | .sessionTeardownEnd t => t
  | .suiteStart _ _ t | .suiteEnd _ t | .suiteSetupStart _ t | .suiteSetupEnd _ t
  | .suiteTeardownStart _ t | .suiteTeardownEnd _ t => t
  | .testStart _ _ t | .testEnd _ t | .testSkipped _ _ _ t | .testDisabled _ _ _ t => t
  | .stepStart _ _ _ t | .stepEnd _ _ _ t => t
  | .log _ _ _ _ _ t | .check _ _ _ _ _ _ t | .attachment _ _ _ _ _ _ t | .url _ _ _ _ _ t => t

/-- the suite a result location belongs to (`none`: session level) -/
def ownerSuite : Loc → Option Path
  | .sessionSetup | .sessionTeardown => none
  | .suiteSetup p | .suiteTeardown p => some p
  | .test p => some p.dropLast

/-- `b` is only demanded in the given mode -/
def whenB (flag b : Bool) : Bool := !flag || b

def stepOpenAt (g : GState) (loc : Loc) : Bool := g.openSteps.any (fun x => x.2 == loc)

/-- opening a result at `loc` -/
def openResult (m : Mode) (g : GState) (loc : Loc) : Option GState :=
  if whenB m.strict (!g.openResults.contains loc) && whenB m.sequential g.openResults.isEmpty then
    some { g with openResults := loc :: g.openResults }
  else none

/-- closing the result at `loc` -/
def closeResult (m : Mode) (g : GState) (loc : Loc) : Option GState :=
  if g.openResults.contains loc && whenB m.strict (!stepOpenAt g loc) then
    some { g with openResults := g.openResults.erase loc }
  else none

/-- the test / suite of a start event is named as its path says -/
def named (p : Path) (md : Meta) : Bool := p.getLast? == some md.name

def parentOpen (g : GState) (p : Path) : Bool := p.dropLast.isEmpty || g.openSuites.contains p.dropLast

/-- nothing directly inside suite `p` is still open -/
def insideClosed (g : GState) (p : Path) : Bool :=
  g.openSuites.all (fun q => !(q.dropLast == p && !q.isEmpty)) && g.openResults.all (fun l => ownerSuite l != some p)

def bypass (m : Mode) (g : GState) (p : Path) (md : Meta) : Option GState :=
  if !p.dropLast.isEmpty && g.openSuites.contains p.dropLast && named p md
      && whenB m.strict (!g.openResults.contains (.test p)) && whenB m.sequential g.openResults.isEmpty then some g
  else none

def logOk (g : GState) (loc : Loc) (tid : Nat) : Option GState :=
  if g.openSteps.lookup tid == some loc then some g else none

/-- one event -/
def step (m : Mode) (g : GState) (e : Event) : Option GState :=
  if time e == 0 then none else
  match e with
  | .sessionStart _ => if g.phase == .notStarted then some { g with phase := .running } else none
  | e =>
    if g.phase != .running then none else
    match e with
    | .sessionStart _ => none
    | .sessionEnd _ =>
      if whenB m.strict (g.openSuites.isEmpty && g.openResults.isEmpty && g.openSteps.isEmpty) then
        some { g with phase := .ended }
      else none
    | .sessionSetupStart _ => openResult m g .sessionSetup
    | .sessionSetupEnd _ => closeResult m g .sessionSetup
    | .sessionTeardownStart _ => openResult m g .sessionTeardown
    | .sessionTeardownEnd _ => closeResult m g .sessionTeardown
    | .suiteStart p md _ =>
      if !p.isEmpty && parentOpen g p && named p md && whenB m.strict (!g.openSuites.contains p)
          && whenB m.sequential g.openResults.isEmpty then
        some { g with openSuites := p :: g.openSuites }
      else none
    | .suiteEnd p _ =>
      if g.openSuites.contains p && whenB m.strict (insideClosed g p) && whenB m.sequential g.openResults.isEmpty then
        some { g with openSuites := g.openSuites.erase p }
      else none
    | .suiteSetupStart p _ => if g.openSuites.contains p then openResult m g (.suiteSetup p) else none
    | .suiteSetupEnd p _ => closeResult m g (.suiteSetup p)
    | .suiteTeardownStart p _ => if g.openSuites.contains p then openResult m g (.suiteTeardown p) else none
    | .suiteTeardownEnd p _ => closeResult m g (.suiteTeardown p)
    | .testStart p md _ =>
      if !p.dropLast.isEmpty && g.openSuites.contains p.dropLast && named p md then openResult m g (.test p) else none
    | .testEnd p _ => closeResult m g (.test p)
    | .testSkipped p md _ _ => bypass m g p md
    | .testDisabled p md _ _ => bypass m g p md
    | .stepStart loc _ tid _ =>
      if g.openResults.contains loc && whenB m.strict ((g.openSteps.lookup tid).isNone) then
        some { g with openSteps := (tid, loc) :: g.openSteps }
      else none
    | .stepEnd loc _ tid _ =>
      if g.openSteps.lookup tid == some loc then some { g with openSteps := g.openSteps.erase (tid, loc) } else none
    | .log loc _ tid _ _ _ => logOk g loc tid
    | .check loc _ tid _ _ _ _ => logOk g loc tid
    | .attachment loc _ tid _ _ _ _ => logOk g loc tid
    | .url loc _ tid _ _ _ => logOk g loc tid

def run (m : Mode) : GState → List Event → Option GState
  | g, [] => some g
  | g, e :: es =>
    match step m g e with
    | some g' => run m g' es
    | none => none

/-- every event lies inside its started parent and every end matches a start (no exclusivity) -/
def Contained (es : List Event) : Prop := (run .lenient init es).isSome = true

/-- a prefix of a well-formed stream (what a backend has received so far) -/
def WellFormedPrefix (es : List Event) : Prop := (run .parallel init es).isSome = true

/-- a complete well-formed stream: C07's grammar, session end included, nothing left open -/
def WellFormed (es : List Event) : Prop := ∃ g, run .parallel init es = some g ∧ g.phase = .ended

/-- with one worker thread events of different tests and phases never interleave -/
def Sequential (es : List Event) : Prop := (run .seq init es).isSome = true

instance (es : List Event) : Decidable (Contained es) := by unfold Contained; infer_instance
instance (es : List Event) : Decidable (WellFormedPrefix es) := by unfold WellFormedPrefix; infer_instance
instance (es : List Event) : Decidable (Sequential es) := by unfold Sequential; infer_instance

/-- the path a start / bypass event introduces -/
def introduces : Event → Option Loc
  | .suiteSetupStart p _ => some (.suiteSetup p)
  | .suiteTeardownStart p _ => some (.suiteTeardown p)
  | .sessionSetupStart _ => some .sessionSetup
  | .sessionTeardownStart _ => some .sessionTeardown
  | .testStart p _ _ | .testSkipped p _ _ _ | .testDisabled p _ _ _ => some (.test p)
  | _ => none

def introducedSuite : Event → Option Path
  | .suiteStart p _ _ => some p
  | _ => none

/-- no result location and no suite path is started twice in the stream -/
def Fresh (es : List Event) : Prop :=
  (es.filterMap introduces).Nodup ∧ (es.filterMap introducedSuite).Nodup

end LccModel.Grammar

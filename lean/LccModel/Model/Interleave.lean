/-
  M12c — description building by SEVERAL threads at once.

  `check_that` / `require_that` / `assert_that` / `check_that_in` build the description of a check with
  `matcher.build_description(MatcherDescriptionTransformer())` (operations.py `_log_match_result`): every call
  allocates its own transformer object, and the code as it is never writes to a transformer it was handed
  (`LccModel.C17.transformer_never_altered`).  With N worker threads several of these computations are in
  flight at once and are pre-empted at arbitrary points.  Whether the description one test records can depend
  on what another thread is doing is a question about SHARED MUTABLE OBJECTS, so the model has a heap of
  transformer objects and threads that take atomic steps on it:

    Heap            object id → state of a `MatcherDescriptionTransformer` (`Tr`: conjugate, negative)
    Thread S        a deterministic step function over a private state `S` and the heap (`none` = finished) and
                    the set of objects the thread may touch (`owns`)
    runSched        any schedule (list of thread ids): the scheduled thread takes one step (nothing if finished)
    runAlone        one thread alone, k steps

  The generic theorem (`Lemmas/Interleave.lean: schedule_independent`) is about ANY such threads — so it also
  covers `build_description` methods of user-defined `Matcher` subclasses —: if every thread only reads and
  writes objects it owns and the ownership sets are pairwise disjoint, what a thread computes under any
  schedule is what it computes alone.  That the real calls satisfy the hypothesis (no transformer object is
  touched by two threads) is observed on every run of the stream `C05.desc`.

  The concrete instance is the instruction machine of a description program on ONE transformer object:
  `emit r d` = `transformation(d)` on object r (the sentence is appended to the thread's output),
  `flip r` = `transformation.negative = not transformation.negative`.  `prog r m` is the program of
  `build_description` for the matchers that have one sentence of their own, `not_` — in the variant that
  negates IN PLACE and restores afterwards (flip; inner; flip) —, `hide_result_details` and
  `override_description`.  Alone, that variant yields exactly `describe` (so it passes every single-threaded
  test); on a shared object it does not (refutation in `Props/C05Desc.lean`).

  Core Lean only.
-/
import LccModel.Model.Matcher

namespace LccModel.Interleave
open LccModel.Matcher

abbrev Heap := Nat → Tr

structure Thread (S : Type) where
  step : S → Heap → Option (S × Heap)
  owns : Nat → Bool

structure Cfg (S : Type) where
  st : Nat → S
  heap : Heap

/-- thread `i` takes one step (nothing happens if it has finished) -/
def stepSys {S : Type} (T : Nat → Thread S) (c : Cfg S) (i : Nat) : Cfg S :=
  match (T i).step (c.st i) c.heap with
  | none => c
  | some (σ, h) => { st := fun j => if j = i then σ else c.st j, heap := h }

def runSched {S : Type} (T : Nat → Thread S) : Cfg S → List Nat → Cfg S
  | c, [] => c
  | c, i :: rest => runSched T (stepSys T c i) rest

/-- one thread alone: at most `k` steps -/
def runAlone {S : Type} (T : Thread S) : Nat → S → Heap → S × Heap
  | 0, σ, h => (σ, h)
  | k + 1, σ, h =>
    match T.step σ h with
    | none => (σ, h)
    | some (σ', h') => runAlone T k σ' h'

/-! ### the instruction machine of a description program -/

inductive Instr
  | emit (r : Nat) (d : Str)     -- `transformation(d)` on object r
  | flip (r : Nat)               -- `transformation.negative = not transformation.negative` on object r
deriving DecidableEq, Repr

def Instr.obj : Instr → Nat
  | .emit r _ => r
  | .flip r => r

/-- private state of a description thread: what is left to do, the sentences produced so far -/
structure PS where
  todo : List Instr
  out : List Str
deriving DecidableEq, Repr

/-- one instruction; an instruction on an object the thread does not own is never executed (the thread is stuck) -/
def pstep (owns : Nat → Bool) : PS → Heap → Option (PS × Heap)
  | ⟨[], _⟩, _ => none
  | ⟨i :: is, out⟩, h =>
    if owns i.obj then
      match i with
      | .emit r d => some (⟨is, out ++ [(h r).apply d]⟩, h)
      | .flip r => some (⟨is, out⟩, fun x => if x = r then (h r).neg else h x)
    else none

def progThread (owns : Nat → Bool) : Thread PS := { step := pstep owns, owns := owns }

/-- the whole program at once (what the thread computes when nothing interferes) -/
def execAll : List Instr → Heap → List Str → List Str × Heap
  | [], h, out => (out, h)
  | .emit r d :: is, h, out => execAll is h (out ++ [(h r).apply d])
  | .flip r :: is, h, out => execAll is (fun x => if x = r then (h r).neg else h x) out

/-- the sentence `transformation(…)` is applied to, for the matchers that have exactly one sentence of their
    own and describe no sub-matcher -/
def sentence : M → Option Str
  | .equalTo e => some (c!"to be equal to " ++ jsonify e)
  | .cmp op e => some (c!"to be " ++ op.words ++ c!" " ++ jsonify e)
  | .between lo hi => some (c!"to be between " ++ lo.pyStr ++ c!" and " ++ hi.pyStr)
  | .isNone => some c!"to be null"
  | .startsWith s => some (c!"to start with \"" ++ s ++ c!"\"")
  | .endsWith s => some (c!"to end with \"" ++ s ++ c!"\"")
  | .containsString s => some (c!"to contain \"" ++ s ++ c!"\"")
  | .hasItems vs => some (c!"to have items " ++ jsonifyItems vs)
  | .hasOnlyItems vs => some (c!"to have only items " ++ jsonifyItems vs)
  | .isIn vs => some (c!"to be in " ++ jsonifyItems vs)
  | .hasKey p => some (c!"to have entry " ++ pathDesc p)
  | .isTypeAny ty => some (c!"to be " ++ ty.name)
  | .anything w => some w.text
  | .described d _ => some d
  | _ => none

/-- the fragment: one-sentence matchers under any nesting of `not_` / `hide_result_details` -/
def simple : M → Bool
  | .not m => simple m
  | .hidden m => simple m
  | m => (sentence m).isSome

/-- `build_description` on transformer object `r`, `Not` negating IN PLACE: flip, describe the inner matcher
    with the same object, flip back -/
def prog (r : Nat) : M → List Instr
  | .not m => [.flip r] ++ prog r m ++ [.flip r]
  | .hidden m => prog r m
  | m => match sentence m with
    | some d => [.emit r d]
    | none => []

/-! ### the systems the C05 theorems are about -/

/-- thread `i` describes matcher `m i` on its OWN transformer object `obj i` (`Not` negating in place and restoring) -/
def ownObjects (obj : Nat → Nat) : Nat → Thread PS := fun i => progThread (fun r => r == obj i)

def startCfg (obj : Nat → Nat) (m : Nat → M) (h : Heap) : Cfg PS :=
  { st := fun i => ⟨prog (obj i) (m i), []⟩, heap := h }

/-- the two threads of the refutation: both work on transformer object 0 (a module-level default transformer) -/
def sharedObject : Nat → Thread PS := fun _ => progThread (fun r => r == 0)

/-- thread 0 describes `not_(equal_to(3))`, every other thread `equal_to(3)`, all on object 0 -/
def sharedCfg : Cfg PS :=
  { st := fun i => if i = 0 then ⟨prog 0 (.not (.equalTo (.int 3))), []⟩ else ⟨prog 0 (.equalTo (.int 3)), []⟩
    heap := fun _ => Tr.plain }

end LccModel.Interleave

/-
  Who receives what — model of `EventManager.add_listener` / `subscribe_to_event` / `EventType.handle` (lemoncheesecake/events.py):

      def add_listener(self, listener):
          for event_name in self._event_types:
              handler = getattr(listener, "on_%s" % event_name, None)
              if handler and callable(handler):  self.subscribe_to_event(event_name, handler)
      class EventType:  def handle(self, event):  for handler in self._handlers: handler(event)

  The handlers are looked up ON THE OBJECT that is added (`getattr(listener, …)`): two listeners of one class may handle
  different sets of events (handlers set per instance, e.g. by a backend session according to its configuration).
  A listener is its identity and the predicate "this object has a callable `on_<name>`"; its class is a ghost field the
  code never reads.  Core Lean only.
-/
namespace LccModel.Listeners

structure Listener where
  id : Nat                      -- object identity
  cls : Nat                     -- its class (ghost)
  handles : String → Bool       -- `callable(getattr(listener, "on_" ++ name, None))`

structure EM where
  types : List String           -- `_event_types` (registered event names, registration order)
  subs : List (String × Nat)    -- subscriptions (event name, listener id), in subscription order

def EM.init (types : List String) : EM := { types := types, subs := [] }

/-- `add_listener` -/
def addListener (em : EM) (l : Listener) : EM :=
  { em with subs := em.subs ++ (em.types.filter l.handles).map (fun n => (n, l.id)) }

def addAll (em : EM) : List Listener → EM
  | [] => em
  | l :: ls => addAll (addListener em l) ls

/-- `EventType.handle`: the listeners whose handler is called for an event of that name, in call order -/
def dispatch (em : EM) (name : String) : List Nat := (em.subs.filter (fun s => s.1 == name)).map (fun s => s.2)

/-- the stream one listener receives when `fired` (event index, event name) is handled: one copy per call of its handler -/
def received (em : EM) (i : Nat) (fired : List (Nat × String)) : List (Nat × String) :=
  fired.flatMap (fun e => ((dispatch em e.2).filter (fun j => j == i)).map (fun _ => e))

/-! The variant with a per-CLASS memo of the handled event names (computed from the first instance of the class ever
    added — by any event manager of the process: `memo` is the process-wide state) -/
def addListenerMemo (memo : List (Nat × List String)) (em : EM) (l : Listener) : List (Nat × List String) × EM :=
  match memo.find? (fun m => m.1 == l.cls) with
  | some m => (memo, { em with subs := em.subs ++ m.2.map (fun n => (n, l.id)) })
  | none =>
    let names := em.types.filter l.handles
    (memo ++ [(l.cls, names)], { em with subs := em.subs ++ names.map (fun n => (n, l.id)) })

def addAllMemo (memo : List (Nat × List String)) (em : EM) : List Listener → List (Nat × List String) × EM
  | [] => (memo, em)
  | l :: ls => let r := addListenerMemo memo em l; addAllMemo r.1 r.2 ls

end LccModel.Listeners

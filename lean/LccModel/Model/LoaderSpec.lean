/-
  Specification side of C13: what a layout *declares* — the list of visible tests with their paths,
  metadata and parameters, in declaration order — written as a direct recursion over the layout:
  no suite tree, no exceptions, no uniqueness bookkeeping.  `Props/C13.lean` proves that whenever the
  loader model (`Model/Loader.lean`) succeeds, flattening its tree gives exactly this list.

  Also: the decidable acceptance predicates (`acceptsTests`, `acceptsCls`, `acceptsModule`) that say
  precisely which layouts `load_suite_from_class` / `load_suite_from_file` reject.
  Core Lean only (the driver prints `declared…` next to the model's tree).
-/
import LccModel.Model.Loader

namespace LccModel.Loader

/-! ## Declared tests of one class / module body -/

/-- `str.format` with an absent key rendered as the empty text.  Only used by the specification; the
    loader model raises `KeyError` there, and `Props/C13.lean` shows (`templates_ok_of_load`) that a
    successful load never meets an absent key, so the default is never what makes a theorem true. -/
def renderSegD (ps : Params) : Seg → String
  | .lit s => s
  | .field k =>
    match ps.lookup k with
    | some v => v.render
    | none => ""

def renderD (ps : Params) : List Seg → String
  | [] => ""
  | s :: rest => renderSegD ps s ++ renderD ps rest

/-- The declared name and description of the `nb`-th parameter set (1-based). -/
def namingD (n : Naming) (name desc : String) (ps : Params) (nb : Nat) : String × String :=
  match n with
  | .default => (name ++ "_" ++ toString nb, desc ++ " #" ++ toString nb)
  | .format nt dt => (renderD ps nt, renderD ps dt)

/-- One test per parameter set, in order, numbered from `nb`. -/
def declSets (b : Test) (n : Naming) : Nat → List Params → List Test
  | _, [] => []
  | nb, ps :: rest =>
    { b with name := (namingD n b.name b.desc ps nb).1, desc := (namingD n b.name b.desc ps nb).2, params := ps }
      :: declSets b n (nb + 1) rest

/-- The tests one `@lcc.test` symbol declares, whatever its visibility. -/
def expansions (d : TestDecl) : List Test :=
  match d.param with
  | none => [baseTest d]
  | some (sets, n) => declSets (baseTest d) n 1 sets

/-- … and what of it is visible: everything, or nothing. -/
def declDecl (d : TestDecl) : List Test := if d.vis.visible then expansions d else []

/-- Visible tests of a class or module body, in discovery (rank) order. -/
def declTests (ds : List TestDecl) : List Test := (discoverTests ds).flatMap declDecl

def flattenKeyed (l : List (Keyed (List Entry))) : List Entry :=
  (discover Keyed.attr Keyed.rank l).flatMap Keyed.val

mutual
/-- Entries declared *below* a class (paths relative to the class), whatever the class's own visibility:
    first its test methods, then its visible nested classes, each in rank order. -/
def declClsBody : Cls → List Entry
  | .mk _ tests subs => testLeaves (declTests tests) ++ flattenKeyed (declClsList subs)
/-- Per class symbol: nothing if the class is hidden, otherwise its body under its name. -/
def declClsList : List Cls → List (Keyed (List Entry))
  | [] => []
  | c :: cs =>
    ⟨c.head.attr, c.head.rank,
      if c.head.vis.visible then underSuite c.head.suiteName (declClsBody c) else []⟩ :: declClsList cs
end

/-- Entries a class declares including its own name; none if it is hidden. -/
def declCls (c : Cls) : List Entry :=
  if c.head.vis.visible then underSuite c.head.suiteName (declClsBody c) else []

def declModuleBody (m : Module) : List Entry :=
  testLeaves (declTests m.tests) ++ flattenKeyed (declClsList m.classes)

/-! ## Files and directories -/

def discoverClasses (cs : List Cls) : List Cls := discover (fun c => c.head.attr) (fun c => c.head.rank) cs

def visibleClasses (cs : List Cls) : List Cls := (discoverClasses cs).filter (fun c => c.head.vis.visible)

/-- The documented collapse: a module without `SUITE`, without visible test functions, whose only
    visible class is named like the file *is* that class. -/
def collapsesTo (m : Module) : Option Cls :=
  match m.info, declTests m.tests, visibleClasses m.classes with
  | none, [], [c] => if c.head.suiteName = m.stem then some c else none
  | _, _, _ => none

/-- A top-level suite of a directory as the specification sees it. -/
structure Item where
  key : Key
  name : String
  rank : Int
  body : List Entry

/-- What a module file declares at its directory's level (`none`: a hidden module). -/
def declFile (m : Module) : Option Item :=
  match collapsesTo m with
  | some c => some ⟨.file m.stem, c.head.suiteName, c.head.rank, declClsBody c⟩
  | none => if m.visible then some ⟨.file m.stem, m.suiteName, m.suiteRank, declModuleBody m⟩ else none

def Item.updateBody (k : Key) (es : List Entry) : List Item → List Item
  | [] => []
  | it :: rest => if it.key = k then { it with body := it.body ++ es } :: rest else it :: Item.updateBody k es rest

/-- Module + companion directory merge; directory without (visible) module ⇒ a suite of that name,
    rank 0. -/
def mergeSpec (items : List Item) : List (String × List Entry) → List Item
  | [] => items
  | (dn, es) :: rest =>
    if items.any (fun it => it.key = Key.file dn) then mergeSpec (Item.updateBody (Key.file dn) es items) rest
    else mergeSpec (items ++ [⟨.dir dn, dn, 0, es⟩]) rest

/-- Order of the suites of one directory: by rank, ties by name, remaining ties by listing order
    (files alphabetically, then module-less directories alphabetically).  Suites declaring no visible
    test are dropped. -/
def orderItems (items : List Item) : List Item :=
  sortBy (fun a b => intLe a.rank b.rank)
    (sortBy (fun a b => strLe a.name b.name) (items.filter (fun it => !it.body.isEmpty)))

def itemsEntries (items : List Item) : List Entry := items.flatMap (fun it => underSuite it.name it.body)

mutual
/-- `declaredVisiblePaths` of a directory. -/
def declDir : Dir → List Entry
  | .mk _ mods dirs =>
    itemsEntries (orderItems
      (mergeSpec ((sortMods mods).filterMap declFile) (sortBy (fun a b => strLe a.1 b.1) (declDirList dirs))))
def declDirList : List Dir → List (String × List Entry)
  | [] => []
  | d :: ds => (d.name, declDir d) :: declDirList ds
end

/-- `declaredVisiblePaths` for `load_suites_from_files`. -/
def declFiles (mods : List Module) : List Entry := itemsEntries ((sortMods mods).filterMap declFile)

/-! ## Which layouts are accepted -/

def segOk (ps : Params) : Seg → Bool
  | .lit _ => true
  | .field k => (ps.lookup k).isSome

def namingOk (n : Naming) (ps : Params) : Bool :=
  match n with
  | .default => true
  | .format nt dt => nt.all (segOk ps) && dt.all (segOk ps)

/-- Every `{key}` of the naming templates is a key of every parameter set (hidden tests included). -/
def templatesOk (d : TestDecl) : Bool :=
  match d.param with
  | none => true
  | some (sets, n) => sets.all (namingOk n)

def nodupB [DecidableEq α] : List α → Bool
  | [] => true
  | a :: as => !as.contains a && nodupB as

/-- The test symbols of one body are accepted iff no template key is missing and the *visible*
    expanded tests have pairwise distinct names and pairwise distinct descriptions. -/
def acceptsTests (ds : List TestDecl) : Bool :=
  ds.all templatesOk && nodupB ((declTests ds).map (·.name)) && nodupB ((declTests ds).map (·.desc))

mutual
/-- `load_suite_from_class c` succeeds iff: the constructor does not raise; the test methods are
    accepted; *every* nested class (hidden ones too) is accepted; the *visible* nested classes have
    pairwise distinct names and pairwise distinct descriptions. -/
def acceptsCls : Cls → Bool
  | .mk h tests subs =>
    !h.ctorFails && acceptsTests tests && acceptsClsList subs
      && nodupB ((visibleClasses subs).map (fun c => c.head.suiteName))
      && nodupB ((visibleClasses subs).map (fun c => c.head.suiteDesc))
def acceptsClsList : List Cls → Bool
  | [] => true
  | c :: cs => acceptsCls c && acceptsClsList cs
end

def acceptsModule (m : Module) : Bool :=
  !m.broken && acceptsTests m.tests && acceptsClsList m.classes
    && nodupB ((visibleClasses m.classes).map (fun c => c.head.suiteName))
    && nodupB ((visibleClasses m.classes).map (fun c => c.head.suiteDesc))

end LccModel.Loader

/-
  `SuiteObj` — what the suite OBJECT looks like to lemoncheesecake: model of
  `helpers/introspection.py` (`get_object_attributes` on a class instance: `dir()` + `getattr`, names
  starting with `__` and properties left out) and of the two places of `suite/core.py` / `suite/loader.py`
  that read it: `Suite._load_injected_fixtures(obj)` (which attributes are `lcc.inject_fixture()` markers,
  and which fixture each stands for; the attribute-LAYER view of what `Model/Inject.lean` — C14 — describes by a flat
  attribute list) and the discovery of the hooks (`hasattr(suite_obj, hook_name)`).

  The object is given by its attribute LAYERS, as Python stores them: the instance `__dict__` (what the
  `__init__`s assigned) and the `__dict__`s of the classes of its MRO — the suite class itself first, then
  its base / mixin classes.  Keys are the STORED names (private names already mangled: `__x` written in
  `class S` is stored as `_S__x`).  `getattr(obj, a)` finds a data descriptor of the class (a property)
  first, then the instance dict, then the class dicts in MRO order; `dir(obj)` lists the union of all keys,
  sorted.  Where a marker is written — class body, a base class, a mixin, `__init__` — only matters through
  this lookup.  Core Lean only.
-/
import LccModel.Model.Loader

namespace LccModel.SuiteObj
open LccModel.Loader (sortBy strLe orDefault)

inductive AttrKind where
  | inject (name : Option String)     -- an `InjectedFixture(fixture_name)` object
  | method (params : List String)      -- a function (bound method on the instance): its parameters after `self`
  | property                           -- a `property` object in a class dict
  | other                              -- anything else
  deriving DecidableEq, Repr

abbrev Layer := List (String × AttrKind)

/-- the suite object as `getattr` / `dir` see it -/
structure Obj where
  inst : Layer := []          -- instance `__dict__`
  mro : List Layer := []      -- class `__dict__`s, MRO order (the class itself first)
  deriving DecidableEq, Repr

/-- `d.get(a)` on one dict -/
def layerGet (l : Layer) (a : String) : Option AttrKind := (l.find? (fun kv => kv.1 == a)).map (·.2)

/-- the first class of the MRO whose dict has the name (`_get_unbound_object_attr`) -/
def classLookup : List Layer → String → Option AttrKind
  | [], _ => none
  | l :: ls, a =>
    match layerGet l a with
    | some k => some k
    | none => classLookup ls a

/-- `_is_property(obj, a)` -/
def isProperty (o : Obj) (a : String) : Bool := classLookup o.mro a == some .property

/-- `getattr(obj, a)`: a property of the class wins (data descriptor), then the instance dict, then the classes -/
def lookup (o : Obj) (a : String) : Option AttrKind :=
  if isProperty o a then some .property
  else match layerGet o.inst a with
    | some k => some k
    | none => classLookup o.mro a

/-- `dir(obj)`: every key of every layer, once, sorted (the dunder names of `object` are filtered out just below anyway) -/
def dirNames (o : Obj) : List String :=
  sortBy strLe ((o.inst ++ o.mro.flatten).map (·.1)).eraseDups

/-- the filter of `_get_class_object_attributes` -/
def visible (o : Obj) (a : String) : Bool := !(a.startsWith "__") && !(isProperty o a)

/-- `get_object_attributes(obj)` for a class instance: (name, value) in `dir()` order -/
def attributes (o : Obj) : List (String × AttrKind) :=
  (dirNames o).filterMap (fun a => if visible o a then (lookup o a).map (fun k => (a, k)) else none)

/-- `d[k] = v` on an insertion-ordered dict (`md.properties[key] = value` of `@lcc.prop`) -/
def dictSet (d : List (String × String)) (k v : String) : List (String × String) :=
  if d.any (fun kv => kv.1 == k) then d.map (fun kv => if kv.1 == k then (k, v) else kv) else d ++ [(k, v)]

/-- `d.setdefault(k, []).append(v)` on an insertion-ordered dict: extend the entry in place, or append a new one -/
def dictAdd (d : List (String × List String)) (k v : String) : List (String × List String) :=
  if d.any (fun kv => kv.1 == k) then d.map (fun kv => if kv.1 == k then (kv.1, kv.2 ++ [v]) else kv) else d ++ [(k, [v])]

/-- one turn of the loop of `_load_injected_fixtures` (as repaired by D35, fix 1124d50: several attributes may inject the
    same fixture): `fixtures.setdefault(attr.fixture_name or attr_name, []).append(attr_name)` -/
def injectStep (acc : List (String × List String)) (av : String × AttrKind) : List (String × List String) :=
  match av.2 with
  | .inject n => dictAdd acc (orDefault n av.1) av.1
  | _ => acc

/-- **`Suite._load_injected_fixtures(obj)`**: fixture name ↦ the attribute names that inject it, in dict / `dir()` order -/
def injectedOf (o : Obj) : List (String × List String) := (attributes o).foldl injectStep []

/-- `Suite.get_injected_fixture_names()` -/
def injectedNames (o : Obj) : List String := (injectedOf o).map (·.1)

/-- `hasattr(suite_obj, hook)` and, for a method, `get_callable_args` of it -/
def hookParams (o : Obj) (hook : String) : Option (List String) :=
  match lookup o hook with
  | some (.method ps) => some ps
  | some _ => some []
  | none => none

end LccModel.SuiteObj

/-
  M13b — what a run finds in its report directory when it STARTS (C10: "while a run is in progress the report file,
  whenever it exists, … describes a prefix of the final report" — the file may not be a previous run's).

    `cli/commands/run.py:create_report_dir(cli_args, project)`
        report_dir = cli_args.report_dir or os.environ.get("LCC_REPORT_DIR")
        if report_dir:  os.mkdir(report_dir)           -- plain mkdir: a path that exists (directory, empty or not, or a
                                                          file) or whose parent is missing gives OSError; the exception
                                                          OBJECT is then *returned* in place of the path (observation O1):
                                                          `Session.__init__` does `os.path.join(report_dir, …)` → TypeError,
                                                          before any session, event or file exists
        else:           project.create_report_dir()    -- rotation: a new `report` directory (C19)

  The main theorem of C10 (`C10.file_always_loadable_prefix`) runs the file session on `FS.empty`: that this is the file
  system every run really starts on is what is modelled (on top of the run-sequence model `Model/RunSeq.lean`, whose
  `createDir` is this very function) and proved here (`Props/C10RunDir.lean`).
  Core Lean only.
-/
import LccModel.Model.RunSeq
import LccModel.Model.Saving

namespace LccModel.RunStart
open LccModel.RunSeq LccModel.Saving

/-- what is at the path given by `--report-dir` / `$LCC_REPORT_DIR` when `lcc run` starts -/
inductive PathState
  | missing            -- nothing there, the parent directory exists
  | parentMissing      -- nothing there, the parent is missing too (`a/b/report`)
  | emptyDir           -- an existing, empty directory
  | filledDir          -- an existing directory holding the report files of a previous run
  | file               -- a regular file
deriving DecidableEq, Repr, Inhabited

/-- what `create_report_dir(cli_args, project)` gives back -/
inductive DirOutcome
  | created            -- `os.mkdir` succeeded: a NEW directory, its path is returned
  | noDir              -- `os.mkdir` raised OSError: no path is returned (the exception object is): the run dies with a TypeError
                       -- in `Session.__init__` — no session, no event, nothing written or removed
  | project            -- neither the option nor the variable: `project.create_report_dir()`
deriving DecidableEq, Repr, Inhabited

/-- `os.mkdir(path)` succeeds -/
def mkdirOk : PathState → Bool
  | .missing => true
  | _ => false

/-- a value of the option / the variable: `none` = not given, `some none` = the empty string, `some (some p)` = a path in state `p` -/
abbrev Given := Option (Option PathState)

/-- `cli_args.report_dir or os.environ.get("LCC_REPORT_DIR")` (Python truthiness: the empty string counts as absent) -/
def chosenPath (cli env : Given) : Option PathState × Source :=
  match cli.join with
  | some p => (some p, .cli)
  | none =>
    match env.join with
    | some p => (some p, .env)
    | none => (none, .project)

def startOutcome (cli env : Given) : DirOutcome × Source :=
  match chosenPath cli env with
  | (some p, src) => (if mkdirOk p then .created else .noDir, src)
  | (none, src) => (.project, src)

/-- the directory `d` (as the run-sequence model names it) holds report files -/
def holdsReport (s : RunSeq.St) : DirRef → Bool
  | .fs m => s.filled m
  | .ext m => s.ofilled m

/-- the report file the file session of a run finds: nothing in a directory without report files, the text `stale`
    written by an earlier run otherwise -/
def startFS (holds : Bool) (stale : Text) : FS :=
  if holds then { file := some stale, tmp := none } else FS.empty

/-- NOT the code — the lenient variant `os.makedirs(report_dir, exist_ok=True)`: an explicit directory that exists is used
    as it is (kept to state what the plain `os.mkdir` excludes) -/
def createDirLenient (c : Cfg) (s : RunSeq.St) : Option (RunSeq.St × Option DirRef) :=
  match explicitTarget c.cli c.env with
  | some (.other k) =>
    match s.other k with
    | some m => some (s, some (.ext m))
    | none => createDir c s
  | _ => createDir c s

/-- one run as `C10.cli` drives it: → (the directory it got, whether that directory held report files at that moment) -/
def startOf (c : Cfg) (s : RunSeq.St) : Option (DirRef × Bool) :=
  match createDir c s with
  | some (s1, some d) => some (d, holdsReport s1 d)
  | _ => none

end LccModel.RunStart

/-
  M10 (c) — the FILTERED views of a report:
    `testtree.py:filter_suites`, `BaseSuite.filter`, `reporting/report.py:SuiteResult.filter / is_empty`   pruning a result tree
    `reporting/report.py:ReportStats.from_suites`                                                      statistics of a forest
    `reporting/backends/console.py:print_report_as_test_run`                                           `lcc report --short [filter]`

  The filter itself is a parameter (`RFilter`: one decision per test and per suite setup / teardown result, with the
  path of the suite): what `ResultFilter.__call__` decides is C12's subject, the views must agree with the tests
  WHATEVER the decisions are.

  `ReportStats.from_suites` computes a duration when the report is not parallelized; since the repair D34 it is `None`
  (not an exception) on a forest whose last result is still in progress or that holds no result.
  Core Lean only.
-/
import LccModel.Model.Views

namespace LccModel.Views
open LccModel.Report LccModel.Writer

/-- the decisions of a result filter: `test p t` for the test `t` of the suite of path `p`, `phase p td r` for the
    setup (`td = false`) / teardown (`td = true`) result `r` of that suite -/
structure RFilter where
  test : Path → TestResult → Bool
  phase : Path → Bool → Result → Bool

/-- the filter `lcc report --short` uses when no criterion is given: every result is kept -/
def RFilter.all : RFilter := { test := fun _ _ => true, phase := fun _ _ _ => true }

mutual
/-- `SuiteResult.is_empty()`: no test, no setup, no teardown, and only empty sub-suites -/
def suiteIsEmpty : SuiteResult → Bool
  | .mk _ _ _ su td ts ss => ts.isEmpty && su.isNone && td.isNone && suitesAreEmpty ss
def suitesAreEmpty : List SuiteResult → Bool
  | [] => true
  | s :: ss => suiteIsEmpty s && suitesAreEmpty ss
end

mutual
/-- `SuiteResult.filter(result_filter)` on a suite seen through the sorted accessors; `parent` = path of the parent -/
def filterSuite (f : RFilter) (parent : Path) : SuiteResult → SuiteResult
  | .mk md st en su td ts ss =>
    .mk md st en (su.filter (f.phase (parent ++ [md.name]) false)) (td.filter (f.phase (parent ++ [md.name]) true))
      (ts.filter (f.test (parent ++ [md.name]))) (filterSuiteList f (parent ++ [md.name]) ss)
/-- `filter_suites(suites, result_filter)`: filter every suite, drop the empty ones -/
def filterSuiteList (f : RFilter) (parent : Path) : List SuiteResult → List SuiteResult
  | [] => []
  | s :: ss =>
    if suiteIsEmpty (filterSuite f parent s) then filterSuiteList f parent ss
    else filterSuite f parent s :: filterSuiteList f parent ss
end

/-- the tests of a forest with the path of their suite, in `flatten_tests` order -/
def testsWithSuitePath (parent : Path) (ss : List SuiteResult) : List (Path × TestResult) :=
  (flattenListWithPath parent ss).flatMap (fun ps => ps.2.tests.map (fun t => (ps.1, t)))

/-- `flatten_tests(suites)` -/
def forestTests (ss : List SuiteResult) : List TestResult := (flattenSuites ss).flatMap (·.tests)

/-- first / last element of `flatten_results(suites)` -/
def firstStart (rs : List AnyResult) : Option (Option Time) := rs.head?.map (·.result.startTime)
def lastEnd (rs : List AnyResult) : Option (Option Time) := rs.getLast?.map (·.result.endTime)

/-- `ReportStats.from_suites(suites, parallelized)` over a forest in accessor order — the numbers:
    `from_results(list(flatten_results(suites)), …)`; every test of the forest counts, finished or not -/
def statsFromSuites (ss : List SuiteResult) : Stats :=
  let tests := (flattenResults ss).filterMap anyIsTest
  { total := tests.length, passed := countStatus .passed tests, failed := countStatus .failed tests,
    skipped := countStatus .skipped tests, disabled := countStatus .disabled tests }

/-- … and whether it knows a duration: `_get_duration(results[0].start_time, results[-1].end_time) if results and not
    parallelized else None` — `None` (printed "n/a") for a parallelized report, an empty forest, and while the first
    start time or the LAST end time is missing (a run still in progress).  (Repaired by D34: the subtraction used to
    be unguarded and raised `TypeError` / `IndexError` in those cases.) -/
def fromSuitesDurationKnown (parallelized : Bool) (ss : List SuiteResult) : Bool :=
  !parallelized &&
    match firstStart (flattenResults ss), lastEnd (flattenResults ss) with
    | some (some _), some (some _) => true
    | _, _ => false

/-- outcome classes of a `from_suites` call (decision table `Generated/C20TablesCheck.lean`) -/
inductive FsOutcome
  | ok (total passed : Nat) (durationKnown : Bool)
  | typeError
  | indexError
deriving DecidableEq, Repr, Inhabited

/-- `Report.parallelized` -/
def parallelized (r : Report) : Bool := decide (r.nbThreads > 1) && decide ((allTests r).length > 1)

def summaryOf (s : Stats) : Summary :=
  { tests := s.total, successes := s.passed, failures := s.failed, skipped := nonZero s.skipped, disabled := nonZero s.disabled }

/-- what `lcc report --short` prints: one line per test of every kept suite that has tests (its status decides the
    label: OK / KO / --), then the summary (with a duration or "n/a") — or "No test found or no matching test in the
    report" (`summary = none`) -/
structure ShortView where
  lines : List (Path × TestResult)
  summary : Option Summary
  durationKnown : Bool

/-- `print_report_as_test_run(report, result_filter)`; `filt = none` is the falsy (criterion-less) filter:
    it keeps everything and the summary comes from `ReportStats.from_report` (duration = `Report.duration`).
    Total: no report, finished or not, makes it raise. -/
def shortReport (r : Report) (filt : Option RFilter) : ShortView :=
  let suites := filterSuiteList (filt.getD RFilter.all) [] (view r)
  let shown := (flattenListWithPath [] suites).filter (fun ps => !ps.2.tests.isEmpty)
  let lines := shown.flatMap (fun ps => ps.2.tests.map (fun t => (ps.1, t)))
  if shown.isEmpty then { lines := lines, summary := none, durationKnown := false }
  else match filt with
    | none => { lines := lines, summary := some (summaryOf (statsOf r)), durationKnown := r.startTime.isSome && r.endTime.isSome }
    | some _ => { lines := lines, summary := some (summaryOf (statsFromSuites suites)),
                  durationKnown := fromSuitesDurationKnown (parallelized r) suites }

end LccModel.Views

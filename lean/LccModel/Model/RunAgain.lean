/-
  Several runs of ONE loaded project in one process (`PreparedProject.create` once, `.run()` several times; a long-lived runner).

  What survives between two `run_suites` calls is the loaded project — suites, tests, fixture registry: the acceptor's `Ctx` — and
  nothing of the run context: `_run_suites` creates a new `RunContext` whose `__init__` binds `_aborted_session = False`,
  `_aborted_suites = set()` (and `TaskContext.__init__`: `_tasks_aborted = False`); the session (verdicts, `--stop-on-failure`'s
  failure flag) and the event manager's pending failure are created per run as well.  `keep` below is the general shape "what the next
  run's context starts with, given the flags the previous context ended with"; `nextFlags` is what the real code does (tied to it by
  the table `freshContextTable`, `Generated/C08TablesCheck.lean`, and by the `again` stream of harness/props/_multirun.py).
-/
import LccModel.Model.RunAccept

namespace LccModel.RunAgain
open LccModel.RunAccept

/-- the flags a new run starts with: none, whatever the previous run's context ended with -/
def nextFlags (_prev : Flags) : Flags := Flags.none

/-- the acceptor started with the context flags `f0` already set (definitely) -/
def replayWith (c : Ctx) (f0 : Flags) (recs : List Rec) : Outcome :=
  replayFrom c { G.init c with defF := f0, startedEff := f0 } 0 recs

/-- consecutive runs of one process over the same loaded project; `keep` = what of a run's final context flags the next
    run's context starts with -/
def runs (keep : Flags → Flags) (c : Ctx) : Flags → List (List Rec) → List Outcome
  | _, [] => []
  | f, r :: rs =>
    let o := replayWith c f r
    o :: runs keep c (keep o.state.defF) rs

/-- the real process: the first run starts with no flag, every later one with `nextFlags` of its predecessor's -/
def process (c : Ctx) (traces : List (List Rec)) : List Outcome := runs nextFlags c Flags.none traces

end LccModel.RunAgain

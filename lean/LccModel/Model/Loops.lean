/-
  Loops that may raise: the two shapes every validation routine of the code has
  (`for a in l: check(a)` and a loop threading an accumulator), stopping at the first error.
  Shared by M6 `Fixture`, M7 `Deps` and the metadata-policy model.  Core Lean only.
-/
namespace LccModel.Loops

/-- `for a in l: f(a)` where `f` may raise: stops at the first error. -/
def forE {α ε : Type} (l : List α) (f : α → Except ε Unit) : Except ε Unit :=
  match l with
  | [] => .ok ()
  | a :: as => match f a with
    | .error e => .error e
    | .ok () => forE as f

/-- a loop threading an accumulator, stopping at the first error -/
def foldE {α β ε : Type} (f : β → α → Except ε β) (l : List α) (b : β) : Except ε β :=
  match l with
  | [] => .ok b
  | a :: as => match f b a with
    | .error e => .error e
    | .ok b' => foldE f as b'


/-- equality of results is decidable (used by the concrete examples and refutation witnesses) -/
instance {ε α : Type} [DecidableEq ε] [DecidableEq α] : DecidableEq (Except ε α)
  | .ok a, .ok b => if h : a = b then isTrue (by rw [h]) else isFalse (fun e => by injection e; contradiction)
  | .error a, .error b => if h : a = b then isTrue (by rw [h]) else isFalse (fun e => by injection e; contradiction)
  | .ok _, .error _ => isFalse (fun e => by cases e)
  | .error _, .ok _ => isFalse (fun e => by cases e)

end LccModel.Loops

/-
  M11b — sequences of RUNS (`lcc run`), the layers above `reportdir.py`:

    `cli/commands/run.py:create_report_dir(cli_args, project)`   `--report-dir` / `$LCC_REPORT_DIR` / the project's
                                                                `create_report_dir()`
    `project.py:Project.create_report_dir`                      default implementation = rotation with the default
                                                                limit (20); overrides calling the rotation with their
                                                                own limit (or none)
    `cli/commands/run.py:run_suites_from_project`               order of the steps: filter, backends, saving strategy
                                                                (may raise BEFORE the report dir exists), report dir,
                                                                number of threads (may raise AFTER it exists: the run
                                                                leaves its directory empty), run (the file-producing
                                                                backends write into the directory; `--reporting
                                                                console` leaves it empty)

  The file system part is the M11 state (`ReportDir.St`: `report/` and `reports/report-<n>` identified by the marker of
  the run that created the directory); on top of it: which directories hold report files (`filled`), and the report
  directories given explicitly outside the default location (`other`).  What lives in the Python process between two
  runs (the `Project` object, the parsed `cli_args` namespace) is NOT part of the state: the code reads them and
  never writes them, so a run is a function of the file system and of its configuration only — the differential
  stream `C19.runs` drives the real code with re-used objects to check exactly that.
  Core Lean only.
-/
import LccModel.Model.ReportDir

namespace LccModel.RunSeq
open LccModel.ReportDir

/-- a value of `--report-dir` / `$LCC_REPORT_DIR` -/
inductive Target
  | empty                 -- the empty string (falsy)
  | defaultLoc            -- the path of the default location `<project>/report` itself
  | other (k : Nat)       -- the k-th path outside `<project>/report` and `<project>/reports`
deriving DecidableEq, Repr, Inhabited

/-- where the report directory comes from -/
inductive Source | cli | env | project
deriving DecidableEq, Repr, Inhabited

def truthy : Option Target → Option Target
  | some .empty => none
  | t => t

/-- `report_dir = cli_args.report_dir or os.environ.get("LCC_REPORT_DIR")`, `if report_dir: … else: project…` -/
def dirSource (cli env : Option Target) : Source :=
  if (truthy cli).isSome then .cli else if (truthy env).isSome then .env else .project

def explicitTarget (cli env : Option Target) : Option Target :=
  match truthy cli with
  | some t => some t
  | none => truthy env

/-- `Project.create_report_dir`: the default implementation or an override calling
    `create_report_dir_with_rotation(self.dir, archiving_limit=…)` -/
inductive ProjImpl
  | default
  | rotation (limit : Option Nat)
deriving DecidableEq, Repr, Inhabited

/-- `DEFAULT` of `create_report_dir_with_rotation(top_dir, archiving_limit=20)` -/
def defaultLimit : Nat := 20

def ProjImpl.limit : ProjImpl → Option Nat
  | .default => some defaultLimit
  | .rotation l => l

/-- how far `run_suites_from_project` gets -/
inductive Fate
  | failsBefore      -- raises before `create_report_dir` (invalid filter / backend / `--save-report` expression)
  | abortsAfter      -- raises right after it (`get_nb_threads`: invalid `$LCC_THREADS`, threads on a non-threaded project)
  | completes
deriving DecidableEq, Repr, Inhabited

structure Cfg where
  cli : Option Target          -- `--report-dir`
  env : Option Target          -- `$LCC_REPORT_DIR`
  impl : ProjImpl
  writes : Bool                -- a file-producing reporting backend is active (json, html, xml, junit): the run leaves files
  fate : Fate
deriving DecidableEq, Repr, Inhabited

structure St where
  fs : ReportDir.St
  filled : Nat → Bool          -- the directory created by run `m` at the default location holds report files
  other : Nat → Option Nat     -- explicit path k ↦ marker of the directory there (own numbering)
  onext : Nat
  ofilled : Nat → Bool

def init : St := { fs := ReportDir.init, filled := fun _ => false, other := fun _ => none, onext := 1, ofilled := fun _ => false }

/-- the directory a run works in -/
inductive DirRef
  | fs (m : Nat)         -- `<project>/report`, created by this run with marker `m`
  | ext (m : Nat)        -- an explicit directory outside, marker `m`
deriving DecidableEq, Repr, Inhabited

/-- `create_report_dir(cli_args, project)`: the new state and the directory, `none` when no directory could be created
    (`os.mkdir` of an explicit, existing directory fails; nothing is touched).  Outer `none`: the rotation is stuck
    (never happens: `C19.history_never_stuck`). -/
def createDir (c : Cfg) (s : St) : Option (St × Option DirRef) :=
  match explicitTarget c.cli c.env with
  | none =>
    match ReportDir.run c.impl.limit s.fs with
    | none => none
    | some fs' => some ({ s with fs := fs' }, some (.fs s.fs.next))
  | some (.other k) =>
    match s.other k with
    | some _ => some (s, none)
    | none => some ({ s with other := fun j => if j = k then some s.onext else s.other j, onext := s.onext + 1 }, some (.ext s.onext))
  | some _ =>       -- the default location given explicitly: plain `os.mkdir`, no rotation
    match s.fs.current with
    | some _ => some (s, none)
    | none =>
      match ReportDir.run none s.fs with
      | none => none
      | some fs' => some ({ s with fs := fs' }, some (.fs s.fs.next))

/-- the file-producing backends write the report into the directory -/
def fill (d : DirRef) (s : St) : St :=
  match d with
  | .fs m => { s with filled := fun j => if j = m then true else s.filled j }
  | .ext m => { s with ofilled := fun j => if j = m then true else s.ofilled j }

/-- one `run_suites_from_project(project, cli_args)` -/
def run (c : Cfg) (s : St) : Option St :=
  match c.fate with
  | .failsBefore => some s
  | fate =>
    match createDir c s with
    | none => none
    | some (s1, none) => some s1
    | some (s1, some d) => if fate = .completes ∧ c.writes = true then some (fill d s1) else some s1

inductive Op
  | run (c : Cfg)
  | delete (n : Nat)            -- manual `rmtree reports/report-<n>`
  | deleteCurrent               -- manual `rmtree report`
  | deleteOther (k : Nat)       -- manual `rmtree` of an explicit directory
deriving Repr, DecidableEq

def step (s : St) : Op → Option St
  | .run c => run c s
  | .delete n => some { s with fs := ReportDir.delete n s.fs }
  | .deleteCurrent => some { s with fs := ReportDir.deleteCurrent s.fs }
  | .deleteOther k => some { s with other := fun j => if j = k then none else s.other j }

def runOps : St → List Op → Option St
  | s, [] => some s
  | s, op :: ops => match step s op with
    | none => none
    | some s' => runOps s' ops

/-- the operations on the M11 state a run-level operation amounts to -/
def project (s : St) : Op → List ReportDir.Op
  | .run c =>
    match c.fate with
    | .failsBefore => []
    | _ =>
      match explicitTarget c.cli c.env with
      | none => [.run c.impl.limit]
      | some (.other _) => []
      | some _ => if s.fs.current.isSome then [] else [.run none]
  | .delete n => [.delete n]
  | .deleteCurrent => [.deleteCurrent]
  | .deleteOther _ => []

end LccModel.RunSeq

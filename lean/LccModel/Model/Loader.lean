/-
  M9 `Loader` — executable model of `lemoncheesecake/suite/loader.py` (with the parts of
  `suite/builder.py`, `suite/core.py`, `testtree.py`, `helpers/moduleimport.py` and
  `helpers/introspection.py` it relies on).

  A *layout* is what a project's suites directory declares: directories containing module files and
  sub-directories; a module with or without a `SUITE` dict, module-level test functions and
  `@lcc.suite` classes; classes with test methods and nested suite classes; per item the Python
  attribute name, the optional `name=` / `description=`, the rank the global counter
  `Metadata._next_rank` gave it (or the explicit `rank=`), tags / properties / links,
  `@lcc.hidden` / `@lcc.visible_if`, `@lcc.disabled`, `@lcc.parametrized` with its parameter sets and
  naming scheme.

  `dir()` (alphabetical attribute listing), `glob`/`os.listdir` + `sorted` (alphabetical file
  listing), `inspect`, the import system and the rank counter are *represented by the layout*
  (trusted; validated on every run by the correspondence stream `C13.load`).

  The functions below follow loader.py statement by statement; every exception the loader can raise
  on a layout is an explicit `LoadErr`.  Core Lean only.
-/

namespace LccModel.Loader

/-! ## Layout (the declared program) -/

/-- A parameter value of a parametrized test (what `str.format` / `%d` render). -/
inductive PVal where
  | int (i : Int)
  | str (s : String)
  deriving DecidableEq, Repr

/-- `str(v)` as used by `"{k}".format(k=v)`. -/
def PVal.render : PVal → String
  | .int i => toString i
  | .str s => s

/-- One parameter set (a `dict`; keys pairwise distinct). -/
abbrev Params := List (String × PVal)

/-- A `str.format` template restricted to literal text and plain `{key}` fields. -/
inductive Seg where
  | lit (s : String)
  | field (k : String)
  deriving DecidableEq, Repr

/-- The two naming schemes builder.py implements: `_default_naming_scheme` and
    `_format_naming_scheme(name_fmt, description_fmt)`. -/
inductive Naming where
  | default
  | format (name desc : List Seg)
  deriving DecidableEq, Repr

/-! ### Python values as far as their *truth value* is concerned

  `@lcc.visible_if(condition)`: "the test or suite will only appear if the given callable return a
  true value".  The callable may return anything (`os.environ.get(...)` → `None` / a string,
  `len(...)` / `.count(...)` → an int, a list of enabled features, …); what decides is Python's truth
  protocol: `None`, `False`, numeric zeros, empty strings and empty containers are false; an instance
  is asked `__bool__`, else `__len__`, else it is true.  `PyVal` lists the value shapes the
  correspondence stream generates; containers and instances are abstracted to what the protocol looks
  at (the extracted table `Generated/C13Tables.lean` re-validates `truthy` against the real
  interpreter on every run). -/

/-- A Python `float` as far as `bool()` is concerned. -/
inductive PyFloat where
  | fin (milli : Int)      -- the finite value `milli / 1000` (`+0.0` is `fin 0`)
  | negZero                -- `-0.0`
  | nan
  | inf (neg : Bool)
  deriving DecidableEq, Repr

def PyFloat.truthy : PyFloat → Bool
  | .fin m => decide (m ≠ 0)
  | .negZero => false
  | .nan => true
  | .inf _ => true

inductive PyVal where
  | none
  | bool (b : Bool)
  | int (i : Int)
  | float (f : PyFloat)
  | str (s : String)
  | list (len : Nat)       -- `list` / `tuple` / `dict`: only the length matters (`[0]`, `[None]` are true)
  | tuple (len : Nat)
  | dict (len : Nat)
  | obj                    -- an instance (or function) defining neither `__bool__` nor `__len__`
  | objBool (b : Bool)     -- an instance whose `__bool__` returns `b`
  | objLen (n : Nat)       -- an instance without `__bool__` whose `__len__` returns `n`
  deriving DecidableEq, Repr

/-- `bool(v)`. -/
def PyVal.truthy : PyVal → Bool
  | .none => false
  | .bool b => b
  | .int i => decide (i ≠ 0)
  | .float f => f.truthy
  | .str s => if s = "" then false else true
  | .list n => decide (n ≠ 0)
  | .tuple n => decide (n ≠ 0)
  | .dict n => decide (n ≠ 0)
  | .obj => true
  | .objBool b => b
  | .objLen n => decide (n ≠ 0)

/-- `not v`: always one of the two `bool` singletons. -/
def pyNot (v : PyVal) : PyVal := .bool (!v.truthy)

/-- `a and b` (the model is pure, so evaluating `b` eagerly is harmless). -/
def pyAnd (a b : PyVal) : PyVal := if a.truthy then b else a

/-- `v is not None`. -/
def pyIsNotNone (v : PyVal) : PyVal := .bool (v != .none)

/-- `md.condition` and what it evaluates to at load time: absent, `@lcc.hidden()`
    (= `visible_if(lambda _: False)`), or `@lcc.visible_if(c)` where `c(obj)` returns `v`.
    `selfTruthy` is the truth value of the callable `c` *itself*: `true` for functions, lambdas and
    ordinary callable instances; `false` for a callable instance that is falsy (defines `__bool__` /
    `__len__`, e.g. a callable subclass of `list` that is empty).  Since the repair of finding D36 the loader
    no longer looks at it (`Vis.shown_eq_visible`); it stays in the layout as an input class. -/
inductive Vis where
  | always
  | hidden
  | cond (selfTruthy : Bool) (v : PyVal)
  deriving DecidableEq, Repr

/-- What the property demands: no condition ⇒ visible; `hidden()` ⇒ not; `visible_if(c)` ⇒ visible
    iff `c(obj)` is a true value.  The core loader below and the specification (`LoaderSpec.lean`)
    both go through this function; `Vis.shown_eq_visible` (`Lemmas/LoaderVis.lean`) ties it to the
    expression the code evaluates. -/
def Vis.visible : Vis → Bool
  | .always => true
  | .hidden => false
  | .cond _ v => v.truthy

/-- `md.condition` as a Python value (`None`, a function, or a callable instance). -/
def Vis.conditionObj : Vis → PyVal
  | .always => .none
  | .hidden => .obj
  | .cond st _ => if st then .obj else .objBool false

/-- `md.condition(obj)` (not evaluated when there is no condition). -/
def Vis.result : Vis → PyVal
  | .always => .none
  | .hidden => .bool false
  | .cond _ v => v

/-- The value the loader stores in `.hidden`, literally
    `md.condition is not None and not md.condition(obj)` (`_load_test`, `load_suite_from_class`,
    `load_suite_from_module`; fix of D36 — it was `md.condition and not …`, which consulted the truth
    value of the callable itself): always `True` or `False`. -/
def Vis.hiddenAttr (v : Vis) : PyVal := pyAnd (pyIsNotNone v.conditionObj) (pyNot v.result)

/-- What every reader of `.hidden` does (`if not test.hidden`, `filter(lambda s: not s.hidden, …)`,
    `if not suite.hidden`): the item is kept iff `.hidden` is a false value. -/
def Vis.shown (v : Vis) : Bool := !v.hiddenAttr.truthy

/-- The condition is a callable instance that is itself a false value. -/
def Vis.falsyCallable : Vis → Bool
  | .cond false _ => true
  | _ => false

/-- `md.disabled`: `False`, `True`, or the reason string. -/
inductive Disabled where
  | no
  | yes
  | reason (s : String)
  deriving DecidableEq, Repr

structure Meta where
  tags : List String := []
  props : List (String × String) := []
  links : List (String × Option String) := []
  deriving DecidableEq, Repr

/-- A `@lcc.test` function or method. -/
structure TestDecl where
  attr : String                    -- the Python identifier (`func.__name__`, the `dir()` key)
  name : Option String := none     -- `@lcc.test(name=…)`
  desc : Option String := none     -- `@lcc.test(description)`
  rank : Int
  md : Meta := {}
  vis : Vis := .always
  disabled : Disabled := .no
  param : Option (List Params × Naming) := none
  deriving DecidableEq, Repr

structure ClsHead where
  attr : String
  name : Option String := none
  desc : Option String := none
  rank : Int                       -- explicit `rank=` or the counter's value
  md : Meta := {}
  vis : Vis := .always
  disabled : Disabled := .no
  ctorFails : Bool := false        -- `class_()` raises
  deriving DecidableEq, Repr

/-- A `@lcc.suite` class: test methods and nested suite classes, both in textual order. -/
inductive Cls where
  | mk (h : ClsHead) (tests : List TestDecl) (subs : List Cls)
  deriving Repr

def Cls.head : Cls → ClsHead
  | .mk h _ _ => h
def Cls.tests : Cls → List TestDecl
  | .mk _ t _ => t
def Cls.subs : Cls → List Cls
  | .mk _ _ s => s

/-- The module-level `SUITE` dict. -/
structure SuiteInfo where
  name : Option String := none
  desc : Option String := none
  md : Meta := {}
  rank : Option Int := none
  vis : Vis := .always
  deriving DecidableEq, Repr

/-- A module file `<stem>.py`. -/
structure Module where
  stem : String
  info : Option SuiteInfo := none  -- `none`: the module has no `SUITE` attribute
  autoRank : Int                   -- what `_get_metadata_next_rank()` returns in `load_suite_from_module`
  broken : Bool := false           -- importing the file raises
  tests : List TestDecl := []
  classes : List Cls := []
  deriving Repr

/-- A directory: its own base name, its module files and its sub-directories. -/
inductive Dir where
  | mk (name : String) (mods : List Module) (dirs : List Dir)
  deriving Repr

def Dir.name : Dir → String
  | .mk n _ _ => n

/-! ## The loaded tree -/

structure Test where
  name : String
  desc : String
  rank : Int
  md : Meta
  disabled : Disabled
  params : Params
  deriving DecidableEq, Repr

structure SuiteHead where
  name : String
  desc : String
  rank : Int
  md : Meta := {}
  disabled : Disabled := .no
  hidden : Bool := false
  deriving DecidableEq, Repr

inductive Suite where
  | mk (h : SuiteHead) (tests : List Test) (subs : List Suite)
  deriving Repr

def Suite.head : Suite → SuiteHead
  | .mk h _ _ => h
def Suite.tests : Suite → List Test
  | .mk _ t _ => t
def Suite.subs : Suite → List Suite
  | .mk _ _ s => s
def Suite.name (s : Suite) : String := s.head.name
def Suite.desc (s : Suite) : String := s.head.desc
def Suite.rank (s : Suite) : Int := s.head.rank
def Suite.hidden (s : Suite) : Bool := s.head.hidden

/-- Everything the loader can raise on a layout. -/
inductive LoadErr where
  | importError (stem : String)            -- `SuiteLoadingError` (wrapped `ModuleImportError`)
  | ctorError (cls : String)               -- `LemoncheesecakeException` ("unexpected error while instantiating")
  | formatKeyError (key : String)          -- `KeyError` out of `name_fmt.format(**parameters)`
  | dupTestDesc (desc : String)            -- `SuiteLoadingError` from `Suite.add_test`
  | dupTestName (name : String)
  | dupSuiteDesc (name desc : String)      -- `SuiteLoadingError` from `Suite.add_suite` (message prints the name)
  | dupSuiteName (name : String)
  deriving DecidableEq, Repr

def LoadErr.isDup : LoadErr → Bool
  | .dupTestDesc _ | .dupTestName _ | .dupSuiteDesc _ _ | .dupSuiteName _ => true
  | _ => false

/-! ## Helpers: Python's stable `sorted`, `build_description_from_name`, `x or default` -/

/-- Insert `a` before the first element it is `le` to: with `sortBy` this is a *stable* sort
    (an element never overtakes an earlier one that is `le` to it), as Python's `sorted`. -/
def insertBy (le : α → α → Bool) (a : α) : List α → List α
  | [] => [a]
  | b :: bs => if le a b then a :: b :: bs else b :: insertBy le a bs

def sortBy (le : α → α → Bool) : List α → List α
  | [] => []
  | a :: as => insertBy le a (sortBy le as)

def strLe (a b : String) : Bool := decide (a ≤ b)
def intLe (a b : Int) : Bool := decide (a ≤ b)

/-- `sorted(filter(f, (attr for _, attr in get_object_attributes(obj))), key=rank)`:
    `dir()` lists attribute names alphabetically; `sorted` by rank is stable. -/
def discover (attr : α → String) (rank : α → Int) (l : List α) : List α :=
  sortBy (fun a b => intLe (rank a) (rank b)) (sortBy (fun a b => strLe (attr a) (attr b)) l)

/-- `str.capitalize()` on ASCII. -/
def capitalize (s : String) : String :=
  match s.toList with
  | [] => ""
  | c :: cs => String.ofList (c.toUpper :: cs.map Char.toLower)

/-- `build_description_from_name`: `name.capitalize().replace("_", " ")`. -/
def descFromName (n : String) : String :=
  String.ofList ((capitalize n).toList.map (fun c => if c = '_' then ' ' else c))

/-- Python's `x or default` on an optional string argument. -/
def orDefault (o : Option String) (dflt : String) : String :=
  match o with
  | none => dflt
  | some s => if s = "" then dflt else s

/-- `dict.get(key, default)`. -/
def getOr (o : Option α) (dflt : α) : α :=
  match o with
  | none => dflt
  | some a => a

def sequenceE : List (Except ε α) → Except ε (List α)
  | [] => .ok []
  | .error e :: _ => .error e
  | .ok a :: rest =>
    match sequenceE rest with
    | .error e => .error e
    | .ok as => .ok (a :: as)

/-! ## Tests: `_load_test`, `_load_parametrized_tests`, `_load_tests`, `Suite.add_test` -/

def TestDecl.testName (d : TestDecl) : String := orDefault d.name d.attr
def TestDecl.testDesc (d : TestDecl) : String := orDefault d.desc (descFromName d.testName)

/-- `_load_test` (the `hidden` flag is `!d.vis.visible`). -/
def baseTest (d : TestDecl) : Test :=
  { name := d.testName, desc := d.testDesc, rank := d.rank, md := d.md, disabled := d.disabled, params := [] }

def renderSeg (ps : Params) : Seg → Except LoadErr String
  | .lit s => .ok s
  | .field k =>
    match ps.lookup k with
    | some v => .ok v.render
    | none => .error (.formatKeyError k)

def render (ps : Params) : List Seg → Except LoadErr String
  | [] => .ok ""
  | s :: rest =>
    match renderSeg ps s with
    | .error e => .error e
    | .ok a =>
      match render ps rest with
      | .error e => .error e
      | .ok b => .ok (a ++ b)

/-- `md.parametrized.naming_scheme(test.name, test.description, parameters, idx+1)`. -/
def applyNaming (n : Naming) (name desc : String) (ps : Params) (nb : Nat) : Except LoadErr (String × String) :=
  match n with
  | .default => .ok (name ++ "_" ++ toString nb, desc ++ " #" ++ toString nb)
  | .format nt dt =>
    match render ps nt with
    | .error e => .error e
    | .ok a =>
      match render ps dt with
      | .error e => .error e
      | .ok b => .ok (a, b)

/-- The generator `_load_parametrized_tests` filtered by `if not test.hidden` in `_load_tests`, as the
    lazy stream it is: one item per parameter set, in order; an item is either the test or the
    exception raised while producing it (raised whether or not the test is hidden). -/
def expandSets (b : Test) (visible : Bool) (n : Naming) : Nat → List Params → List (Except LoadErr Test)
  | _, [] => []
  | nb, ps :: rest =>
    match applyNaming n b.name b.desc ps nb with
    | .error e => .error e :: expandSets b visible n (nb + 1) rest
    | .ok (nm, ds) =>
      if visible then .ok { b with name := nm, desc := ds, params := ps } :: expandSets b visible n (nb + 1) rest
      else expandSets b visible n (nb + 1) rest

/-- What `_load_tests` yields for one symbol. -/
def expandDecl (d : TestDecl) : List (Except LoadErr Test) :=
  match d.param with
  | none => if d.vis.visible then [.ok (baseTest d)] else []
  | some (sets, n) => expandSets (baseTest d) d.vis.visible n 1 sets

/-- `Suite.add_test`: description checked first, then name. -/
def addTest (acc : List Test) (t : Test) : Except LoadErr (List Test) :=
  if acc.any (fun u => u.desc == t.desc) then .error (.dupTestDesc t.desc)
  else if acc.any (fun u => u.name == t.name) then .error (.dupTestName t.name)
  else .ok (acc ++ [t])

/-- `for test in _load_tests(...): suite.add_test(test)` — consumption of the lazy stream. -/
def addAll (acc : List Test) : List (Except LoadErr Test) → Except LoadErr (List Test)
  | [] => .ok acc
  | .error e :: _ => .error e
  | .ok t :: rest =>
    match addTest acc t with
    | .error e => .error e
    | .ok acc' => addAll acc' rest

def discoverTests (ds : List TestDecl) : List TestDecl := discover TestDecl.attr TestDecl.rank ds

def loadTests (ds : List TestDecl) : Except LoadErr (List Test) :=
  addAll [] ((discoverTests ds).flatMap expandDecl)

/-! ## Suites: `Suite.add_suite`, `load_suite_from_class`, `load_suites_from_classes` -/

/-- `Suite.add_suite`: description checked first, then name. -/
def addSuite (acc : List Suite) (s : Suite) : Except LoadErr (List Suite) :=
  if acc.any (fun u => u.desc == s.desc) then .error (.dupSuiteDesc s.name s.desc)
  else if acc.any (fun u => u.name == s.name) then .error (.dupSuiteName s.name)
  else .ok (acc ++ [s])

def addSuites (acc : List Suite) : List Suite → Except LoadErr (List Suite)
  | [] => .ok acc
  | s :: rest =>
    match addSuite acc s with
    | .error e => .error e
    | .ok acc' => addSuites acc' rest

/-- A value tagged with the `dir()` key and the rank of the symbol it was computed from. -/
structure Keyed (α : Type) where
  attr : String
  rank : Int
  val : α

def ClsHead.suiteName (h : ClsHead) : String := orDefault h.name h.attr
def ClsHead.suiteDesc (h : ClsHead) : String := orDefault h.desc (descFromName h.suiteName)

/-- `load_suites_from_classes(_get_sub_suites_from_class(obj))` followed by the `add_suite` loop:
    the classes are loaded one after the other in rank order (first exception wins), the hidden
    suites are filtered out, the others are added.  `results` holds `load_suite_from_class c` for
    every class symbol `c` (loading is a pure function of the class, so computing all of them and
    then walking the rank-sorted list is the same as Python's left-to-right `map`). -/
def loadSubSuites (results : List (Keyed (Except LoadErr Suite))) : Except LoadErr (List Suite) :=
  match sequenceE ((discover Keyed.attr Keyed.rank results).map Keyed.val) with
  | .error e => .error e
  | .ok loaded => addSuites [] (loaded.filter (fun s => !s.hidden))

mutual
/-- `load_suite_from_class`. -/
def loadClass : Cls → Except LoadErr Suite
  | .mk h tests subs =>
    if h.ctorFails then .error (.ctorError h.attr) else
    match loadTests tests with
    | .error e => .error e
    | .ok ts =>
      match loadSubSuites (loadClassList subs) with
      | .error e => .error e
      | .ok ss =>
        .ok (.mk { name := h.suiteName, desc := h.suiteDesc, rank := h.rank, md := h.md,
                   disabled := h.disabled, hidden := !h.vis.visible } ts ss)
def loadClassList : List Cls → List (Keyed (Except LoadErr Suite))
  | [] => []
  | c :: cs => ⟨c.head.attr, c.head.rank, loadClass c⟩ :: loadClassList cs
end

/-! ## Modules: `load_suite_from_module`, `load_suite_from_file`, `load_suites_from_files` -/

def Module.suiteName (m : Module) : String :=
  match m.info with
  | none => m.stem
  | some i => getOr i.name m.stem
def Module.suiteDesc (m : Module) : String :=
  match m.info with
  | none => descFromName m.stem
  | some i => getOr i.desc (descFromName m.suiteName)
def Module.suiteRank (m : Module) : Int :=
  match m.info with
  | none => m.autoRank
  | some i => getOr i.rank m.autoRank
def Module.suiteMeta (m : Module) : Meta :=
  match m.info with
  | none => {}
  | some i => i.md
def Module.visible (m : Module) : Bool :=
  match m.info with
  | none => true
  | some i => i.vis.visible

/-- `load_suite_from_module` (a module suite cannot be disabled: `SUITE["disabled"]` is not read). -/
def loadModule (m : Module) : Except LoadErr Suite :=
  match loadTests m.tests with
  | .error e => .error e
  | .ok ts =>
    match loadSubSuites (loadClassList m.classes) with
    | .error e => .error e
    | .ok ss =>
      .ok (.mk { name := m.suiteName, desc := m.suiteDesc, rank := m.suiteRank, md := m.suiteMeta,
                 disabled := .no, hidden := !m.visible } ts ss)

/-- The single-class collapse of `load_suite_from_file`: no `SUITE`, no test, exactly one sub-suite,
    and that sub-suite's *name* is the file's stem. -/
def collapse (m : Module) (s : Suite) : Suite :=
  match m.info, s with
  | none, .mk _ [] [c] => if c.name = m.stem then c else s
  | _, _ => s

/-- `load_suite_from_file`. -/
def loadFile (m : Module) : Except LoadErr Suite :=
  if m.broken then .error (.importError m.stem) else
  match loadModule m with
  | .error e => .error e
  | .ok s => .ok (collapse m s)

mutual
/-- `BaseSuite.is_empty`. -/
def Suite.isEmpty : Suite → Bool
  | .mk _ tests subs => tests.isEmpty && Suite.allEmpty subs
def Suite.allEmpty : List Suite → Bool
  | [] => true
  | s :: rest => Suite.isEmpty s && Suite.allEmpty rest
end

/-- `get_py_files_from_dir` / `get_matching_files` sort the *paths* (`<dir>/<stem>.py`): the order of the file names, which
    differs from the order of the stems when one stem extends another (`a.py` / `a.b.py`, `a.py` / `a-b.py`). -/
def Module.fileName (m : Module) : String := m.stem ++ ".py"

def sortMods (mods : List Module) : List Module := sortBy (fun a b => strLe a.fileName b.fileName) mods

/-- `load_suites_from_files` on the files `mods` (already glob-matched): path order, hidden and
    empty suites dropped, no sorting by rank, no directory recursion. -/
def loadFiles (mods : List Module) : Except LoadErr (List Suite) :=
  match sequenceE ((sortMods mods).map loadFile) with
  | .error e => .error e
  | .ok ss => .ok (ss.filter (fun s => !s.hidden && !s.isEmpty))

/-! ## Directories: `load_suites_from_directory` -/

/-- Keys of the `suites` dict: the file name for a module suite, the suite name for a synthetic one. -/
inductive Key where
  | file (stem : String)
  | dir (name : String)
  deriving DecidableEq, Repr

abbrev Table := List (Key × Suite)

/-- First loop: `for filename in get_py_files_from_dir(dir): suite = load_suite_from_file(filename);
    if not suite.hidden: suites[filename] = suite`. -/
def loadModTable : List Module → Except LoadErr Table
  | [] => .ok []
  | m :: rest =>
    match loadFile m with
    | .error e => .error e
    | .ok s =>
      match loadModTable rest with
      | .error e => .error e
      | .ok t => .ok (if s.hidden then t else (Key.file m.stem, s) :: t)

/-- `for sub_suite in …: suite.add_suite(sub_suite)` on an existing suite. -/
def attach (s : Suite) (subs : List Suite) : Except LoadErr Suite :=
  match s with
  | .mk h ts ss =>
    match addSuites ss subs with
    | .error e => .error e
    | .ok ss' => .ok (.mk h ts ss')

def Table.update (k : Key) (s : Suite) : Table → Table
  | [] => []
  | (k', s') :: rest => if k' = k then (k', s) :: rest else (k', s') :: Table.update k s rest

/-- `Suite(None, suite_name, build_description_from_name(suite_name))`: rank 0, not hidden. -/
def synthetic (name : String) : Suite :=
  .mk { name := name, desc := descFromName name, rank := 0 } [] []

/-- Second loop, over the sub-directories in sorted order; `r` is the outcome of the recursive
    `load_suites_from_directory(dirname)`. -/
def mergeDirs (t : Table) : List (String × Except LoadErr (List Suite)) → Except LoadErr Table
  | [] => .ok t
  | (dname, r) :: rest =>
    match r with
    | .error e => .error e
    | .ok subs =>
      match t.lookup (Key.file dname) with
      | some s =>
        match attach s subs with
        | .error e => .error e
        | .ok s' => mergeDirs (Table.update (Key.file dname) s' t) rest
      | none =>
        match attach (synthetic dname) subs with
        | .error e => .error e
        | .ok s' => mergeDirs (t ++ [(Key.dir dname, s')]) rest

/-- `sorted(sorted(filter(lambda s: not s.is_empty(), suites.values()), key=name), key=rank)`. -/
def finalSort (ss : List Suite) : List Suite :=
  sortBy (fun a b => intLe a.rank b.rank)
    (sortBy (fun a b => strLe a.name b.name) (ss.filter (fun s => !s.isEmpty)))

def sortDirResults (l : List (String × Except LoadErr (List Suite))) : List (String × Except LoadErr (List Suite)) :=
  sortBy (fun a b => strLe a.1 b.1) l

mutual
/-- `load_suites_from_directory(dir, recursive=True)`. -/
def loadDir : Dir → Except LoadErr (List Suite)
  | .mk _ mods dirs =>
    match loadModTable (sortMods mods) with
    | .error e => .error e
    | .ok t =>
      match mergeDirs t (sortDirResults (loadDirList dirs)) with
      | .error e => .error e
      | .ok t' => .ok (finalSort (t'.map Prod.snd))
def loadDirList : List Dir → List (String × Except LoadErr (List Suite))
  | [] => []
  | d :: ds => (d.name, loadDir d) :: loadDirList ds
end

/-! ## Flattening (`testtree.flatten_tests`, `BaseTreeNode.path` as a list of names) -/

/-- A test with the names of its enclosing suites followed by its own name. -/
abbrev Entry := List String × Test

def underSuite (n : String) (es : List Entry) : List Entry := es.map (fun e => (n :: e.1, e.2))

def testLeaves (ts : List Test) : List Entry := ts.map (fun t => ([t.name], t))

mutual
/-- Entries below a suite, *without* the suite's own name. -/
def Suite.body : Suite → List Entry
  | .mk _ tests subs => testLeaves tests ++ Suite.entriesList subs
/-- `flatten_tests(suites)`. -/
def Suite.entriesList : List Suite → List Entry
  | [] => []
  | s :: rest => underSuite s.head.name (Suite.body s) ++ Suite.entriesList rest
end

def Suite.entries (s : Suite) : List Entry := underSuite s.name s.body

/-! ## `get_object_attributes` on a class instance: attributes whose name starts with `__` are skipped

  `_get_class_object_attributes` drops every `dir()` entry starting with `__` (and properties) before
  the loader looks for test methods and nested suite classes; `_get_module_object_attributes` does
  not.  So a test method or nested suite class named `__x__` *inside a class* does not exist for the
  loader, while the same name at module level does.  (Names `__x` without trailing underscores are
  name-mangled by Python and are outside the layouts considered.)
  The real entry points are the dunder-free core above applied to the stripped layout. -/

def dunder (attr : String) : Bool :=
  match attr.toList with
  | '_' :: '_' :: _ => true
  | _ => false

mutual
def stripCls : Cls → Cls
  | .mk h tests subs => .mk h (tests.filter (fun t => !dunder t.attr)) (stripMembers subs)
/-- nested classes of a class body: dunder-named ones vanish, the others are stripped inside -/
def stripMembers : List Cls → List Cls
  | [] => []
  | c :: cs => if dunder c.head.attr then stripMembers cs else stripCls c :: stripMembers cs
end

/-- classes of a module body: all kept, each stripped inside -/
def stripTop : List Cls → List Cls
  | [] => []
  | c :: cs => stripCls c :: stripTop cs

def stripModule (m : Module) : Module := { m with classes := stripTop m.classes }

def stripModules : List Module → List Module
  | [] => []
  | m :: ms => stripModule m :: stripModules ms

mutual
def stripDir : Dir → Dir
  | .mk n mods dirs => .mk n (stripModules mods) (stripDirs dirs)
def stripDirs : List Dir → List Dir
  | [] => []
  | d :: ds => stripDir d :: stripDirs ds
end

/-- `load_suite_from_class(cls)` -/
def loadClassReal (c : Cls) : Except LoadErr Suite := loadClass (stripCls c)
/-- `load_suite_from_file(path)` -/
def loadFileReal (m : Module) : Except LoadErr Suite := loadFile (stripModule m)
/-- `load_suites_from_files(patterns)` -/
def loadFilesReal (mods : List Module) : Except LoadErr (List Suite) := loadFiles (stripModules mods)
/-- `load_suites_from_directory(dir)` -/
def loadDirReal (d : Dir) : Except LoadErr (List Suite) := loadDir (stripDir d)

mutual
def noDunderCls : Cls → Bool
  | .mk _ tests subs => tests.all (fun t => !dunder t.attr) && noDunderMembers subs
def noDunderMembers : List Cls → Bool
  | [] => true
  | c :: cs => !dunder c.head.attr && noDunderCls c && noDunderMembers cs
end

def noDunderTop : List Cls → Bool
  | [] => true
  | c :: cs => noDunderCls c && noDunderTop cs

def noDunderModules : List Module → Bool
  | [] => true
  | m :: ms => noDunderTop m.classes && noDunderModules ms

mutual
/-- No class anywhere in the tree has a member (test method or nested class) named `__…`. -/
def noDunderDir : Dir → Bool
  | .mk _ mods dirs => noDunderModules mods && noDunderDirs dirs
def noDunderDirs : List Dir → Bool
  | [] => true
  | d :: ds => noDunderDir d && noDunderDirs ds
end

end LccModel.Loader

/-
  `Expand` — from DECLARED suite classes (decorated test methods) to the test tree the runner schedules:
  model of the decorator / loader path of `lemoncheesecake/suite/loader.py` (`_load_test`,
  `_load_parametrized_tests`, `_load_tests`, `load_suite_from_class`, `load_suites_from_classes`) and of the
  decorators of `suite/builder.py` (`@lcc.test`, `@lcc.disabled`, `@lcc.tags`, `@lcc.prop`, `@lcc.link`,
  `@lcc.hidden`, `@lcc.depends_on`, `@lcc.parametrized` with its three kinds of naming scheme).

  Two layers:
    * the SPECIFICATION `expand : TestDecl → List Test` / `expandSuite` — what a declaration means: one
      test per parameter set (one test when not parametrized, none when hidden), each carrying every
      metadata field of its declaration (disabled flag and reason, tags, properties, links, rank,
      dependencies) and its own parameter set; pure, no exceptions;
    * the LOADER `loadTests` / `loadSuite` — loader.py statement by statement, every exception it can raise
      on a declaration being an explicit `LoadErr` (`KeyError` out of a format naming scheme, duplicate
      test / suite name or description out of `Suite.add_test` / `Suite.add_suite`).
  `Lemmas/Expand.lean` proves `loadSuite c = .ok s → s = expandSuite c`; the stream `C01.decl` compares
  `loadSuite` with the real loader on generated class sources.

  The bridge `projOf` turns an expanded tree into the run-level project syntax of `Model/Run.lean`, so
  that the task-graph theorems of `Props/C01Graph.lean` apply to it (`Props/C01Expand.lean`).

  The basic vocabulary (parameter values, `str.format` templates, metadata, the `disabled` value,
  `LoadErr`, `x or default`, `build_description_from_name`, discovery order `dir()` + stable rank sort) is
  that of the C13 loader model `Model/Loader.lean`.  Core Lean only.
-/
import LccModel.Model.Loader
import LccModel.Model.LoaderSpec
import LccModel.Model.Run
import LccModel.Model.SuiteObject
import LccModel.Model.Deps

namespace LccModel.Expand
open LccModel.Report (Path)
open LccModel.Loader (PVal Params Seg Meta Disabled LoadErr render renderD orDefault descFromName discover sequenceE)

/-! ## Declarations -/

/-- `naming_scheme` of `@lcc.parametrized`: `_default_naming_scheme`, `_format_naming_scheme(name_fmt,
    description_fmt)` (a 2-sequence of format strings), or any user callable
    `(name, description, parameters, nb) -> (name, description)`. -/
inductive Naming where
  | default
  | format (name desc : List Seg)
  | custom (f : String → String → Params → Nat → String × String)

/-- One argument of `@lcc.depends_on(...)`: a test path (names contain no dot) or a callable — a predicate on tests,
    named by a key; what the key means (`Test → Bool`) is a parameter of everything that evaluates it. -/
inductive DepArg where
  | path (p : Path)
  | pred (key : String)
  deriving DecidableEq, Repr

def DepArg.path? : DepArg → Option Path
  | .path p => some p
  | .pred _ => none

/-- A `@lcc.test` method of a suite class. -/
structure TestDecl where
  attr : String                    -- `func.__name__` (the `dir()` key)
  name : Option String := none     -- `@lcc.test(name=…)`
  desc : Option String := none     -- `@lcc.test(description)`
  rank : Nat                       -- what `_get_metadata_next_rank()` returned: declaration order
  md : Meta := {}                  -- `@lcc.tags`, `@lcc.prop`, `@lcc.link`
  disabled : Disabled := .no       -- `@lcc.disabled(reason?)`
  hidden : Bool := false           -- `@lcc.hidden()` / a false `@lcc.visible_if`
  deps : List DepArg := []         -- `md.dependencies`: the arguments of ALL the `@lcc.depends_on(…)` decorators, in application order
  param : Option (List Params × Naming) := none   -- `@lcc.parametrized(sets, naming_scheme)`: the dicts `parameters_source` yields
  args : List String := []         -- the parameters of the function after `self` (`get_callable_args`): parameter names and fixture names

structure ClsHead where
  attr : String
  name : Option String := none
  desc : Option String := none
  rank : Nat
  md : Meta := {}
  disabled : Disabled := .no
  hidden : Bool := false
  obj : SuiteObj.Obj := {}           -- the attribute layers of the instance `class_()` (instance dict, class dict, base classes)

/-- A `@lcc.suite` class: test methods and nested suite classes. -/
inductive SuiteDecl where
  | mk (h : ClsHead) (tests : List TestDecl) (subs : List SuiteDecl)

def SuiteDecl.head : SuiteDecl → ClsHead
  | .mk h _ _ => h
def SuiteDecl.tests : SuiteDecl → List TestDecl
  | .mk _ t _ => t
def SuiteDecl.subs : SuiteDecl → List SuiteDecl
  | .mk _ _ s => s

/-! ## The loaded tree -/

structure Test where
  name : String
  desc : String
  rank : Nat
  md : Meta
  disabled : Disabled
  deps : List DepArg
  params : Params
  args : List String := []
  sub : Nat := 0                   -- position among the variants of one parametrized declaration (0: not a variant)
  deriving DecidableEq, Repr

/-- **The rank the loader gives a test** (since fix N5): `md.rank` for a plain test, `md.rank + idx / (idx + 1)` for the
    variant of index `idx` of a parametrized one — pairwise distinct, increasing with the parameter set, all in
    `[md.rank, md.rank + 1)`.  Only the ORDER of ranks is ever used (stable sorts of the loader and of the report), so the
    model keeps the pair (`rank` = the integer part = the declaration's rank, `sub` = a strictly increasing index) and
    compares lexicographically. -/
def Test.key (t : Test) : Nat × Nat := (t.rank, t.sub)

/-- `a.rank < b.rank` on the loaded ranks -/
def keyLt (a b : Test) : Bool := decide (a.rank < b.rank) || (a.rank == b.rank && decide (a.sub < b.sub))

/-- `Test.get_fixtures()`: the arguments of the callback that are not parameters of this test -/
def Test.fixtures (t : Test) : List String := t.args.filter (fun a => !(t.params.any (fun kv => kv.1 == a)))

structure SuiteHead where
  name : String
  desc : String
  rank : Nat
  md : Meta := {}
  disabled : Disabled := .no
  injected : List (String × List String) := []  -- `Suite._injected_fixtures`: fixture name ↦ the attribute names injecting it
  setupSuite : Option (List String) := none    -- the `setup_suite` hook (its parameters), if the object has one
  teardownSuite : Bool := false
  setupTest : Bool := false
  teardownTest : Bool := false
  deriving DecidableEq, Repr

inductive Suite where
  | mk (h : SuiteHead) (tests : List Test) (subs : List Suite)
  deriving Repr

def Suite.head : Suite → SuiteHead
  | .mk h _ _ => h
def Suite.tests : Suite → List Test
  | .mk _ t _ => t
def Suite.subs : Suite → List Suite
  | .mk _ _ s => s

def _root_.LccModel.Loader.Disabled.isDisabled : Disabled → Bool
  | .no => false
  | _ => true

/-! ## Specification: what a declaration expands to -/

def TestDecl.testName (d : TestDecl) : String := orDefault d.name d.attr
def TestDecl.testDesc (d : TestDecl) : String := orDefault d.desc (descFromName d.testName)
def ClsHead.suiteName (h : ClsHead) : String := orDefault h.name h.attr
def ClsHead.suiteDesc (h : ClsHead) : String := orDefault h.desc (descFromName h.suiteName)

/-- `_load_test`: every metadata field of the declaration is copied onto the test. -/
def baseTest (d : TestDecl) : Test :=
  { name := d.testName, desc := d.testDesc, rank := d.rank, md := d.md, disabled := d.disabled, deps := d.deps, params := [],
    args := d.args }

/-- name and description of the `nb`-th (1-based) parameter set; an absent `{key}` renders as the empty text
    here — the loader raises `KeyError` there (`applyNaming`), and `loadSuite_ok_eq` only speaks of loads that succeed -/
def namingD (n : Naming) (name desc : String) (ps : Params) (nb : Nat) : String × String :=
  match n with
  | .default => (name ++ "_" ++ toString nb, desc ++ " #" ++ toString nb)
  | .format nt dt => (renderD ps nt, renderD ps dt)
  | .custom f => f name desc ps nb

/-- One test per parameter set, in order, numbered from `nb`: the base test with its name, description
    and parameters replaced — everything else is the base test's. -/
def expandSets (b : Test) (n : Naming) : Nat → List Params → List Test
  | _, [] => []
  | nb, ps :: rest =>
    { b with name := (namingD n b.name b.desc ps nb).1, desc := (namingD n b.name b.desc ps nb).2, params := ps, sub := nb }
      :: expandSets b n (nb + 1) rest

/-- **The tests one declaration stands for.** -/
def expand (d : TestDecl) : List Test :=
  if d.hidden then []
  else match d.param with
    | none => [baseTest d]
    | some (sets, n) => expandSets (baseTest d) n 1 sets

/-- `_get_test_symbols`: `dir()` order, then a stable sort by rank. -/
def testOrder (ds : List TestDecl) : List TestDecl := discover TestDecl.attr (fun d => (d.rank : Int)) ds

/-- a loaded (or failed) sub-class together with the keys it is sorted and filtered by -/
structure Keyed (α : Type) where
  attr : String
  rank : Nat
  hidden : Bool
  val : α

def subOrder {α : Type} (l : List (Keyed α)) : List (Keyed α) := discover Keyed.attr (fun k => (k.rank : Int)) l

/-- `Suite(suite_obj, …)` + the `add_hook` loop of `load_suite_from_class`: injected fixtures and hooks are read from the
    INSTANCE (whatever layer holds them) -/
def headOf (h : ClsHead) : SuiteHead :=
  { name := h.suiteName, desc := h.suiteDesc, rank := h.rank, md := h.md, disabled := h.disabled
    injected := SuiteObj.injectedOf h.obj
    setupSuite := SuiteObj.hookParams h.obj "setup_suite"
    teardownSuite := (SuiteObj.hookParams h.obj "teardown_suite").isSome
    setupTest := (SuiteObj.hookParams h.obj "setup_test").isSome
    teardownTest := (SuiteObj.hookParams h.obj "teardown_test").isSome }

mutual
/-- **The suite a class stands for**: its tests are the expansions of its test methods in declaration
    order, its sub-suites the expansions of its visible nested classes in declaration order. -/
def expandSuite : SuiteDecl → Suite
  | .mk h tests subs =>
    .mk (headOf h) ((testOrder tests).flatMap expand)
      (((subOrder (expandKeyed subs)).filter (fun k => !k.hidden)).map Keyed.val)
def expandKeyed : List SuiteDecl → List (Keyed Suite)
  | [] => []
  | c :: cs => ⟨c.head.attr, c.head.rank, c.head.hidden, expandSuite c⟩ :: expandKeyed cs
end

/-- `load_suites_from_classes(classes)` on the classes in the given order (hidden ones dropped). -/
def expandSuites (cs : List SuiteDecl) : List Suite :=
  (cs.filter (fun c => !c.head.hidden)).map expandSuite

/-! ## The loader, with its exceptions -/

/-- `md.parametrized.naming_scheme(test.name, test.description, parameters, idx+1)` -/
def applyNaming (n : Naming) (name desc : String) (ps : Params) (nb : Nat) : Except LoadErr (String × String) :=
  match n with
  | .default => .ok (name ++ "_" ++ toString nb, desc ++ " #" ++ toString nb)
  | .format nt dt =>
    match render ps nt with
    | .error e => .error e
    | .ok a =>
      match render ps dt with
      | .error e => .error e
      | .ok b => .ok (a, b)
  | .custom f => .ok (f name desc ps nb)

/-- the generator `_load_parametrized_tests` filtered by `if not test.hidden`: one item per parameter set, an
    item being the test or the exception raised while producing it (raised whether or not the test is hidden) -/
def loadSets (b : Test) (visible : Bool) (n : Naming) : Nat → List Params → List (Except LoadErr Test)
  | _, [] => []
  | nb, ps :: rest =>
    match applyNaming n b.name b.desc ps nb with
    | .error e => .error e :: loadSets b visible n (nb + 1) rest
    | .ok (nm, ds) =>
      if visible then .ok { b with name := nm, desc := ds, params := ps, sub := nb } :: loadSets b visible n (nb + 1) rest
      else loadSets b visible n (nb + 1) rest

/-- what `_load_tests` yields for one symbol -/
def loadDecl (d : TestDecl) : List (Except LoadErr Test) :=
  match d.param with
  | none => if d.hidden then [] else [.ok (baseTest d)]
  | some (sets, n) => loadSets (baseTest d) (!d.hidden) n 1 sets

/-- `Suite.add_test`: description checked first, then name -/
def addTest (acc : List Test) (t : Test) : Except LoadErr (List Test) :=
  if acc.any (fun u => u.desc == t.desc) then .error (.dupTestDesc t.desc)
  else if acc.any (fun u => u.name == t.name) then .error (.dupTestName t.name)
  else .ok (acc ++ [t])

def addAll (acc : List Test) : List (Except LoadErr Test) → Except LoadErr (List Test)
  | [] => .ok acc
  | .error e :: _ => .error e
  | .ok t :: rest =>
    match addTest acc t with
    | .error e => .error e
    | .ok acc' => addAll acc' rest

def loadTests (ds : List TestDecl) : Except LoadErr (List Test) :=
  addAll [] ((testOrder ds).flatMap loadDecl)

/-- `Suite.add_suite`: description checked first, then name -/
def addSuite (acc : List Suite) (s : Suite) : Except LoadErr (List Suite) :=
  if acc.any (fun u => u.head.desc == s.head.desc) then .error (.dupSuiteDesc s.head.name s.head.desc)
  else if acc.any (fun u => u.head.name == s.head.name) then .error (.dupSuiteName s.head.name)
  else .ok (acc ++ [s])

def addSuites (acc : List Suite) : List Suite → Except LoadErr (List Suite)
  | [] => .ok acc
  | s :: rest =>
    match addSuite acc s with
    | .error e => .error e
    | .ok acc' => addSuites acc' rest

/-- `sequenceE` on keyed values: the first error in list order, else all values with their keys -/
def sequenceK {α : Type} : List (Keyed (Except LoadErr α)) → Except LoadErr (List (Keyed α))
  | [] => .ok []
  | k :: rest =>
    match k.val with
    | .error e => .error e
    | .ok a =>
      match sequenceK rest with
      | .error e => .error e
      | .ok as => .ok (⟨k.attr, k.rank, k.hidden, a⟩ :: as)

/-- `load_suites_from_classes(_get_sub_suites_from_class(obj))` followed by the `add_suite` loop: every class
    is loaded in rank order (first exception wins, hidden classes included), the hidden suites are filtered out,
    the others are added -/
def loadSubs (results : List (Keyed (Except LoadErr Suite))) : Except LoadErr (List Suite) :=
  match sequenceK (subOrder results) with
  | .error e => .error e
  | .ok loaded => addSuites [] ((loaded.filter (fun k => !k.hidden)).map Keyed.val)

mutual
/-- `load_suite_from_class` -/
def loadSuite : SuiteDecl → Except LoadErr Suite
  | .mk h tests subs =>
    match loadTests tests with
    | .error e => .error e
    | .ok ts =>
      match loadSubs (loadKeyed subs) with
      | .error e => .error e
      | .ok ss => .ok (.mk (headOf h) ts ss)
def loadKeyed : List SuiteDecl → List (Keyed (Except LoadErr Suite))
  | [] => []
  | c :: cs => ⟨c.head.attr, c.head.rank, c.head.hidden, loadSuite c⟩ :: loadKeyed cs
end

/-- `load_suites_from_classes(classes)` at the top level (no `add_suite`: nothing checks the top level) -/
def loadSuites : List SuiteDecl → Except LoadErr (List Suite)
  | [] => .ok []
  | c :: cs =>
    match loadSuite c with
    | .error e => .error e
    | .ok s =>
      match loadSuites cs with
      | .error e => .error e
      | .ok ss => .ok (if c.head.hidden then ss else s :: ss)

/-! ## Tests of a tree with their paths; declarations of a class tree -/

mutual
/-- a suite's own tests (in order) before those of its sub-suites — `build_suite_tasks` order -/
def suiteTests (parent : Path) : Suite → List (Path × Test)
  | .mk h ts subs => ts.map (fun t => (parent ++ [h.name] ++ [t.name], t)) ++ suitesTests (parent ++ [h.name]) subs
def suitesTests (parent : Path) : List Suite → List (Path × Test)
  | [] => []
  | s :: rest => suiteTests parent s ++ suitesTests parent rest
end

/-- the number of tests a declaration stands for -/
def expansionCount (d : TestDecl) : Nat :=
  if d.hidden then 0
  else match d.param with
    | none => 1
    | some (sets, _) => sets.length

mutual
/-- the number of tests a class tree stands for: hidden classes count for nothing -/
def declCount : SuiteDecl → Nat
  | .mk _ tests subs => (tests.map expansionCount).sum + declCountKeyed subs
def declCountKeyed : List SuiteDecl → Nat
  | [] => 0
  | c :: cs => (if c.head.hidden then 0 else declCount c) + declCountKeyed cs
end

/-! ## Bridge to the run-level project syntax (`Model/Run.lean`) -/

/-- a natural-number rank with the same ORDER among the tests `ts` of one suite as the loaded ranks: how many siblings
    rank strictly below (the run-level project, the events and the report carry natural numbers) -/
def denseRank (ts : List Test) (t : Test) : Nat := ts.countP (fun u => keyLt u t)

/-- dependencies are the PATH arguments here; callables are replaced by the paths they select beforehand (`resolvePreds`);
    `rank` is the integer part of the loaded rank — `toSpecTests` puts the order-isomorphic `denseRank` in its place -/
def toSpecTest (t : Test) : Run.TestSpec :=
  { name := t.name, rank := t.rank, disabled := t.disabled.isDisabled
    disabledReason := (match t.disabled with | .reason _ => true | _ => false)
    deps := t.deps.filterMap DepArg.path?
    fixtures := t.fixtures   -- the arguments that are not parameters of the test (`Test.get_fixtures`)
    script := [] }

/-- the tests of one suite for the runner: each with a rank that orders it among its siblings as the loader's rank does -/
def toSpecTests (ts : List Test) : List Run.TestSpec := ts.map (fun t => { toSpecTest t with rank := denseRank ts t })

def hookScript (b : Bool) : Option Run.Script := if b then some [] else none

mutual
def toSpec : Suite → Run.SuiteSpec
  | .mk h ts subs =>
    .mk h.name h.rank h.disabled.isDisabled (h.setupSuite.map (fun ps => (ps, []))) (hookScript h.teardownSuite)
      (hookScript h.setupTest) (hookScript h.teardownTest) (h.injected.map (·.1)) (toSpecTests ts) (toSpecs subs)
def toSpecs : List Suite → List Run.SuiteSpec
  | [] => []
  | s :: rest => toSpec s :: toSpecs rest
end

/-- the project `run_suites(suites, …, force_disabled, stop_on_failure, nb_threads)` receives -/
def projOf (suites : List Suite) (nbThreads : Nat) (forceDisabled stopOnFailure : Bool) : Run.Proj :=
  { fixtures := [], suites := toSpecs suites, nbThreads := nbThreads, forceDisabled := forceDisabled, stopOnFailure := stopOnFailure }

/-- the same with the project's fixture registry (`project.load_fixtures()`: not part of the suite classes) -/
def projOfF (fixtures : List Run.Fx) (suites : List Suite) (nbThreads : Nat) (forceDisabled stopOnFailure : Bool) : Run.Proj :=
  { projOf suites nbThreads forceDisabled stopOnFailure with fixtures := fixtures }

/-! ## Decorators (`suite/builder.py`): each one is a transformer of the metadata of the decorated object

    Decorators are APPLIED bottom-up; `decorate` folds them in application order over the empty metadata.
    `tags`, `link` and `depends_on` EXTEND a list, `prop` sets a dict entry, `disabled` / `hidden` / `parametrized` /
    `test` / `suite` assign. -/

inductive Deco where
  | test (desc name : Option String)                       -- `@lcc.test(description, name)`
  | suite (desc name : Option String) (rank : Option Nat)  -- `@lcc.suite(description, name, rank)`
  | disabled (reason : Option String)                      -- `@lcc.disabled(reason)`: `reason if reason else True`
  | tags (ts : List String)                                -- `md.tags.extend(tag_names)`
  | prop (k v : String)                                    -- `md.properties[key] = value`
  | link (url : String) (name : Option String)             -- `md.links.append((url, name))`
  | hidden                                                 -- `visible_if(lambda _: False)`
  | dependsOn (args : List DepArg)                         -- `md.dependencies.extend(deps)`
  | parametrized (sets : List Params) (n : Naming)

def disabledOf (reason : Option String) : Disabled :=
  match reason with
  | none => .yes
  | some s => if s = "" then .yes else .reason s

def mdApply (m : Meta) : Deco → Meta
  | .tags ts => { m with tags := m.tags ++ ts }
  | .prop k v => { m with props := SuiteObj.dictSet m.props k v }
  | .link u n => { m with links := m.links ++ [(u, n)] }
  | _ => m

/-- one decorator applied to a test function -/
def applyDeco (d : TestDecl) (c : Deco) : TestDecl :=
  match c with
  | .test desc name => { d with desc := desc, name := name }
  | .disabled r => { d with disabled := disabledOf r }
  | .hidden => { d with hidden := true }
  | .dependsOn args => { d with deps := d.deps ++ args }
  | .parametrized sets n => { d with param := some (sets, n) }
  | .suite _ _ _ => d
  | c => { d with md := mdApply d.md c }

/-- **the declaration a decorated method stands for**: the decorators folded, in application order, over the bare
    function (`attr` = its name, `args` = its parameters after `self`, `rank` = what the counter gave `@lcc.test`) -/
def decorate (attr : String) (rank : Nat) (args : List String) (decos : List Deco) : TestDecl :=
  decos.foldl applyDeco { attr := attr, rank := rank, args := args }

/-- one decorator applied to a suite class (`depends_on` / `parametrized` on a class are rejected by assertions of the
    decorators themselves; they are not part of a class that could be imported) -/
def applyClsDeco (h : ClsHead) (c : Deco) : ClsHead :=
  match c with
  | .suite desc name rank => { h with desc := desc, name := name, rank := rank.getD h.rank }
  | .disabled r => { h with disabled := disabledOf r }
  | .hidden => { h with hidden := true }
  | .test _ _ => h
  | .dependsOn _ => h
  | .parametrized _ _ => h
  | c => { h with md := mdApply h.md c }

def decorateCls (attr : String) (rank : Nat) (obj : SuiteObj.Obj) (decos : List Deco) : ClsHead :=
  decos.foldl applyClsDeco { attr := attr, rank := rank, obj := obj }

/-- the arguments of the `depends_on` decorators among `decos` -/
def depArgs : Deco → List DepArg
  | .dependsOn args => args
  | _ => []

/-! ## Dependencies: callables resolved, validation (`resolve_tests_dependencies`, model `Model/Deps.lean`) -/

def dotted (p : Path) : String := ".".intercalate p

/-- `_normalize_test_dependencies` on one test: a path argument stays, a callable becomes the paths of the OTHER tests of
    the project it selects, in project order -/
def resolveTest (ι : String → Path → Test → Bool) (all : List (Path × Test)) (self : Path) (t : Test) : Test :=
  { t with deps := t.deps.flatMap (fun d => match d with
      | .path p => [.path p]
      | .pred k => (all.filter (fun pt => pt.1 != self && ι k pt.1 pt.2)).map (fun pt => DepArg.path pt.1)) }

mutual
def resolveSuite (ι : String → Path → Test → Bool) (all : List (Path × Test)) (parent : Path) : Suite → Suite
  | .mk h ts subs =>
    .mk h (ts.map (fun t => resolveTest ι all (parent ++ [h.name] ++ [t.name]) t)) (resolveSuitesIn ι all (parent ++ [h.name]) subs)
def resolveSuitesIn (ι : String → Path → Test → Bool) (all : List (Path × Test)) (parent : Path) : List Suite → List Suite
  | [] => []
  | s :: rest => resolveSuite ι all parent s :: resolveSuitesIn ι all parent rest
end

/-- the tree with every callable dependency replaced by the paths it selects -/
def resolvePreds (ι : String → Path → Test → Bool) (ss : List Suite) : List Suite :=
  resolveSuitesIn ι (suitesTests [] ss) [] ss

/-- a loaded test as `resolve_tests_dependencies` sees it (`flatten_tests_as_dict`: keyed by dotted path) -/
def toDepsT (ι : String → Path → Test → Bool) (all : List (Path × Test)) (pt : Path × Test) : Deps.T :=
  { path := dotted pt.1
    deps := pt.2.deps.map (fun d => match d with
      | .path p => Deps.Dep.path (dotted p)
      | .pred k => Deps.Dep.pred ((all.filter (fun qu => ι k qu.1 qu.2)).map (fun qu => dotted qu.1))) }

def depsTests (ι : String → Path → Test → Bool) (ss : List Suite) : List Deps.T :=
  (suitesTests [] ss).map (toDepsT ι (suitesTests [] ss))

/-- **`PreparedProject.create`: `resolve_tests_dependencies(suites, all_suites)`** — `keep` = the test paths a filter
    leaves in the run (`none`: no filter, everything is scheduled) -/
def validate (ι : String → Path → Test → Bool) (ss : List Suite) (keep : Option (List Path)) :
    Except Deps.Err (List (String × List String)) :=
  let all := depsTests ι ss
  let sched := match keep with
    | none => all
    | some ks => all.filter (fun t => ks.any (fun k => dotted k == t.path))
  Deps.resolve sched all

end LccModel.Expand

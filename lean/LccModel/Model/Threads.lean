/-
  M14 — shared-memory models of the small pieces of thread-sensitive code:
    * `Attach`  : the attachment counter of `session.py:Session.prepare_attachment` under
                  `_attachment_lock` (property C06);
    * `Factory` : `helpers/threading.py:ThreadedFactory` / `fixture.py:_PerThreadFixtureResult` (property C15).
  Threads are interleaved sequences of ATOMIC steps; an interleaving is a list of (thread id, step)
  accepted by the model's `step` function (program order per thread is enforced by a per-thread
  program counter, the order between threads is arbitrary).  Core Lean only.
-/
namespace LccModel.Threads

namespace Attach

/-
  with self._attachment_lock:                                                  -- acquire
      attachment_filename = "%04d_%s" % (self._attachment_count + 1, filename) -- readName
      self._attachment_count += 1                                              -- readInc ; writeInc
      (mkdir attachments dir if missing)
                                                                               -- release
  yield path   → the caller writes the file                                    -- writeFile
  self._flush_pending_events(); self.event_manager.fire(LogAttachmentEvent(…)) -- fireEvent

  `+= 1` on an attribute is a read followed by a write (two byte codes); both are modelled.
  A name is identified with its number (the `%04d` prefix): two names with different numbers differ
  whatever the pseudo file names are; with equal numbers and equal pseudo file names they collide.
-/

/-- where a thread is inside one `prepare_attachment` call (`n`: the number it computed for its name,
    `r`: the counter value it read for the increment) -/
inductive PC
  | idle
  | acquired
  | named (n : Nat)
  | incRead (n r : Nat)
  | incWritten (n : Nat)
  | released (n : Nat)
  | written (n : Nat)
deriving DecidableEq, Repr

inductive Act | acquire | readName | readInc | writeInc | release | writeFile | fireEvent
deriving DecidableEq, Repr

structure St where
  count : Nat                     -- `_attachment_count`
  lock : Option Nat               -- holder of `_attachment_lock`
  pc : Nat → PC                   -- per thread
  names : List (Nat × Nat)        -- ghost: (thread, number) of every name handed out, oldest first
  files : List Nat                -- numbers of the attachment files written to disk
  events : List Nat               -- numbers referenced by fired LogAttachmentEvents

def init : St := { count := 0, lock := none, pc := fun _ => .idle, names := [], files := [], events := [] }

def setPc (s : St) (t : Nat) (v : PC) : St := { s with pc := fun x => if x = t then v else s.pc x }

/-- One atomic step of thread `t`.  `useLock = false` is the variant WITHOUT `_attachment_lock`
    (acquire / release are no-ops), kept to document what the lock is for. -/
def step (useLock : Bool) (s : St) (t : Nat) : Act → Option St
  | .acquire =>
    match s.pc t with
    | .idle =>
      if useLock then
        match s.lock with
        | none => some { setPc s t .acquired with lock := some t }
        | some _ => none           -- blocked
      else some (setPc s t .acquired)
    | _ => none
  | .readName =>
    match s.pc t with
    | .acquired => some { setPc s t (.named (s.count + 1)) with names := s.names ++ [(t, s.count + 1)] }
    | _ => none
  | .readInc =>
    match s.pc t with
    | .named n => some (setPc s t (.incRead n s.count))
    | _ => none
  | .writeInc =>
    match s.pc t with
    | .incRead n r => some { setPc s t (.incWritten n) with count := r + 1 }
    | _ => none
  | .release =>
    match s.pc t with
    | .incWritten n => some { setPc s t (.released n) with lock := if useLock then none else s.lock }
    | _ => none
  | .writeFile =>
    match s.pc t with
    | .released n => some { setPc s t (.written n) with files := s.files ++ [n] }
    | _ => none
  | .fireEvent =>
    match s.pc t with
    | .written n => some { setPc s t .idle with events := s.events ++ [n] }
    | _ => none

/-- an interleaving: accepted iff every step is enabled when it is taken -/
def run (useLock : Bool) : St → List (Nat × Act) → Option St
  | s, [] => some s
  | s, (t, a) :: rest =>
    match step useLock s t a with
    | none => none
    | some s' => run useLock s' rest

end Attach

end LccModel.Threads

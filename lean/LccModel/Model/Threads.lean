/-
  M14 — threads as interleaved sequences of ATOMIC shared-memory steps.

  `LccModel.Threads.Factory` models `lemoncheesecake/helpers/threading.py:ThreadedFactory`
  (`get_object`, `teardown_factory`) and therefore `fixture.py:_PerThreadFixtureResult`, which is a
  `ThreadedFactory` whose `setup_object` builds the fixture result, whose `teardown_object` calls
  `result.teardown()`, whose `get` is `get_object().get()` and whose `teardown` is `teardown_factory()`.

      def get_object(self):                       -- source line        model step (label)
          try:
              return self._local.object           -- slot read: hit     getHit t o
          except AttributeError:                  --            miss    getMiss t
              obj = self.setup_object()           -- user code          setupOk t o | setupRaise t
              self._local.object = obj            -- slot write         writeSlot t
              self._objects.append(obj)           -- shared list        append t
              return obj                          --                    getRet t o

      def teardown_factory(self):                 -- (as repaired by /repo commit 8e1157b)
          first_exception = None                  -- iterator creation  tdBegin t
          for obj in self._objects:
              try:
                  self.teardown_object(obj)       -- user code          tdObj t o ok   (ok = false: it raises; the
              except Exception as excp:           --                    loop goes on; only the FIRST exception is
                  if first_exception is None:     --                    remembered: `pend` in the program counter)
                      first_exception = excp
          if first_exception is not None:         -- iterator exhausted tdEnd t (some o): re-raises the exception of
              raise first_exception               --                    object o   |   tdEnd t none: returns

  Before 8e1157b the loop was the bare `for obj in self._objects: self.teardown_object(obj)`: the first raising
  `teardown_object` ended it and the remaining objects were never torn down (D31).  `stepLegacy`/`runLegacy`
  keep that behaviour for documentation only; `step`/`run` are the code as it is now.

  `get_object` is NOT atomic: every source line is its own step and every thread has a program counter,
  so the steps of one thread follow program order while the steps of different threads interleave
  arbitrarily (including a second thread's first access in the middle of the first thread's creation).
  An interleaving is a list of labels accepted by `step` from `init`.

  Shared memory: `objects` (`self._objects`).  `slot t` is `self._local.object` as seen by thread t
  (`threading.local` is trusted: the slot of thread t is visible to t only).  Object identities are
  natural numbers; `setup_object` returns a FRESH object (ghost counter `next`) — a `setup_object` that
  returns an object it has already returned shares it by its own choice and is outside the model.
  `list.append` and one bytecode-level read/write of the thread-local are atomic (GIL).

  Ghost history (`creator`, `creations`, `returned`, `tdCount`, `tdBegins/tdEnds/tdRaises/tdObjRaises`,
  `tdOutcomes`) records who created which object, which object every `get_object` call handed to which
  thread, how often `teardown_object` was called per object and how every `teardown_factory` call ended, so
  that the statements of C15 are state invariants.
  Core Lean only.
-/
namespace LccModel.Threads

namespace Factory

/-- program counter of a thread with respect to ONE factory instance -/
inductive Pc
  /-- not inside `get_object` / `teardown_factory` -/
  | idle
  /-- `self._local.object` raised AttributeError; next: `obj = self.setup_object()` -/
  | missed
  /-- `setup_object` returned `o` (local variable `obj`); next: `self._local.object = obj` -/
  | created (o : Nat)
  /-- slot written; next: `self._objects.append(obj)` -/
  | stored (o : Nat)
  /-- appended; next: `return obj` -/
  | appended (o : Nat)
  /-- inside the `for` loop of `teardown_factory`; the list iterator stands at index `i`;
      `pend` = `first_exception`: the object whose `teardown_object` call was the first to raise in this run -/
  | tearing (i : Nat) (pend : Option Nat)
deriving DecidableEq, Repr, Inhabited

/-- why a label is not enabled (the acceptor reports it; theorems never rely on an error being "absorbed") -/
inductive Err
  /-- the thread's program counter does not allow this step (program order violated) -/
  | pc
  /-- `getHit` on an empty slot -/
  | slotEmpty
  /-- `getMiss` on a filled slot -/
  | slotFull
  /-- the object named by the label is not the one the code would see at this point -/
  | wrongObject
  /-- `setupOk` with an object identity that is not fresh -/
  | notFresh
  /-- `tdObj` while the iterator is exhausted / `tdEnd` while it is not -/
  | iter
  /-- `tdEnd` with an outcome (return / re-raise of a given exception) that is not what the code does here -/
  | outcome
deriving DecidableEq, Repr, Inhabited

structure St where
  /-- `self._local.object` of thread t (`none` = attribute missing) -/
  slot : Nat → Option Nat
  /-- `self._objects` -/
  objects : List Nat
  pc : Nat → Pc
  /-- ghost: identity the next successful `setup_object` call returns -/
  next : Nat
  /-- ghost: thread whose `setup_object` call returned the object -/
  creator : Nat → Option Nat
  /-- ghost: number of successful `setup_object` calls made by the thread -/
  creations : Nat → Nat
  /-- ghost: every completed `get_object` call, as (calling thread, returned object), in order -/
  returned : List (Nat × Nat)
  /-- ghost: number of `teardown_object(o)` calls (a raising call counts) -/
  tdCount : Nat → Nat
  /-- ghost: `teardown_factory` calls started / returned normally / ended by re-raising the first exception
      (a call that ends either way has gone through the WHOLE of `_objects`) -/
  tdBegins : Nat
  tdEnds : Nat
  tdRaises : Nat
  /-- ghost: number of `teardown_object` calls that raised -/
  tdObjRaises : Nat
  /-- ghost: how every completed `teardown_factory` call ended, in order: `none` = returned,
      `some o` = re-raised the exception of `teardown_object(o)` -/
  tdOutcomes : List (Option Nat)

/-- `ThreadedFactory.__init__` -/
def init : St :=
  { slot := fun _ => none, objects := [], pc := fun _ => .idle, next := 0,
    creator := fun _ => none, creations := fun _ => 0, returned := [],
    tdCount := fun _ => 0, tdBegins := 0, tdEnds := 0, tdRaises := 0, tdObjRaises := 0, tdOutcomes := [] }

/-- One atomic step; the first argument of every label is the executing thread. -/
inductive Label
  /-- `return self._local.object` succeeds: the call returns `o` -/
  | getHit (t o : Nat)
  /-- `self._local.object` raises AttributeError -/
  | getMiss (t : Nat)
  /-- `obj = self.setup_object()` returns the fresh object `o` -/
  | setupOk (t o : Nat)
  /-- `self.setup_object()` raises; `get_object` propagates the exception -/
  | setupRaise (t : Nat)
  /-- `self._local.object = obj` -/
  | writeSlot (t : Nat)
  /-- `self._objects.append(obj)` -/
  | append (t : Nat)
  /-- `return obj`: the call returns `o` -/
  | getRet (t o : Nat)
  /-- `teardown_factory` is entered: `iter(self._objects)` -/
  | tdBegin (t : Nat)
  /-- the iterator yields `o`; `self.teardown_object(o)` returns (`ok`) or raises (`ok = false`: caught,
      remembered if it is the first one, the loop continues) -/
  | tdObj (t o : Nat) (ok : Bool)
  /-- the iterator is exhausted: `teardown_factory` returns (`none`) or re-raises the first exception, the one
      raised by `teardown_object(o)` (`some o`) -/
  | tdEnd (t : Nat) (raised : Option Nat)
deriving DecidableEq, Repr, Inhabited

def step (s : St) : Label → Except Err St
  | .getHit t o =>
    match s.pc t with
    | .idle =>
      match s.slot t with
      | none => .error .slotEmpty
      | some o' => if o' = o then .ok { s with returned := s.returned ++ [(t, o)] } else .error .wrongObject
    | _ => .error .pc
  | .getMiss t =>
    match s.pc t with
    | .idle =>
      match s.slot t with
      | none => .ok { s with pc := fun x => if x = t then .missed else s.pc x }
      | some _ => .error .slotFull
    | _ => .error .pc
  | .setupOk t o =>
    match s.pc t with
    | .missed =>
      if o = s.next then
        .ok { s with
          pc := fun x => if x = t then .created o else s.pc x
          next := s.next + 1
          creator := fun x => if x = o then some t else s.creator x
          creations := fun x => if x = t then s.creations x + 1 else s.creations x }
      else .error .notFresh
    | _ => .error .pc
  | .setupRaise t =>
    match s.pc t with
    | .missed => .ok { s with pc := fun x => if x = t then .idle else s.pc x }
    | _ => .error .pc
  | .writeSlot t =>
    match s.pc t with
    | .created o =>
      .ok { s with
        slot := fun x => if x = t then some o else s.slot x
        pc := fun x => if x = t then .stored o else s.pc x }
    | _ => .error .pc
  | .append t =>
    match s.pc t with
    | .stored o =>
      .ok { s with
        objects := s.objects ++ [o]
        pc := fun x => if x = t then .appended o else s.pc x }
    | _ => .error .pc
  | .getRet t o =>
    match s.pc t with
    | .appended o' =>
      if o' = o then
        .ok { s with
          pc := fun x => if x = t then .idle else s.pc x
          returned := s.returned ++ [(t, o)] }
      else .error .wrongObject
    | _ => .error .pc
  | .tdBegin t =>
    match s.pc t with
    | .idle => .ok { s with pc := fun x => if x = t then .tearing 0 none else s.pc x, tdBegins := s.tdBegins + 1 }
    | _ => .error .pc
  | .tdObj t o ok =>
    match s.pc t with
    | .tearing i pend =>
      match s.objects[i]? with
      | none => .error .iter
      | some o' =>
        if o' = o then
          .ok { s with
            pc := fun x => if x = t then .tearing (i + 1) (if ok then pend else pend.or (some o)) else s.pc x
            tdCount := fun x => if x = o then s.tdCount x + 1 else s.tdCount x
            tdObjRaises := if ok then s.tdObjRaises else s.tdObjRaises + 1 }
        else .error .wrongObject
    | _ => .error .pc
  | .tdEnd t raised =>
    match s.pc t with
    | .tearing i pend =>
      match s.objects[i]? with
      | none =>
        if raised = pend then
          .ok { s with
            pc := fun x => if x = t then .idle else s.pc x
            tdEnds := if raised.isSome then s.tdEnds else s.tdEnds + 1
            tdRaises := if raised.isSome then s.tdRaises + 1 else s.tdRaises
            tdOutcomes := s.tdOutcomes ++ [raised] }
        else .error .outcome
      | some _ => .error .iter
    | _ => .error .pc

/-- fold `step` over an interleaving; the first rejected label aborts -/
def run : St → List Label → Except Err St
  | s, [] => .ok s
  | s, l :: ls =>
    match step s l with
    | .error e => .error e
    | .ok s' => run s' ls

/-- the thread executing the step -/
def Label.thread : Label → Nat
  | .getHit t _ | .getMiss t | .setupOk t _ | .setupRaise t | .writeSlot t | .append t | .getRet t _
  | .tdBegin t | .tdObj t _ _ | .tdEnd t _ => t

/-- the label belongs to a `teardown_factory` call -/
def Label.isTd : Label → Bool
  | .tdBegin .. | .tdObj .. | .tdEnd .. => true
  | _ => false

/-- the label is a `teardown_object` call that raises -/
def Label.isTdRaise : Label → Bool
  | .tdObj _ _ false => true
  | _ => false

/-- the object whose `teardown_object` call raises in this step, if it is such a step -/
def Label.raiseOf : Label → Option Nat
  | .tdObj _ o false => some o
  | _ => none

/-- `first_exception` after the steps `ls`, starting from `fr`: the first raising `teardown_object` call wins -/
def firstRaiseFrom (fr : Option Nat) (ls : List Label) : Option Nat :=
  ls.foldl (fun a l => a.or l.raiseOf) fr

/-- the object of the first raising `teardown_object` call in `ls` -/
def firstRaise (ls : List Label) : Option Nat := firstRaiseFrom none ls

/-- no thread is inside `get_object` or `teardown_factory` -/
def Quiescent (s : St) : Prop := ∀ t, s.pc t = .idle

/-! ### The loop as it was before /repo commit 8e1157b (documentation only)

    `for obj in self._objects: self.teardown_object(obj)` — a raising `teardown_object` ended the loop and the
    exception propagated at once.  Every other step is the same. -/

/-- LEGACY (before 8e1157b): like `step`, but a raising `teardown_object` call ends `teardown_factory` -/
def stepLegacy (s : St) : Label → Except Err St
  | .tdObj t o false =>
    match s.pc t with
    | .tearing i _ =>
      match s.objects[i]? with
      | none => .error .iter
      | some o' =>
        if o' = o then
          .ok { s with
            pc := fun x => if x = t then .idle else s.pc x
            tdCount := fun x => if x = o then s.tdCount x + 1 else s.tdCount x
            tdObjRaises := s.tdObjRaises + 1
            tdRaises := s.tdRaises + 1
            tdOutcomes := s.tdOutcomes ++ [some o] }
        else .error .wrongObject
    | _ => .error .pc
  | l => step s l

/-- LEGACY (before 8e1157b): fold `stepLegacy` -/
def runLegacy : St → List Label → Except Err St
  | s, [] => .ok s
  | s, l :: ls =>
    match stepLegacy s l with
    | .error e => .error e
    | .ok s' => runLegacy s' ls

end Factory

/-! ## `Attach` — the attachment counter of `session.py:Session.prepare_attachment` under `_attachment_lock`
    (property C06).  Same style: an interleaving is a list of (thread id, atomic step) accepted by `step`. -/

namespace Attach

/-
  with self._attachment_lock:                                                  -- acquire
      attachment_filename = "%04d_%s" % (self._attachment_count + 1, filename) -- readName
      self._attachment_count += 1                                              -- readInc ; writeInc
      (mkdir attachments dir if missing)
                                                                               -- release
  yield path   → the caller writes the file                                    -- writeFile
               (the caller's body raises, before or after writing: the generator is left, nothing below runs  -- abort)
  self._flush_pending_events(); self.event_manager.fire(LogAttachmentEvent(…)) -- fireEvent

  `+= 1` on an attribute is a read followed by a write (two byte codes); both are modelled.
  A name is identified with its number (the `%04d` prefix): two names with different numbers differ
  whatever the pseudo file names are; with equal numbers and equal pseudo file names they collide.
-/

/-- where a thread is inside one `prepare_attachment` call (`n`: the number it computed for its name,
    `r`: the counter value it read for the increment) -/
inductive PC
  | idle
  | acquired
  | named (n : Nat)
  | incRead (n r : Nat)
  | incWritten (n : Nat)
  | released (n : Nat)
  | written (n : Nat)
deriving DecidableEq, Repr

inductive Act | acquire | readName | readInc | writeInc | release | writeFile | fireEvent | abort
deriving DecidableEq, Repr

structure St where
  count : Nat                     -- `_attachment_count`
  lock : Option Nat               -- holder of `_attachment_lock`
  pc : Nat → PC                   -- per thread
  names : List (Nat × Nat)        -- ghost: (thread, number) of every name handed out, oldest first
  files : List Nat                -- numbers of the attachment files written to disk
  events : List Nat               -- numbers referenced by fired LogAttachmentEvents

def init : St := { count := 0, lock := none, pc := fun _ => .idle, names := [], files := [], events := [] }

def setPc (s : St) (t : Nat) (v : PC) : St := { s with pc := fun x => if x = t then v else s.pc x }

/-- One atomic step of thread `t`.  `useLock = false` is the variant WITHOUT `_attachment_lock`
    (acquire / release are no-ops), kept to document what the lock is for. -/
def step (useLock : Bool) (s : St) (t : Nat) : Act → Option St
  | .acquire =>
    match s.pc t with
    | .idle =>
      if useLock then
        match s.lock with
        | none => some { setPc s t .acquired with lock := some t }
        | some _ => none           -- blocked
      else some (setPc s t .acquired)
    | _ => none
  | .readName =>
    match s.pc t with
    | .acquired => some { setPc s t (.named (s.count + 1)) with names := s.names ++ [(t, s.count + 1)] }
    | _ => none
  | .readInc =>
    match s.pc t with
    | .named n => some (setPc s t (.incRead n s.count))
    | _ => none
  | .writeInc =>
    match s.pc t with
    | .incRead n r => some { setPc s t (.incWritten n) with count := r + 1 }
    | _ => none
  | .release =>
    match s.pc t with
    | .incWritten n => some { setPc s t (.released n) with lock := if useLock then none else s.lock }
    | _ => none
  | .writeFile =>
    match s.pc t with
    | .released n => some { setPc s t (.written n) with files := s.files ++ [n] }
    | _ => none
  | .fireEvent =>
    match s.pc t with
    | .written n => some { setPc s t .idle with events := s.events ++ [n] }
    | _ => none
  | .abort =>
    -- the caller's `with` body raised (before or after it wrote the file): the exception is thrown into the
    -- generator at its `yield` and leaves it — no flush, no event; the number stays handed out
    match s.pc t with
    | .released _ => some (setPc s t .idle)
    | .written _ => some (setPc s t .idle)
    | _ => none

/-- an interleaving: accepted iff every step is enabled when it is taken -/
def run (useLock : Bool) : St → List (Nat × Act) → Option St
  | s, [] => some s
  | s, (t, a) :: rest =>
    match step useLock s t a with
    | none => none
    | some s' => run useLock s' rest

end Attach

end LccModel.Threads

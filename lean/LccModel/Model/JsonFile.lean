/-
  M10 (file layer of the JSON backend) — `reporting/backends/json_.py`:

    save_report_into_file(report, filename, javascript_compatibility=True, pretty_formatting=False)
        writes  [JS_PREFIX]  ++  json.dumps(serialize_report_into_json(report)[, indent=4])
    load_report_from_file(filename)
        reads the text, `re.sub("^" + JS_PREFIX, "", text)` (anchored at the start of the file: at most one removal,
        at offset 0 only), `json.loads`, version check, `_unserialize_report`.

  The two options of `JsonBackend` are part of the model (`Opts`); `pretty_formatting` only selects one of two
  renderings of the same JSON value (`render pretty`), the text layer `json.dumps` / `json.loads` stays a parameter
  (see `Model/Serial.lean`), with two facts it must satisfy: it is the identity on values, and the rendering of an
  object starts with `{` (validated on every real file by stream `C09.json`).

  Also here: the text layer's `ensure_ascii` escaping (`jsonEscape`, validated against `json.dumps` by stream
  `C09.jsontext`) and the encodability of a text by the file's (locale) encoding — what decides whether
  `fh.write(text)` raises `UnicodeEncodeError` (used by C10: a save that raises refreshes nothing).

  Core Lean only.
-/
namespace LccModel.JsonFile

/-! ## framing: the JavaScript prefix -/

/-- `JS_PREFIX = "var reporting_data = "` -/
def jsPrefix : List Char := "var reporting_data = ".toList

/-- the options of `JsonBackend(javascript_compatibility=True, pretty_formatting=False)` -/
structure Opts where
  jsCompat : Bool
  pretty : Bool
deriving DecidableEq, Repr, Inhabited

/-- what `save_report_into_file` writes, given the text `json.dumps` produced -/
def frame (o : Opts) (body : List Char) : List Char := if o.jsCompat then jsPrefix ++ body else body

/-- `s` without the leading `p`, if `s` starts with `p` -/
def dropPrefix? : List Char → List Char → Option (List Char)
  | [], s => some s
  | _ :: _, [] => none
  | p :: ps, c :: cs => if p = c then dropPrefix? ps cs else none

/-- `re.sub("^" + JS_PREFIX, "", text)`: the prefix is removed at offset 0 only -/
def unframe (text : List Char) : List Char :=
  match dropPrefix? jsPrefix text with
  | some rest => rest
  | none => text

/-- first occurrence of `p` anywhere in `s` removed (`str.replace(p, "", 1)`): NOT what the loader does; kept to
    state that the anchoring matters (`unanchored_strip_refuted`) -/
def removeFirst (p : List Char) : List Char → List Char
  | [] => []
  | c :: cs =>
    match dropPrefix? p (c :: cs) with
    | some rest => rest
    | none => c :: removeFirst p cs

/-! ## `ensure_ascii` escaping of `json.dumps` (code points; a lone surrogate is an ordinary code point here) -/

def hexDigit (n : Nat) : Nat := if n < 10 then 48 + n else 87 + n      -- '0'..'9', 'a'..'f'

/-- `\uXXXX` -/
def u4 (n : Nat) : List Nat := [92, 117, hexDigit (n / 4096 % 16), hexDigit (n / 256 % 16), hexDigit (n / 16 % 16), hexDigit (n % 16)]

/-- `json.encoder.py_encode_basestring_ascii` on one code point: printable ASCII stays (except `"` and `\`), the
    short escapes, `\uXXXX` for the rest of the BMP (lone surrogates included), a surrogate pair above it -/
def escapeChar (c : Nat) : List Nat :=
  if c = 34 then [92, 34]
  else if c = 92 then [92, 92]
  else if c = 10 then [92, 110]
  else if c = 13 then [92, 114]
  else if c = 9 then [92, 116]
  else if c = 8 then [92, 98]
  else if c = 12 then [92, 102]
  else if 32 ≤ c ∧ c ≤ 126 then [c]
  else if c < 65536 then u4 c
  else u4 (55296 + ((c - 65536) / 1024) % 1024) ++ u4 (56320 + (c - 65536) % 1024)

/-- the text of a JSON string (between the quotes) -/
def jsonEscape (s : List Nat) : List Nat := s.flatMap escapeChar

/-! ## the file's text encoding (`open(path, "w")`: the locale encoding, errors="strict") -/

inductive Encoding | ascii | latin1 | utf8
deriving DecidableEq, Repr, Inhabited

/-- can the codec encode this code point?  (UTF-8 refuses the surrogates U+D800..U+DFFF) -/
def encodable : Encoding → Nat → Bool
  | .ascii, c => c < 128
  | .latin1, c => c < 256
  | .utf8, c => c < 55296 || (57343 < c && c < 1114112)

/-- `fh.write(text)` succeeds iff every code point is encodable (`none`: `UnicodeEncodeError`) -/
def writeOk (e : Encoding) (text : List Nat) : Bool := text.all (encodable e)

end LccModel.JsonFile

/-
  Model of `lemoncheesecake/project.py:PreparedProject.create` (what `lcc check` and `lcc run` do
  before anything executes): metadata policy, test dependency resolution, fixture registry
  construction, `check_dependencies`, `check_fixtures_in_suites` — in that order.
  Core Lean only.
-/
import LccModel.Model.Fixture
import LccModel.Model.Deps
import LccModel.Model.Policy

namespace LccModel.Prepare

/-- a test as declared -/
structure PTest where
  path : String
  args : List String                      -- arguments of the test function
  parameters : List String                -- names bound by `@lcc.parametrized`
  disabled : Bool
  deps : List Deps.Dep                    -- `@lcc.depends_on(...)`
  props : List (String × String)
  tags : List String
deriving Repr

/-- a suite as declared -/
inductive PSuite where
  | mk (path : String) (disabled : Bool) (injected : List String) (setupArgs : List String)
       (props : List (String × String)) (tags : List String)
       (tests : List PTest) (subs : List PSuite)
deriving Repr

structure Project where
  policy : Policy.Policy
  decls : List Fixture.Decl       -- `project.load_fixtures()`, one entry per decorated function
  all : List PSuite               -- `project.load_suites()`
  sched : List PSuite             -- the suites going to be run (`all`, or a filtered copy of it)
deriving Repr

inductive ValidationErr where
  | policy (e : Policy.Err)
  | deps (e : Deps.Err)
  | fixture (e : Fixture.Err)
deriving Repr

/-- the error is of a class the code raises as `ValidationError` (not a crash, not unbounded recursion) -/
def ValidationErr.isValidation : ValidationErr → Bool
  | .policy _ => true
  | .deps e => e.isValidation
  | .fixture e => e.isValidation

structure Prepared where
  registry : Fixture.Registry
  resolved : List (String × List String)     -- `test.resolved_dependencies` per scheduled test
deriving Repr

def PTest.toFixture (t : PTest) : Fixture.Test := ⟨t.path, t.args, t.parameters, t.disabled⟩
def PTest.toDeps (t : PTest) : Deps.T := ⟨t.path, t.deps⟩
def PTest.toNode (t : PTest) : Policy.Node := ⟨.test, t.path, t.props, t.tags⟩

mutual
def toFixtureSuite : PSuite → Fixture.Suite
  | .mk path dis inj args _ _ tests subs => .mk path dis inj args (tests.map PTest.toFixture) (toFixtureSuites subs)
def toFixtureSuites : List PSuite → List Fixture.Suite
  | [] => []
  | s :: rest => toFixtureSuite s :: toFixtureSuites rest
end

mutual
/-- `flatten_tests`: the suite's tests, then those of its sub-suites (pre-order) -/
def flatTests : PSuite → List Deps.T
  | .mk _ _ _ _ _ _ tests subs => tests.map PTest.toDeps ++ flatTestsL subs
def flatTestsL : List PSuite → List Deps.T
  | [] => []
  | s :: rest => flatTests s ++ flatTestsL rest
end

mutual
/-- the order in which `check_suites_compliance` visits the nodes -/
def nodes : PSuite → List Policy.Node
  | .mk path _ _ _ props tags tests subs => ⟨.suite, path, props, tags⟩ :: (tests.map PTest.toNode ++ nodesL subs)
def nodesL : List PSuite → List Policy.Node
  | [] => []
  | s :: rest => nodes s ++ nodesL rest
end

/-- `PreparedProject.create(project, suites)` -/
def prepare (p : Project) : Except ValidationErr Prepared :=
  match Policy.checkNodes p.policy (nodesL p.sched) with
  | .error e => .error (.policy e)
  | .ok () =>
    match Deps.resolve (flatTestsL p.sched) (flatTestsL p.all) with
    | .error e => .error (.deps e)
    | .ok resolved =>
      match Fixture.build p.decls with
      | .error e => .error (.fixture e)
      | .ok R =>
        match Fixture.checkDependencies R with
        | .error e => .error (.fixture e)
        | .ok () =>
          match Fixture.checkFixturesInSuites R (toFixtureSuites p.sched) with
          | .error e => .error (.fixture e)
          | .ok () => .ok ⟨R, resolved⟩

end LccModel.Prepare

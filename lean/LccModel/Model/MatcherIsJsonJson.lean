/-
  JSON syntax of the `is_json` usage shapes (`Model/MatcherIsJson.lean`) and the request handler of `drivers/C16.lean`
  for the stream `C16.json`.  Core Lean only.

  JM : ["is_json", Val] | ["not_", JM] | ["all_of", [JM, JM]] | ["any_of", [JM, JM]] | ["has_entry", [key…], JM]
       | any other Expr of `MatcherJson` (lifted)
-/
import LccModel.Model.MatcherIsJson
import LccModel.Model.MatcherJson

namespace LccModel.MatcherIsJsonJson
open Lean LccModel.Matcher LccModel.MatcherJson

partial def parseJM (j : Json) : Except String JM := do
  let a ← j.getArr?
  let c ← (a[0]?.getD Json.null).getStr?
  let x := a[1]?.getD Json.null
  let y := a[2]?.getD Json.null
  let pair (j : Json) : Except String (JM × JM) := do
    let xs ← j.getArr?
    if xs.size != 2 then throw "all_of / any_of around is_json take two arguments"
    pure (← parseJM xs[0]!, ← parseJM xs[1]!)
  match c with
  | "is_json" => pure (.isJson (← parseVal x))
  | "not_" => pure (.not (← parseJM x))
  | "all_of" => do let p ← pair x; pure (.both p.1 p.2)
  | "any_of" => do let p ← pair x; pure (.either p.1 p.2)
  | "has_entry" => pure (.entry (← (← x.getArr?).toList.mapM parseKey) (← parseJM y))
  | _ => pure (.lift (build (← parseExpr j)))

/-- request `{jm, value}`: success flag / raised class of `matches()` (the diff text is not part of the answer: the model
    is evaluated with the empty diff, `C16Json.okJ_diff_irrelevant`), and the reference semantics -/
def handle (j : Json) : Except String Json := do
  let m ← parseJM (← j.getObjVal? "jm")
  let v ← parseVal (← j.getObjVal? "value")
  pure (Json.mkObj [("ok", boolEJ (okJ (fun _ _ => []) m v)), ("sem", boolEJ (semJ m v))])

end LccModel.MatcherIsJsonJson

/-
  The EXACT ranks the loader gives to tests (suite/loader.py): a declared test gets the rank of its declaration (`r`, counted
  1, 2, 3 … by `_get_metadata_next_rank`), the `idx`-th expansion of a parametrized declaration gets `r + idx / (idx + 1)`.
  Ranks are compared as fractions of natural numbers (cross-multiplication; denominators are positive).  Core Lean only.

  `Model/Expand.lean` keeps the pair `(rank, sub)` instead of the fraction and orders it lexicographically;
  `Props/C05Rank.lean` proves that this IS the order of the fractions, that the expansions of one declaration are strictly
  increasing and stay strictly below the next declared rank — for every index —, and that no constant increment has that property.
-/
namespace LccModel.RankFrac

/-- a non-negative fraction `num / den` (`den > 0` in every use) -/
structure Frac where
  num : Nat
  den : Nat
deriving Repr, DecidableEq, Inhabited

/-- `a < b` -/
def Frac.lt (a b : Frac) : Bool := decide (a.num * b.den < b.num * a.den)

/-- the rank of a declared test -/
def declRank (r : Nat) : Frac := ⟨r, 1⟩

/-- `r + idx / (idx + 1)`: the rank of the `idx`-th expansion (0-based) of the parametrized test declared at rank `r` -/
def variantRank (r idx : Nat) : Frac := ⟨r * (idx + 1) + idx, idx + 1⟩

/-- `r + idx * (1 / n)`: what a CONSTANT increment `1 / n` would give -/
def fixedStepRank (r n idx : Nat) : Frac := ⟨r * n + idx, n⟩

/-- strictly increasing from each element to the next -/
def chainLt : List Frac → Bool
  | a :: b :: rest => a.lt b && chainLt (b :: rest)
  | _ => true

/-- the ranks `rs` of the expansions of ONE declaration (in parameter-set order), observed on the real loader, are strictly
    increasing, not below the rank `decl` of the declaration and strictly below the rank `next` of the test declared after it -/
def ranksOk (decl next : Frac) (rs : List Frac) : Bool :=
  chainLt rs && rs.all (fun x => !x.lt decl && x.lt next)

/-- a suite as declared: tests in declaration order, `none` = a plain test, `some n` = a parametrized test with `n` parameter sets -/
abbrev Decls := List (String × Option Nat)

/-- the tests the loader makes of the declarations from rank `r` on, each with its exact rank -/
def loadedRanks : Nat → Decls → List (String × Frac)
  | _, [] => []
  | r, (name, none) :: rest => (name, declRank r) :: loadedRanks (r + 1) rest
  | r, (name, some n) :: rest =>
    (List.range n).map (fun idx => (name ++ "_" ++ toString (idx + 1), variantRank r idx)) ++ loadedRanks (r + 1) rest

/-- `SuiteResult.get_tests()`: a stable sort by rank of the results in the order they were added (`arrival`) -/
def insertByRank (x : String × Frac) : List (String × Frac) → List (String × Frac)
  | [] => [x]
  | y :: ys => if x.2.lt y.2 then x :: y :: ys else y :: insertByRank x ys

def sortByRank : List (String × Frac) → List (String × Frac)
  | [] => []
  | x :: xs => insertByRank x (sortByRank xs)

def reportOrder (arrival : List (String × Frac)) : List String := (sortByRank arrival).map (·.1)

end LccModel.RankFrac

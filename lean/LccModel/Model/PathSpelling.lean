/-
  M9 `Loader`, refinement: the SPELLING of the directory argument of `load_suites_from_directory` is a model input.

  `Loader.loadDir` pairs a module suite with its companion directory through the abstract key `Key.file stem`.  The real code
  does it with PATH STRINGS: the module suite is stored under the file name that `glob.glob(os.path.join(dir, "*.py"))`
  yields — `glob` splits its pattern with `os.path.split`, whose head loses ALL its trailing separators unless it consists of
  separators only, and yields `os.path.join(head, name)`: `fileKey` below — and the companion of the sub-directory
  `dirname = os.path.join(dir, name)` is `suites.get(dirname + ".py")`, `dir` spelled exactly as the caller spelled it.
  The two agree when `dir` has at most one trailing separator (or is all separators); for `suites//` they do not
  (`suites//api.py` against `suites/api.py`): finding D47, `spellingOk` is the guard.  A synthetic suite is stored under
  its bare name (`suites[suite.name] = suite`).  The recursion goes into `dirname`, i.e. with the spelling
  `os.path.join(dir, name)`.

  Here the `suites` dict is a `PTable` keyed by `String`, the spelling `sp` is a parameter, and the lookup is literally
  `t.lookup (joinPath sp dname ++ ".py")`.  `Props/C13Spelling.lean` proves that the loaded forest does not depend on `sp`
  (and equals `Loader.loadDir`) for every spelling with `spellingOk sp`, when every directory name / module stem is a
  non-empty path component without `/` (which a file system guarantees), and refutes it for `suites//`.  A sub-directory scan that NORMALISES its paths (`pathlib`: `./suites` → `suites`, `a//b` → `a/b`)
  while the file names keep the caller's spelling is `loadDirAtNormalising` below: the lookup misses.

  Strings: `joinPath` is defined through `String.toList` / `String.ofList` (`joinChars` on `List Char`), which is what the
  proofs use (`String.toList_ofList`, `String.toList_append`); the table itself is keyed by `String`.
  Core Lean + `LccModel.Model.Loader` only.
-/
import LccModel.Model.Loader

namespace LccModel.PathSpelling
open LccModel.Loader

/-- POSIX `os.path.join(dir, name)` on characters, for a `name` that does not start with `/`:
    `dir + name` when `dir` is empty or ends with `/`, else `dir + "/" + name`. -/
def joinChars (dir name : List Char) : List Char :=
  if dir = [] ∨ dir.getLast? = some '/' then dir ++ name else dir ++ '/' :: name

/-- POSIX `os.path.join(dir, name)` (for a `name` that does not start with `/`). -/
def joinPath (dir name : String) : String := String.ofList (joinChars dir.toList name.toList)

/-- all trailing `/` removed -/
def stripTrail (l : List Char) : List Char := (l.reverse.dropWhile (· == '/')).reverse

def allSlash (l : List Char) : Bool := l.all (· == '/')

/-- head of `os.path.split(os.path.join(dir, "*.py"))` on characters: `dir` without its trailing separators, unless `dir`
    consists of separators only (`head.rstrip("/")` is applied only when `head != "/" * len(head)`). -/
def globHeadChars (l : List Char) : List Char := if allSlash l then l else stripTrail l

/-- the directory part `glob.glob(os.path.join(dir, "*.py"))` puts in front of the names it yields -/
def globHead (sp : String) : String := String.ofList (globHeadChars sp.toList)

/-- the path `glob.glob(os.path.join(sp, "*.py"))` yields for the file `name`: `os.path.join(head, name)` -/
def fileKey (sp name : String) : String := joinPath (globHead sp) name

/-- the spelling ends with two (or more) separators -/
def endsDouble (l : List Char) : Bool :=
  match l.reverse with
  | '/' :: '/' :: _ => true
  | _ => false

/-- The spellings for which `glob`'s file names and `os.path.join(dir, name)` use the same prefix: non-empty (the code
    rejects a non-existing directory; `""` does not exist) and not ending with `//` — unless all separators (`/`, `//`). -/
def spellingOk (sp : String) : Bool := !sp.toList.isEmpty && (allSlash sp.toList || !endsDouble sp.toList)

/-- The real `suites` dict: keyed by path string.  Module suites: the file name `fileKey sp (stem ++ ".py")`;
    synthetic suites: the bare suite name (`suites[suite.name] = suite`). -/
abbrev PTable := List (String × Suite)

/-- First loop: `for filename in get_py_files_from_dir(dir): …; if not suite.hidden: suites[filename] = suite`,
    `filename = fileKey sp (stem + ".py")`, what `glob` yields. -/
def loadModTableAt (sp : String) : List Module → Except LoadErr PTable
  | [] => .ok []
  | m :: rest =>
    match loadFile m with
    | .error e => .error e
    | .ok s =>
      match loadModTableAt sp rest with
      | .error e => .error e
      | .ok t => .ok (if s.hidden then t else (fileKey sp (m.stem ++ ".py"), s) :: t)

/-- `suites[k] = s` on an existing key (position kept). -/
def PTable.update (k : String) (s : Suite) : PTable → PTable
  | [] => []
  | (k', s') :: rest => if k' = k then (k', s) :: rest else (k', s') :: PTable.update k s rest

/-- Second loop: `dirname = os.path.join(dir, name)`; `suite = suites.get(dirname + ".py")`; a synthetic suite goes
    under its bare name. -/
def mergeDirsAt (sp : String) (t : PTable) : List (String × Except LoadErr (List Suite)) → Except LoadErr PTable
  | [] => .ok t
  | (dname, r) :: rest =>
    match r with
    | .error e => .error e
    | .ok subs =>
      match t.lookup (joinPath sp dname ++ ".py") with
      | some s =>
        match attach s subs with
        | .error e => .error e
        | .ok s' => mergeDirsAt sp (PTable.update (joinPath sp dname ++ ".py") s' t) rest
      | none =>
        match attach (synthetic dname) subs with
        | .error e => .error e
        | .ok s' => mergeDirsAt sp (t ++ [(dname, s')]) rest

mutual
/-- `load_suites_from_directory(sp)` where `sp` is the caller's spelling of the path of the directory `d`;
    the recursion into the sub-directory `d'` is made with the spelling `os.path.join(sp, d'.name)`. -/
def loadDirAt (sp : String) : Dir → Except LoadErr (List Suite)
  | .mk _ mods dirs =>
    match loadModTableAt sp (sortMods mods) with
    | .error e => .error e
    | .ok t =>
      match mergeDirsAt sp t (sortDirResults (loadDirListAt sp dirs)) with
      | .error e => .error e
      | .ok t' => .ok (finalSort (t'.map Prod.snd))
def loadDirListAt (sp : String) : List Dir → List (String × Except LoadErr (List Suite))
  | [] => []
  | d :: ds => (d.name, loadDirAt (joinPath sp d.name) d) :: loadDirListAt sp ds
end

/-- `load_suites_from_directory(sp)` on the real layout (dunder members of classes do not exist for the loader). -/
def loadDirRealAt (sp : String) (d : Dir) : Except LoadErr (List Suite) := loadDirAt sp (stripDir d)

/-! ## The guard: names are path components -/

/-- no `/` in it -/
def noSlash (s : String) : Bool := !s.toList.contains '/'

/-- a path component: non-empty, no `/` in it -/
def compOk (s : String) : Bool := !s.toList.isEmpty && noSlash s

mutual
/-- Every sub-directory name and every module stem in the tree is a path component (non-empty, no `/`) — what a file system
    guarantees.  (A synthetic suite is stored under its bare name; with a `/` in a name that key could collide with a file
    name.  A non-empty name makes the spelling `os.path.join(sp, name)` of the recursion end without separator.)
    The name of the root itself is not constrained: the loader never reads it, it reads the spelling. -/
def namesOk : Dir → Bool
  | .mk _ mods dirs => mods.all (fun m => compOk m.stem) && namesOkList dirs
def namesOkList : List Dir → Bool
  | [] => true
  | d :: ds => compOk d.name && namesOk d && namesOkList ds
end

/-! ## The simulation relation with `Loader.Table` (used by the statements of `Props/C13Spelling.lean`) -/

/-- what the real dict key of an abstract `Key` is, under the (accepted) spelling `sp` -/
def enc (sp : String) : Key → String
  | .file s => joinPath sp (s ++ ".py")
  | .dir n => n

/-- the path-keyed dict that represents the `Key`-keyed one -/
def encT (sp : String) (t : Table) : PTable := t.map (fun p => (enc sp p.1, p.2))

/-- a synthetic key contains no `/` -/
def goodKey : Key → Prop
  | .file _ => True
  | .dir n => noSlash n = true

def GoodT (t : Table) : Prop := ∀ p ∈ t, goodKey p.1

/-- the `Except` functor, spelled out -/
def mapE (f : α → β) : Except LoadErr α → Except LoadErr β
  | .error e => .error e
  | .ok a => .ok (f a)

/-! ## The seeded defect shape: a sub-directory scan that normalises its paths

  `norm` is the normalisation applied by the scan to the spelling of the directory (`pathlib.Path(top_dir)`); the file
  names of the first loop keep the caller's spelling `sp`. -/

def mergeDirsAtNormalising (norm : String → String) (sp : String) (t : PTable) :
    List (String × Except LoadErr (List Suite)) → Except LoadErr PTable
  | [] => .ok t
  | (dname, r) :: rest =>
    match r with
    | .error e => .error e
    | .ok subs =>
      match t.lookup (joinPath (norm sp) dname ++ ".py") with
      | some s =>
        match attach s subs with
        | .error e => .error e
        | .ok s' => mergeDirsAtNormalising norm sp (PTable.update (joinPath (norm sp) dname ++ ".py") s' t) rest
      | none =>
        match attach (synthetic dname) subs with
        | .error e => .error e
        | .ok s' => mergeDirsAtNormalising norm sp (t ++ [(dname, s')]) rest

mutual
def loadDirAtNormalising (norm : String → String) (sp : String) : Dir → Except LoadErr (List Suite)
  | .mk _ mods dirs =>
    match loadModTableAt sp (sortMods mods) with
    | .error e => .error e
    | .ok t =>
      match mergeDirsAtNormalising norm sp t (sortDirResults (loadDirListAtNormalising norm sp dirs)) with
      | .error e => .error e
      | .ok t' => .ok (finalSort (t'.map Prod.snd))
def loadDirListAtNormalising (norm : String → String) (sp : String) : List Dir → List (String × Except LoadErr (List Suite))
  | [] => []
  | d :: ds => (d.name, loadDirAtNormalising norm (joinPath (norm sp) d.name) d) :: loadDirListAtNormalising norm sp ds
end

/-- strip a leading `./` (the part of `pathlib` normalisation that bites on `./suites`) -/
def dropDotSlash (s : String) : String :=
  match s.toList with
  | '.' :: '/' :: rest => String.ofList rest
  | _ => s

/-! ## The witness layout of the examples and of the refutation

  `suites/api.py` (one test, no `SUITE`) and its companion directory `suites/api/` holding `users.py` (one test). -/

def exTree : Dir :=
  .mk "suites" [{ stem := "api", autoRank := 1, tests := [{ attr := "ping", rank := 1 }] }]
    [.mk "api" [{ stem := "users", autoRank := 1, tests := [{ attr := "list_users", rank := 1 }] }] []]

/-- the test paths of a load result (`none`: the load raised) -/
def pathsOf (r : Except LoadErr (List Suite)) : Option (List (List String)) :=
  r.toOption.map (fun ss => (Suite.entriesList ss).map Prod.fst)

/-- the number of top-level suites of a load result -/
def topCount (r : Except LoadErr (List Suite)) : Option Nat := r.toOption.map List.length

end LccModel.PathSpelling

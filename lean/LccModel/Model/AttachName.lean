/-
  M14d — the NAME of an attachment file (session.py `prepare_attachment`):

      attachment_filename = "%04d_%s" % (self._attachment_count + 1, filename)

  The file is created as  <report dir>/attachments/<attachment_filename>  and the `LogAttachmentEvent` (hence the
  report, every backend, every saved file) references  "attachments/<attachment_filename>"  — the SAME string.
  `filename` is whatever the test passes: any characters (`%`, `#`, `?`, `&`, blanks, quotes, non-ASCII, leading
  dots, further `_`, digits), any length.  The stored name is a function of (counter, given name); this file
  defines it on character lists so that it can be reasoned about (`Lemmas/AttachName.lean`), and says which names
  the file system takes (`storable`: a single path component of at most `nameMax` bytes) — the others make the
  body of the block raise `OSError` (ENAMETOOLONG / ENOENT), which leaves the block by an exception.

  Core Lean only.
-/
namespace LccModel.AttachName

def digitChar : Nat → Char
  | 0 => '0' | 1 => '1' | 2 => '2' | 3 => '3' | 4 => '4' | 5 => '5' | 6 => '6' | 7 => '7' | 8 => '8' | _ => '9'

/-- the value of a decimal digit (0 for any other character) -/
def charVal (c : Char) : Nat :=
  if c = '1' then 1 else if c = '2' then 2 else if c = '3' then 3 else if c = '4' then 4 else if c = '5' then 5
  else if c = '6' then 6 else if c = '7' then 7 else if c = '8' then 8 else if c = '9' then 9 else 0

/-- `"%d" % n`, with fuel (structural: `decide` can evaluate it) -/
def digitsF : Nat → Nat → List Char
  | 0, _ => []
  | fuel + 1, n => if n < 10 then [digitChar n] else digitsF fuel (n / 10) ++ [digitChar (n % 10)]

def digits (n : Nat) : List Char := digitsF (n + 1) n

/-- `"%04d" % n`: left-padded with zeros to four characters, longer numbers are NOT cut -/
def pad4 (ds : List Char) : List Char := List.replicate (4 - ds.length) '0' ++ ds

/-- `"%04d_%s" % (n, filename)` -/
def stored (n : Nat) (filename : List Char) : List Char := pad4 (digits n) ++ '_' :: filename

/-- what a decimal numeral denotes -/
def value (cs : List Char) : Nat := cs.foldl (fun a c => 10 * a + charVal c) 0

/-- NAME_MAX of the file system holding the report directory (bytes of one path component; 255 on ext4, tmpfs,
    overlayfs, xfs, btrfs, APFS …; probed by the harness on every run) -/
def nameMax : Nat := 255

def utf8Len (cs : List Char) : Nat := (cs.map Char.utf8Size).foldl (· + ·) 0

/-- the file system accepts `open(<attachments dir>/<stored n filename>, "w")`: the stored name is ONE path
    component (a `/` in it points into a directory `NNNN_…` that does not exist: ENOENT) of at most `nameMax` bytes
    (else ENAMETOOLONG) -/
def storable (n : Nat) (filename : List Char) : Bool :=
  !filename.contains '/' && decide (utf8Len (stored n filename) ≤ nameMax)

end LccModel.AttachName

namespace LccModel.AttachName

/-- THE VARIANT THAT IS NOT THE CODE (kept for the refutation `C06Name.cut_names_collide`): "cap the stored name to
    255 characters by keeping its END" -/
def cutStored (n : Nat) (filename : List Char) : List Char :=
  let s := stored n filename
  s.drop (s.length - nameMax)

end LccModel.AttachName

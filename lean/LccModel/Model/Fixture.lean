/-
  M6 — model of `lemoncheesecake/fixture.py`: `FixtureRegistry` (`add_fixture`,
  `get_fixture_dependencies`, `check_dependencies`, `check_fixtures_in_suite(s)`,
  `get_fixtures_used_in_suite(_recursively)`, `get_scheduled_fixtures_for_scope`,
  `get_fixtures_scheduled_for_{pre_run,session,suite,test}`) and `ScheduledFixtures`
  (`_setup_fixture`, `get_fixture_result` through the parent chain, with the assertions and the
  `LookupError` as explicit error results).

  The registry is the insertion-ordered `dict` of the code, as a list of entries with distinct names.
  `OrderedSet` is a duplicate-free list (`oadd` / `oupdate`).
  `get_fixture_dependencies` is recursive in the code with NO visited set: the model carries explicit
  fuel and `Err.outOfFuel` is a result of its own (never confused with a `ValidationError`).
  Core Lean only.
-/
import LccModel.Model.Loops

namespace LccModel.Fixture
open LccModel.Loops

/-! ### ordered sets -/

/-- `OrderedSet.add` -/
def oadd (acc : List String) (x : String) : List String :=
  if x ∈ acc then acc else acc ++ [x]

/-- `OrderedSet.update` -/
def oupdate (acc xs : List String) : List String := xs.foldl oadd acc

/-- `OrderedSet(iterable)` -/
def oset (xs : List String) : List String := oupdate [] xs

/-! ### fixtures and the registry -/

inductive Scope where
  | test | suite | session | preRun
deriving DecidableEq, Repr

/-- `_SCOPE_LEVELS` -/
def Scope.level : Scope → Nat
  | .test => 1 | .suite => 2 | .session => 3 | .preRun => 4

/-- one registry entry (`Fixture` / `BuiltinFixture` object: one per *name*) -/
structure Fixture where
  name : String
  scope : Scope
  perThread : Bool
  params : List String        -- `get_callable_args(func)`, may contain "fixture_name"
deriving DecidableEq, Repr

/-- a decorated fixture function: `@lcc.fixture(names=…, scope=…, per_thread=…) def f(params…)` -/
structure Decl where
  names : List String
  scope : Scope
  perThread : Bool
  params : List String
deriving Repr

abbrev Registry := List Fixture

inductive Err where
  | builtinName (name : String)                -- "'%s' is a builtin fixture name"
  | forbiddenName (name : String)              -- "Fixture name '%s' is forbidden"
  | circular (fixture : String)                -- "... have circular dependency on a fixture among ..."
  | unknownParam (param fixture : String)      -- "Fixture '%s' used by fixture '%s' does not exist"
  | perThreadDep (fixture dep : String)        -- "... is incompatible with per-thread fixture ..."
  | scopeInversion (fixture dep : String)      -- "... is incompatible with scope ..."
  | suiteUnknown (suite fixture : String)      -- "Suite '%s' uses an unknown fixture '%s'"
  | suitePerThread (suite fixture : String)    -- "Suite '%s' uses per-thread fixture '%s' ..."
  | suiteScope (suite fixture : String)        -- "Suite '%s' uses fixture '%s' which has an incompatible scope"
  | testUnknown (test fixture : String)        -- "Unknown fixture '%s' used in test '%s'"
  -- NOT `ValidationError`s: what the real code would surface as `KeyError` / unbounded recursion
  | keyError (name : String)
  | outOfFuel
deriving DecidableEq, Repr

/-- the error is one the code raises as `ValidationError` -/
def Err.isValidation : Err → Bool
  | .keyError _ => false
  | .outOfFuel => false
  | _ => true

def names (R : Registry) : List String := R.map (·.name)

/-- `self._fixtures[name]` (first entry with that name; entries have distinct names in a real registry) -/
def lookup (R : Registry) (n : String) : Option Fixture := R.find? (fun f => decide (f.name = n))

/-- the registry is a `dict`: names are distinct -/
def WF (R : Registry) : Prop := (names R).Nodup

/-- `[p for p in fixture.params if p != "fixture_name"]` -/
def fparams (f : Fixture) : List String := f.params.filter (fun p => decide (p ≠ "fixture_name"))

/-- parameters (minus `fixture_name`) of the fixture registered under `n`; `[]` if there is none -/
def P (R : Registry) (n : String) : List String :=
  match lookup R n with
  | some f => fparams f
  | none => []

def builtins : Registry :=
  [⟨"cli_args", .preRun, false, []⟩, ⟨"project_dir", .preRun, false, []⟩]

def isBuiltinName (n : String) : Bool := decide (n = "cli_args") || decide (n = "project_dir")

/-- `self._fixtures[fixture.name] = fixture`: overwrite in place or append -/
def insert (R : Registry) (f : Fixture) : Registry :=
  if f.name ∈ names R then R.map (fun g => if g.name = f.name then f else g) else R ++ [f]

/-- `FixtureRegistry.add_fixture` in a registry that already holds the two builtin fixtures -/
def addFixture (R : Registry) (f : Fixture) : Except Err Registry :=
  if isBuiltinName f.name then .error (.builtinName f.name) else .ok (insert R f)

/-- `load_fixtures_from_func`: one `Fixture` per name -/
def Decl.expand (d : Decl) : List Fixture :=
  d.names.map (fun n => ⟨n, d.scope, d.perThread, d.params⟩)

/-- `PreparedProject._build_fixture_registry` -/
def build (ds : List Decl) : Except Err Registry :=
  foldE addFixture (ds.map Decl.expand).flatten builtins

/-- the registry `_build_fixture_registry` returns when no declared name clashes with a builtin -/
def registryOf (ds : List Decl) : Registry := (ds.map Decl.expand).flatten.foldl insert builtins

/-! ### `get_fixture_dependencies` -/

/-- `get_fixture_dependencies(name, ref_fixtures)`; `fuel` bounds the recursion depth. -/
def deps (R : Registry) : Nat → String → List String → Except Err (List String)
  | 0, _, _ => .error .outOfFuel
  | fuel + 1, name, ref =>
    match lookup R name with
    | none => .error (.keyError name)
    | some f =>
      if ref.any (fun r => decide (r ∈ fparams f)) then .error (.circular name)
      else
        match foldE (fun acc p =>
                if (lookup R p).isNone then .error (.unknownParam p name)
                else match deps R fuel p (name :: ref) with
                  | .error e => .error e
                  | .ok d => .ok (oupdate acc d))
              (fparams f) [] with
        | .error e => .error e
        | .ok acc => .ok (oupdate acc (fparams f))

/-- recursion bound used everywhere: registry size + 2 (see `C14.deps_fuel_suffices`) -/
def fuelFor (R : Registry) : Nat := R.length + 2

/-- `get_fixture_dependencies(name)` -/
def getFixtureDependencies (R : Registry) (name : String) : Except Err (List String) :=
  deps R (fuelFor R) name []

/-! ### `check_dependencies` -/

def checkForbidden (R : Registry) : Except Err Unit :=
  forE R (fun f => if f.name = "fixture_name" then .error (.forbiddenName f.name) else .ok ())

def checkResolvable (R : Registry) : Except Err Unit :=
  forE R (fun f => match getFixtureDependencies R f.name with
    | .error e => .error e
    | .ok _ => .ok ())

def checkDirect (R : Registry) (f : Fixture) (p : String) : Except Err Unit :=
  match lookup R p with
  | none => .error (.keyError p)
  | some g =>
    if g.perThread = true ∧ f.scope ≠ .test then .error (.perThreadDep f.name g.name)
    else if g.scope.level < f.scope.level then .error (.scopeInversion f.name g.name)
    else .ok ()

def checkCompliance (R : Registry) : Except Err Unit :=
  forE R (fun f => forE (fparams f) (checkDirect R f))

/-- `FixtureRegistry.check_dependencies`, in the code's order -/
def checkDependencies (R : Registry) : Except Err Unit :=
  match checkForbidden R with
  | .error e => .error e
  | .ok () => match checkResolvable R with
    | .error e => .error e
    | .ok () => checkCompliance R

/-! ### suites as the fixture machinery sees them -/

structure Test where
  path : String
  args : List String          -- `test.get_arguments()`
  parameters : List String    -- keys of `test.parameters` (parametrized tests)
  disabled : Bool             -- the test's own `disabled` attribute is truthy
deriving Repr

/-- `Test.get_fixtures` -/
def Test.fixtures (t : Test) : List String := t.args.filter (fun a => decide (a ∉ t.parameters))

inductive Suite where
  | mk (path : String) (disabled : Bool) (injected : List String) (setupArgs : List String)
       (tests : List Test) (subs : List Suite)
deriving Repr

def Suite.path : Suite → String | .mk p _ _ _ _ _ => p
def Suite.disabled : Suite → Bool | .mk _ d _ _ _ _ => d
def Suite.injected : Suite → List String | .mk _ _ i _ _ _ => i
def Suite.setupArgs : Suite → List String | .mk _ _ _ a _ _ => a
def Suite.tests : Suite → List Test | .mk _ _ _ _ t _ => t
def Suite.subs : Suite → List Suite | .mk _ _ _ _ _ s => s

/-- `Suite.get_fixtures`: injected fixture names, then the arguments of `setup_suite` -/
def Suite.fixtures (s : Suite) : List String := oset (s.injected ++ s.setupArgs)

/-- the three checks of `check_fixtures_in_suite` on one fixture name used by the suite itself -/
def checkSuiteUse (R : Registry) (suitePath : String) (n : String) : Except Err Unit :=
  match lookup R n with
  | none => .error (.suiteUnknown suitePath n)
  | some f =>
    if f.perThread = true then .error (.suitePerThread suitePath n)
    else if f.scope.level < Scope.suite.level then .error (.suiteScope suitePath n)
    else .ok ()

/-- `check_fixtures_in_test` -/
def checkTest (R : Registry) (t : Test) : Except Err Unit :=
  forE t.fixtures (fun n => if (lookup R n).isNone then .error (.testUnknown t.path n) else .ok ())

mutual
/-- `check_fixtures_in_suite` -/
def checkSuite (R : Registry) : Suite → Except Err Unit
  | .mk path _ inj args tests subs =>
    match forE (oset (inj ++ args)) (checkSuiteUse R path) with
    | .error e => .error e
    | .ok () => match forE tests (checkTest R) with
      | .error e => .error e
      | .ok () => checkSuites R subs
/-- `check_fixtures_in_suites` -/
def checkSuites (R : Registry) : List Suite → Except Err Unit
  | [] => .ok ()
  | s :: rest => match checkSuite R s with
    | .error e => .error e
    | .ok () => checkSuites R rest
end

def checkFixturesInSuites (R : Registry) (S : List Suite) : Except Err Unit := checkSuites R S


/-! ### walking the suite tree -/

mutual
/-- `flatten_suites` -/
def flattenSuite : Suite → List Suite
  | .mk path dis inj args tests subs => .mk path dis inj args tests subs :: flattenSuites subs
def flattenSuites : List Suite → List Suite
  | [] => []
  | s :: rest => flattenSuite s ++ flattenSuites rest
end

mutual
/-- `flatten_suites`, each suite together with "some ancestor suite is disabled" -/
def withInhSuite (inh : Bool) : Suite → List (Bool × Suite)
  | .mk path dis inj args tests subs => (inh, .mk path dis inj args tests subs) :: withInhSuites (inh || dis) subs
def withInhSuites (inh : Bool) : List Suite → List (Bool × Suite)
  | [] => []
  | s :: rest => withInhSuite inh s ++ withInhSuites inh rest
end

/-! ### which fixtures are used / scheduled -/

/-- `test.is_enabled()`; `inh` = some ancestor suite is disabled -/
def testEnabled (inh : Bool) (s : Suite) (t : Test) : Bool := !(inh || s.disabled || t.disabled)

/-- `suite.has_enabled_tests()` -/
def hasEnabledTests (inh : Bool) (s : Suite) : Bool := s.tests.any (testEnabled inh s)

/-- the test's task really executes the test (`TestTask.run`: not disabled, or `--force-disabled`) -/
def testRuns (inh : Bool) (s : Suite) (t : Test) (forceDisabled : Bool) : Bool :=
  testEnabled inh s t || forceDisabled

/-- the suite gets a `SuiteInitializationTask` at all (`build_suite_initialization_task`) -/
def suiteInitialised (inh : Bool) (s : Suite) (forceDisabled : Bool) : Bool :=
  hasEnabledTests inh s || forceDisabled

/-- `FixtureRegistry.get_fixtures_used_in_suite(suite, include_disabled)` -/
def usedInSuite (inh : Bool) (s : Suite) (includeDisabled : Bool) : List String :=
  if !hasEnabledTests inh s && !includeDisabled then []
  else
    (s.tests.filter (fun t => testEnabled inh s t || includeDisabled)).foldl
      (fun acc t => oupdate acc t.fixtures) s.fixtures

mutual
/-- `get_fixtures_used_in_suite_recursively` -/
def usedRec (inh : Bool) (incl : Bool) : Suite → List String
  | .mk path dis inj args tests subs =>
    usedRecList (inh || dis) incl subs (usedInSuite inh (.mk path dis inj args tests subs) incl)
/-- the `for sub_suite in …: fixtures.update(…)` loop, threading the accumulator -/
def usedRecList (inh : Bool) (incl : Bool) : List Suite → List String → List String
  | [], acc => acc
  | s :: rest, acc => usedRecList inh incl rest (oupdate acc (usedRec inh incl s))
end

/-- the `OrderedSet` built at the top of `get_fixtures_scheduled_for_pre_run/_session` -/
def usedInSuites (S : List Suite) (incl : Bool) : List String := usedRecList false incl S []

/-- the closure loop of `get_scheduled_fixtures_for_scope` -/
def closure (R : Registry) (direct : List String) : Except Err (List String) :=
  foldE (fun acc f => match getFixtureDependencies R f with
      | .error e => .error e
      | .ok d => .ok (oadd (oupdate acc d) f))
    direct []

def scopeIs (R : Registry) (sc : Scope) (n : String) : Bool :=
  match lookup R n with
  | some f => decide (f.scope = sc)
  | none => false

/-- `get_scheduled_fixtures_for_scope(direct, scope)`: names of the scheduled fixtures in set-up order -/
def scheduled (R : Registry) (direct : List String) (sc : Scope) : Except Err (List String) :=
  match closure R direct with
  | .error e => .error e
  | .ok l => .ok (l.filter (scopeIs R sc))

/-! ### `ScheduledFixtures` at run time -/

/-- one `ScheduledFixtures` object: its fixtures in set-up order and the names already executed -/
structure Inst where
  scope : Scope
  fixtures : List String
  results : List String
deriving Repr

inductive RunErr where
  | lookupError (name : String)        -- "Cannot find fixture named '%s' in scheduled fixtures"
  | notExecuted (name : String)        -- assert in `get_fixture_result`
  | alreadyExecuted (name : String)    -- assert in `_setup_fixture`
  | keyError (name : String)
  | noInstance
deriving DecidableEq, Repr

/-- `ScheduledFixtures.get_fixture_result(name)` on the chain `self, parent, parent.parent, …`
    (only whether it returns or which error it raises) -/
def getResult : List Inst → String → Except RunErr Unit
  | [], n => .error (.lookupError n)
  | i :: rest, n =>
    if n ∈ i.fixtures then (if n ∈ i.results then .ok () else .error (.notExecuted n))
    else getResult rest n

/-- `ScheduledFixtures._setup_fixture(name)` for the head instance of the chain -/
def setupFixture (R : Registry) (chain : List Inst) (n : String) : Except RunErr (List Inst) :=
  match chain with
  | [] => .error .noInstance
  | i :: rest =>
    if n ∈ i.results then .error (.alreadyExecuted n)
    else match lookup R n with
      | none => .error (.keyError n)
      | some f => match forE (fparams f) (getResult (i :: rest)) with
        | .error e => .error e
        | .ok () => .ok ({ i with results := i.results ++ [n] } :: rest)

/-- a new `ScheduledFixtures(scope, fixtures, parent)` whose set-up functions are then run in order
    (`get_setup_teardown_pairs` + `run_setup_funcs` with non-failing fixture bodies) -/
def enter (R : Registry) (chain : List Inst) (sc : Scope) (fixtures : List String) : Except RunErr (List Inst) :=
  foldE (setupFixture R) fixtures (⟨sc, fixtures, []⟩ :: chain)

end LccModel.Fixture

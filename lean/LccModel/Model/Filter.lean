/-
  M8 `Filter` — executable model of test selection
  (`lemoncheesecake/filter.py`, `testtree.py: BaseSuite.filter / filter_suites / flatten_tests`,
  `cli/utils.py: load_suites_from_project`, report-based selection through `FromTestsFilter`).

  Core Lean only.  Text is a list of Unicode code points (`Str = List Nat`): `decide`, `omega` and the
  JSON driver all work on it directly, and every Python `str` without lone surrogates is such a list.

  The model mirrors the code *with the candidate repair `fixes/D9-empty-filter-pattern.diff` applied*:
  `pattern.startswith(('-', '^', '~'))` instead of `pattern[0] in "-^~"`, so an empty pattern is an
  ordinary (positive) wildcard pattern that matches only the empty string.
-/

import LccModel.Model.Regex

namespace LccModel.Filter

export LccModel.Regex (Str lowerAscii RE)

/-! ## 1. Wildcards: `fnmatch.translate` + the `re` character-set reader -/

/-- One position of a translated pattern. `cls neg singles ranges` is a bracket expression. -/
inductive Tok where
  | lit (c : Nat)
  | any
  | star
  | cls (neg : Bool) (singles : List Nat) (ranges : List (Nat × Nat))
deriving Repr, DecidableEq

/-- Does a one-character token accept the character? (`star` never reaches this function.) -/
def Tok.accepts : Tok → Nat → Bool
  | .lit a, c => a == c
  | .any, _ => true
  | .star, _ => true
  | .cls neg ss rs, c => (ss.contains c || rs.any (fun r => decide (r.1 ≤ c) && decide (c ≤ r.2))) != neg

/-- `p` holds of some suffix of the text (what `.*` followed by `p` means). -/
def anySuffix (p : Str → Bool) : Str → Bool
  | [] => p []
  | c :: cs => p (c :: cs) || anySuffix p cs

/-- Full match of a token list against a text (`(?s:…)\Z` with `re.match`). -/
def gmatch : List Tok → Str → Bool
  | [], cs => cs.isEmpty
  | .star :: ps, cs => anySuffix (gmatch ps) cs
  | _ :: _, [] => false
  | t :: ps, c :: cs => t.accepts c && gmatch ps cs

def cBang : Nat := 33      -- '!'
def cStar : Nat := 42      -- '*'
def cHyphen : Nat := 45    -- '-'
def cDot : Nat := 46       -- '.'
def cQuestion : Nat := 63  -- '?'
def cOpen : Nat := 91      -- '['
def cClose : Nat := 93     -- ']'
def cCaret : Nat := 94     -- '^'
def cTilde : Nat := 126    -- '~'

/-- Index of the first `]`. -/
def findClose : Str → Option Nat
  | [] => none
  | c :: r => if c == cClose then some 0 else (findClose r).map (· + 1)

/-- `translate`: after a `[`, the length of `stuff` (the closing `]` sits at that index), if the
    bracket expression is closed at all.  A leading `!` and a `]` right after it are skipped. -/
def classEnd (r : Str) : Option Nat :=
  let (n1, r1) := match r with
    | c :: t => if c == cBang then (1, t) else (0, r)
    | [] => (0, r)
  let (n2, r2) := match r1 with
    | c :: t => if c == cClose then (n1 + 1, t) else (n1, r1)
    | [] => (n1, r1)
  (findClose r2).map (· + n2)

/-- `translate`: cut `stuff` at the hyphens that can be range operators.  The first `skip` characters
    of a chunk are taken unconditionally (1 at the start, 2 after a leading `!`, 2 after each cut:
    the range's upper bound and the next chunk's possible lower bound). -/
def splitChunks (skip : Nat) (cur : Str) : Str → List Str
  | [] => [cur.reverse]
  | c :: r =>
    if skip > 0 then splitChunks (skip - 1) (c :: cur) r
    else if c == cHyphen then cur.reverse :: splitChunks 2 [] r
    else splitChunks 0 (c :: cur) r

/-- `if chunk: chunks.append(chunk) else: chunks[-1] += '-'`. -/
def fixLastChunk : List Str → List Str
  | [] => []
  | [c] => [c]
  | [c, []] => [c ++ [cHyphen]]
  | c :: r => c :: fixLastChunk r

/-- "Remove empty ranges": from the right, a pair `…x`,`y…` with `x > y` loses both bounds and is glued. -/
def mergeChunks : List Str → List Str
  | [] => []
  | [c] => [c]
  | c :: rest =>
    match mergeChunks rest with
    | [] => [c]
    | d :: ds =>
      match c.getLast?, d.head? with
      | some a, some b => if a > b then (c.dropLast ++ d.tail) :: ds else c :: d :: ds
      | _, _ => c :: d :: ds

/-- The chunks joined by range hyphens: `some c` is a (possibly escaped, hence literal) character,
    `none` is an unescaped `-` as the `re` set reader will see it. -/
def joinItems : List Str → List (Option Nat)
  | [] => []
  | [c] => c.map some
  | c :: r => c.map some ++ none :: joinItems r

def itemVal : Option Nat → Nat
  | some c => c
  | none => cHyphen

/-- `re._parser`: read the members of a character set: `x-y` is a range, anything else a single
    character (a `-` that is first or last is literal).  `fnmatch` never emits a range with `y < x`
    (the engine would reject it); here such a range would simply be empty. -/
def parseItems : List (Option Nat) → List Nat × List (Nat × Nat)
  | [] => ([], [])
  | x :: none :: y :: rest =>
    let (ss, rs) := parseItems rest
    (ss, (itemVal x, itemVal y) :: rs)
  | x :: rest =>
    let (ss, rs) := parseItems rest
    (itemVal x :: ss, rs)

/-- The token of the bracket expression whose inside is `stuff`. -/
def mkClass (stuff : Str) : Tok :=
  let items : List (Option Nat) :=
    if stuff.contains cHyphen then
      let skip := match stuff with
        | c :: _ => if c == cBang then 2 else 1
        | [] => 1
      joinItems (mergeChunks (fixLastChunk (splitChunks skip [] stuff)))
    else stuff.map some
  -- `if stuff[0] == '!': stuff = '^' + stuff[1:]`, decided on the final text of `stuff`
  match items with
  | some c :: rest =>
    if c == cBang then
      let (ss, rs) := parseItems rest
      .cls true ss rs
    else
      let (ss, rs) := parseItems items
      .cls false ss rs
  | _ =>
    let (ss, rs) := parseItems items
    .cls false ss rs

/-- `fnmatch.translate` as a token list.  `skip` counts characters already consumed by a bracket
    expression. -/
def tokenize (skip : Nat) : Str → List Tok
  | [] => []
  | c :: r =>
    if skip > 0 then tokenize (skip - 1) r
    else if c == cStar then .star :: tokenize 0 r
    else if c == cQuestion then .any :: tokenize 0 r
    else if c == cOpen then
      match classEnd r with
      | some n => mkClass (r.take n) :: tokenize (n + 1) r
      | none => .lit c :: tokenize 0 r
    else .lit c :: tokenize 0 r

/-- `fnmatch.fnmatchcase(name, pat)` (= `fnmatch.fnmatch` / `fnmatch.filter` on POSIX). -/
def fnmatch (pat name : Str) : Bool := gmatch (tokenize 0 pat) name

/-! ## 2. Pattern polarity and the two matching primitives of `BaseTreeNodeFilter` -/

def isNegFlag (c : Nat) : Bool := c == cHyphen || c == cCaret || c == cTilde

/-- `(negated?, wildcard pattern)`.  Repaired code: `pattern.startswith(("-", "^", "~"))`. -/
def parsePat : Str → Bool × Str
  | [] => (false, [])
  | c :: r => if isNegFlag c then (true, r) else (false, c :: r)

/-- `bool(fnmatch.filter(values, g))`. -/
def anyMatch (vals : List Str) (g : Str) : Bool := vals.any (fnmatch g)

/-- One pattern of `_match_values`. -/
def matchPattern (vals : List Str) (p : Str) : Bool :=
  let (neg, g) := parsePat p
  if neg then !anyMatch vals g else anyMatch vals g

/-- `BaseTreeNodeFilter._match_values`. -/
def matchValues (vals : List Str) (pats : List Str) : Bool :=
  pats.isEmpty || pats.any (matchPattern vals)

/-- One `(key, value-pattern)` of `_match_key_values`: the key must exist, whatever the polarity. -/
def matchKeyPattern (look : Str → Option Str) (kv : Str × Str) : Bool :=
  match look kv.1 with
  | none => false
  | some v =>
    let (neg, g) := parsePat kv.2
    if neg then !fnmatch g v else fnmatch g v

/-- `BaseTreeNodeFilter._match_key_values`. -/
def matchKeyValues (look : Str → Option Str) (pats : List (Str × Str)) : Bool :=
  pats.isEmpty || pats.any (matchKeyPattern look)

/-! ## 3. Trees with metadata at every level -/

/-- Metadata of a suite or a test (`BaseTreeNode` + the `disabled` attribute of `Suite`/`Test`). -/
structure Node where
  name : Str
  desc : Str
  tags : List Str
  props : List (Str × Str)
  links : List (Str × Option Str)
  disabled : Bool
deriving Repr, DecidableEq

/-- A suite: its own metadata, its tests (payload `τ`), its sub-suites. -/
inductive Tree (τ : Type) where
  | mk (node : Node) (tests : List τ) (subs : List (Tree τ))

def Tree.node {τ} : Tree τ → Node
  | .mk n _ _ => n

def Tree.tests {τ} : Tree τ → List τ
  | .mk _ ts _ => ts

def Tree.subs {τ} : Tree τ → List (Tree τ)
  | .mk _ _ ss => ss

/-- A hierarchy is the list of nodes from the top-level suite down to the node itself
    (`BaseTreeNode.hierarchy`). -/
abbrev Hier := List Node

/-- `node.path`: names joined by dots. -/
def pathOf (h : Hier) : Str := List.intercalate [cDot] (h.map (·.name))

/-- Non-empty prefixes, shortest first. -/
def prefixes {α} : List α → List (List α)
  | [] => []
  | a :: l => [a] :: (prefixes l).map (a :: ·)

/-- `hierarchy_paths`. -/
def hierPaths (h : Hier) : List Str := (prefixes h).map pathOf

/-- `hierarchy_descriptions`. -/
def hierDescs (h : Hier) : List Str := h.map (·.desc)

/-- `hierarchy_tags` (the code collects them in an ordered *set*; duplicates are irrelevant to "does any
    value match"). -/
def hierTags (h : Hier) : List Str := h.flatMap (·.tags)

/-- `hierarchy_properties[k]`: `dict.update` from the top down, so the deepest definition wins. -/
def lookupProp (h : Hier) (k : Str) : Option Str := (h.flatMap (·.props)).reverse.lookup k

/-- `_match_values_lists(hierarchy_links, …)`: every link contributes its URL and its name
    (`None` becomes `""`). -/
def linkValues (l : Str × Option Str) : List Str :=
  [l.1, match l.2 with | some n => n | none => []]

def hierLinks (h : Hier) : List Str := (h.flatMap (·.links)).flatMap linkValues

/-- `Test.is_disabled()`: the test or any enclosing suite is disabled. -/
def isDisabled (h : Hier) : Bool := h.any (·.disabled)

/-! ## 4. Filters -/

/-- `BaseTreeNodeFilter`: `paths` is one option (its values OR-ed); the others are lists of option
    occurrences (values of one occurrence OR-ed, occurrences AND-ed). -/
structure Base where
  paths : List Str := []
  descs : List (List Str) := []
  tags : List (List Str) := []
  props : List (List (Str × Str)) := []
  links : List (List Str) := []
deriving Repr, DecidableEq

def Base.isEmpty (b : Base) : Bool :=
  b.paths.isEmpty && b.descs.isEmpty && b.tags.isEmpty && b.props.isEmpty && b.links.isEmpty

def Base.doPaths (b : Base) (h : Hier) : Bool := matchValues (hierPaths h) b.paths
def Base.doDescs (b : Base) (h : Hier) : Bool := b.descs.all (matchValues (hierDescs h))
def Base.doTags (b : Base) (h : Hier) : Bool := b.tags.all (matchValues (hierTags h))
def Base.doProps (b : Base) (h : Hier) : Bool := b.props.all (matchKeyValues (lookupProp h))
def Base.doLinks (b : Base) (h : Hier) : Bool := b.links.all (matchValues (hierLinks h))

/-- `BaseTreeNodeFilter.__call__`. -/
def Base.sel (b : Base) (h : Hier) : Bool :=
  b.doPaths h && b.doDescs h && b.doTags h && b.doProps h && b.doLinks h

/-- `TestFilter`. -/
structure TestFilter extends Base where
  enabled : Bool := false
  disabled : Bool := false
deriving Repr, DecidableEq

/-- `not bool(test_filter)`. -/
def TestFilter.isEmpty (f : TestFilter) : Bool := f.toBase.isEmpty && !f.enabled && !f.disabled

/-- `TestFilter.__call__` on the test whose hierarchy is `h`. -/
def TestFilter.sel (f : TestFilter) (h : Hier) : Bool :=
  f.toBase.sel h && (!f.enabled || !isDisabled h) && (!f.disabled || isDisabled h)

inductive Status where
  | passed | failed | skipped | disabled
deriving Repr, DecidableEq

/-- What `--grep` looks at (`_iter_grepable`). -/
inductive LogEntry where
  | log (message : Str)
  | check (description : Str) (details : Option Str)
  | attachment (filename description : Str)
  | url (url description : Str)
deriving Repr, DecidableEq

structure Step where
  description : Str
  logs : List LogEntry
deriving Repr, DecidableEq

def LogEntry.grepable : LogEntry → List Str
  | .log m => [m]
  | .check d none => [d]
  | .check d (some x) => if x.isEmpty then [d] else [d, x]     -- `if log.details:`
  | .attachment f d => [f, d]
  | .url u d => [u, d]

def grepables (steps : List Step) : List Str :=
  steps.flatMap (fun s => s.description :: s.logs.flatMap LogEntry.grepable)

/-- A test result of a report: its metadata, its status (`none`: still in progress), its steps. -/
structure TestRes where
  node : Node
  status : Option Status
  steps : List Step
deriving Repr, DecidableEq

def isPrefixCI : Str → Str → Bool
  | [], _ => true
  | _ :: _, [] => false
  | a :: p, b :: s => lowerAscii a == lowerAscii b && isPrefixCI p s

/-- Case-insensitive literal containment: what `re.compile(re.escape(lit), IGNORECASE|MULTILINE).search` computes
    on texts whose only case pairs are ASCII letters (`C12.grep_literal_is_containment`: it is the regular
    expression model `Regex.search (RE.ofLit lit)`). -/
def containsCI (lit : Str) : Str → Bool
  | [] => lit.isEmpty
  | c :: s => isPrefixCI lit (c :: s) || containsCI lit s

/-- `ResultFilter`. `grep = some re` is a compiled pattern (`Model/Regex.lean`). -/
structure ResultFilter extends Base where
  statuses : List Status := []
  enabled : Bool := false
  disabled : Bool := false
  grep : Option RE := none
deriving Repr, DecidableEq

def ResultFilter.doStatuses (rf : ResultFilter) (st : Option Status) : Bool :=
  rf.statuses.isEmpty || (match st with | some s => rf.statuses.contains s | none => false)

/-- `_do_grep` / `_grep`: `any(map(pattern.search, _iter_grepable(steps)))` — every grepable item is searched
    on its own. -/
def ResultFilter.doGrep (rf : ResultFilter) (steps : List Step) : Bool :=
  match rf.grep with
  | none => true
  | some re => (grepables steps).any (Regex.search re)

/-- `ResultFilter._apply_result_criteria`. -/
def ResultFilter.resultCriteria (rf : ResultFilter) (st : Option Status) (steps : List Step) : Bool :=
  rf.doStatuses st && (!rf.enabled || st != some .disabled) && (!rf.disabled || st == some .disabled)
    && rf.doGrep steps

/-- `ResultFilter.__call__` on a `TestResult` located under the suites `ctx`. -/
def ResultFilter.sel (rf : ResultFilter) (ctx : Hier) (r : TestRes) : Bool :=
  rf.toBase.sel (ctx ++ [r.node]) && rf.resultCriteria r.status r.steps

/-! ## 5. Tree operations (`testtree.py`) -/

mutual
/-- `BaseSuite.is_empty`. -/
def Tree.isEmpty {τ} : Tree τ → Bool
  | .mk _ ts subs => ts.isEmpty && allEmpty subs
def allEmpty {τ} : List (Tree τ) → Bool
  | [] => true
  | s :: r => s.isEmpty && allEmpty r
end

mutual
/-- `BaseSuite.filter`: `p ctx t` is the filter applied to test `t` of a suite whose hierarchy is `ctx`. -/
def filterSuite {τ} (p : Hier → τ → Bool) (ctx : Hier) : Tree τ → Tree τ
  | .mk n ts subs => .mk n (ts.filter (p (ctx ++ [n]))) (filterSuites p (ctx ++ [n]) subs)
/-- `filter_suites`: filter every suite, drop those left empty. -/
def filterSuites {τ} (p : Hier → τ → Bool) (ctx : Hier) : List (Tree τ) → List (Tree τ)
  | [] => []
  | s :: r =>
    if (filterSuite p ctx s).isEmpty then filterSuites p ctx r
    else filterSuite p ctx s :: filterSuites p ctx r
end

mutual
/-- `flatten_tests([suite])`: every test with the hierarchy of its suite, in the order of the tree. -/
def flattenSuite {τ} (ctx : Hier) : Tree τ → List (Hier × τ)
  | .mk n ts subs => ts.map (fun t => (ctx ++ [n], t)) ++ flattenSuites (ctx ++ [n]) subs
/-- `flatten_tests(suites)`. -/
def flattenSuites {τ} (ctx : Hier) : List (Tree τ) → List (Hier × τ)
  | [] => []
  | s :: r => flattenSuite ctx s ++ flattenSuites ctx r
end

mutual
/-- `flatten_suites([suite])`: every suite at every depth, with the hierarchy of its parent. -/
def allSuitesOf {τ} (ctx : Hier) : Tree τ → List (Hier × Tree τ)
  | .mk n ts subs => (ctx, .mk n ts subs) :: allSuites (ctx ++ [n]) subs
/-- `flatten_suites(suites)`. -/
def allSuites {τ} (ctx : Hier) : List (Tree τ) → List (Hier × Tree τ)
  | [] => []
  | s :: r => allSuitesOf ctx s ++ allSuites ctx r
end

/-- Hierarchy of a suite listed by `allSuites`. -/
def suiteHier {τ} (x : Hier × Tree τ) : Hier := x.1 ++ [x.2.node]

/-- Does the suite (sitting under `ctx`) contain, at any depth, a test that `p` selects? -/
def hasSelected {τ} (p : Hier → τ → Bool) (x : Hier × Tree τ) : Bool :=
  (flattenSuite x.1 x.2).any (fun y => p y.1 y.2)

/-- Project suites and report suites. -/
abbrev Suite := Tree Node
abbrev SuiteRes := Tree TestRes

/-- Hierarchy / path of a flattened project test and of a flattened test result. -/
def testHier (x : Hier × Node) : Hier := x.1 ++ [x.2]
def resHier (x : Hier × TestRes) : Hier := x.1 ++ [x.2.node]

/-- A `TestFilter` as a tree predicate. -/
def TestFilter.pred (f : TestFilter) : Hier → Node → Bool := fun ctx t => f.sel (ctx ++ [t])

/-! ## 6. Report-based selection -/

/-- `_make_from_report_filter`: paths of the report's tests accepted by the result filter
    (`FromTestsFilter._tests`). -/
def fromReportPaths (rf : ResultFilter) (report : List SuiteRes) : List Str :=
  ((flattenSuites [] report).filter (fun x => rf.sel x.1 x.2)).map (fun x => pathOf (resHier x))

/-- `FromTestsFilter.__call__`. -/
def fromTestsPred (paths : List Str) : Hier → Node → Bool := fun ctx t => paths.contains (pathOf (ctx ++ [t]))

/-! ## 7. Command line → filter (`make_test_filter`), and `load_suites_from_project` -/

structure Cli where
  base : Base := {}
  enabled : Bool := false
  disabled : Bool := false
  passed : Bool := false
  failed : Bool := false
  skipped : Bool := false
  nonPassed : Bool := false
  /-- `--grep X`: the pattern text (an empty string is falsy in the code and means "no grep"). -/
  grep : Option Str := none
  /-- What `re.compile(X, IGNORECASE | MULTILINE)` denotes (the harness obtains it from Python's own parse of
      `X`); by default `X` is read as the escaped literal `re.escape(X)`. -/
  grepRe : RE := LccModel.Regex.RE.ofLit (grep.getD [])
  /-- `--from-report PATH` given with a non-empty path. -/
  fromReport : Bool := false
deriving Repr, DecidableEq

inductive Sel where
  | tree (f : TestFilter)
  | report (rf : ResultFilter)
deriving Repr, DecidableEq

inductive SelError where
  | enabledAndDisabled     -- UserError("--disabled and --enabled arguments are mutually exclusive")
  | noTestDefined          -- UserError("No test is defined in your lemoncheesecake project.")
  | noMatch                -- UserError("The filter does not match any test")
deriving Repr, DecidableEq

/-- `make_result_filter`'s status set (kept in the order passed, failed, skipped). -/
def cliStatuses (c : Cli) : List Status :=
  (if c.passed then [.passed] else []) ++ (if c.failed || c.nonPassed then [.failed] else [])
    ++ (if c.skipped || c.nonPassed then [.skipped] else [])

def Cli.grepNonEmpty (c : Cli) : Option RE :=
  match c.grep with
  | some g => if g.isEmpty then none else some c.grepRe
  | none => none

def Cli.reportBased (c : Cli) : Bool :=
  c.fromReport || c.passed || c.failed || c.skipped || c.nonPassed || c.grepNonEmpty.isSome

/-- `make_result_filter(cli_args)` (the report side of `--from-report` & co.). -/
def makeResultFilter (c : Cli) : Except SelError ResultFilter :=
  if c.enabled && c.disabled then .error .enabledAndDisabled
  else .ok { toBase := c.base, statuses := cliStatuses c, enabled := c.enabled, disabled := c.disabled,
             grep := c.grepNonEmpty }

/-- `make_test_filter`. -/
def makeTestFilter (c : Cli) : Except SelError Sel :=
  if c.reportBased then
    match makeResultFilter c with
    | .ok rf => .ok (.report rf)
    | .error e => .error e
  else if c.enabled && c.disabled then .error .enabledAndDisabled
  else .ok (.tree { toBase := c.base, enabled := c.enabled, disabled := c.disabled })

/-- The tree predicate and the truth value (`bool(filter)`) of a built filter. -/
def Sel.pred (s : Sel) (report : List SuiteRes) : Hier → Node → Bool :=
  match s with
  | .tree f => f.pred
  | .report rf => fromTestsPred (fromReportPaths rf report)

def Sel.truthy : Sel → Bool
  | .tree f => !f.isEmpty
  | .report _ => true

/-- `load_suites_from_project(project, test_filter)`. -/
def loadSuites (truthy : Bool) (p : Hier → Node → Bool) (suites : List Suite) : Except SelError (List Suite) :=
  if allEmpty suites then .error .noTestDefined
  else if truthy then
    let kept := filterSuites p [] suites
    if kept.isEmpty then .error .noMatch else .ok kept
  else .ok suites

/-- `lcc run <args>`'s selection: `make_test_filter(cli_args)` then `load_suites_from_project`. -/
def selectCli (c : Cli) (report : List SuiteRes) (suites : List Suite) : Except SelError (List Suite) :=
  match makeTestFilter c with
  | .error e => .error e
  | .ok s => loadSuites s.truthy (s.pred report) suites

end LccModel.Filter

/-
  M10 (directories) — a report saved INTO a directory and loaded back THROUGH the directory.

  `lemoncheesecake.reporting.load_report(path)` accepts a report directory: `load_reports_from_dir` enumerates
  `os.listdir(dirname)`, keeps the regular files and tries every backend on each of them (`load_report_from_file`; a file
  no backend can read raises `ReportLoadingError` and is skipped); `load_report` returns the first report found.
  `os.listdir(dirname)` opens the directory *named* `dirname` — the name is compared by equality, never read as a pattern.

  The save side is `open_for_atomic_write(filename)`: the text goes to a temporary file BESIDE `filename`
  (`<filename>.<pid>.tmp`, same directory, hence same file system) which is then moved over `filename` with
  `os.replace`.  `os.replace` cannot move a file from one file system to another (EXDEV): `placeTmp` says where the
  temporary file is created, `replaceOk` is the condition of the move.

  The model: a file system = directories (name, device, entries in `os.listdir` order); `findDir` = lookup by name
  equality; `loadDir` = first entry that loads; `saveInto` = temporary file + replace.  Names are `List Char` (any
  characters: `[`, `]`, `*`, `?` are characters like the others).

  Core Lean only.
-/
import LccModel.Model.Store

namespace LccModel.DirStore
open LccModel.Report LccModel.Serial LccModel.JsonFile LccModel.Store

abbrev Name := List Char

/-- what an entry of a report directory is -/
inductive Entry
  | subdir                     -- `attachments/`, …: not a regular file, skipped (`os.path.isfile`)
  | other                      -- a regular (text) file no backend can load: report.html, notes, …: skipped
  | hostile                    -- a regular file on which a backend raises something ELSE than `ReportLoadingError`: a file that is
                               -- not UTF-8 text (`UnicodeDecodeError`), a file holding a JSON scalar / array such as a pid file
                               -- `4242` (`AttributeError`) — open finding C09/roundtrip/directory-load-crashes-on-foreign-file
  | file (c : Content)         -- a file written by a backend (whatever its name: the loader never looks at the name)

structure Dir where
  name : Name
  dev : Nat                              -- the file system the directory lives on (`st_dev`)
  entries : List (Name × Entry)          -- in `os.listdir` order

abbrev FS := List Dir

/-- `os.listdir(name)` / `open(join(name, f))`: the directory with exactly this name -/
def findDir (n : Name) : FS → Option Dir
  | [] => none
  | d :: ds => if d.name = n then some d else findDir n ds

/-- what `load_report_from_file` does on one entry inside `load_reports_from_dir` -/
inductive Load
  | skip                        -- not a regular file, or `ReportLoadingError` (caught)
  | crash                       -- another exception: it escapes `load_reports_from_dir`
  | report (r : Report)

def loadEntry : Entry → Load
  | .file c =>
    match loadContent c with
    | .loaded r => .report r
    | _ => .skip
  | .hostile => .crash
  | _ => .skip

/-- `list(load_reports_from_dir(dir))`; `none`: an exception escaped -/
def loadAll : List (Name × Entry) → Option (List Report)
  | [] => some []
  | (_, e) :: rest =>
    match loadEntry e with
    | .skip => loadAll rest
    | .crash => none
    | .report r => (loadAll rest).map (r :: ·)

inductive DirOutcome
  | noDir                       -- nothing of that name: `load_report` falls to the file loader, which raises
  | noReport                    -- "Cannot find any report in directory"
  | crashed                     -- an exception other than `ReportLoadingError` escaped
  | loaded (r : Report)

/-- `next(load_reports_from_dir(dir))`: the generator is consumed up to the first report only -/
def firstLoad : List (Name × Entry) → DirOutcome
  | [] => .noReport
  | (_, e) :: rest =>
    match loadEntry e with
    | .skip => firstLoad rest
    | .crash => .crashed
    | .report r => .loaded r

/-- `load_report(<directory>)` -/
def loadDir (fs : FS) (n : Name) : DirOutcome :=
  match findDir n fs with
  | none => .noDir
  | some d => firstLoad d.entries

/-! ### saving: temporary file, then `os.replace` -/

/-- where `open_for_atomic_write` creates its temporary file -/
inductive TmpPlace
  | beside                      -- `<filename>.<pid>.tmp`: in the directory of the target
  | system (dev : Nat)          -- in the system temporary directory (`$TMPDIR`), which lives on file system `dev`

/-- the file system the temporary file is on -/
def tmpDev (targetDev : Nat) : TmpPlace → Nat
  | .beside => targetDev
  | .system d => d

/-- `os.replace(tmp, target)` succeeds iff both are on the same file system (otherwise `OSError` EXDEV) -/
def replaceOk (targetDev : Nat) (pl : TmpPlace) : Bool := tmpDev targetDev pl == targetDev

/-- `os.replace` over `f`: the entry `f` now holds `e`; no other entry is touched, none is added (the position of an
    entry in `os.listdir` is not specified: the new entry is put last) -/
def setEntry (f : Name) (e : Entry) (es : List (Name × Entry)) : List (Name × Entry) :=
  es.filter (fun x => x.1 != f) ++ [(f, e)]

def updateDir (n : Name) (g : Dir → Dir) : FS → FS
  | [] => []
  | d :: ds => if d.name = n then g d :: ds else d :: updateDir n g ds

/-- the file content a successful save produces -/
def contentOf (fmt : Fmt) (g : Time) (r : Report) : Except SaveErr Content :=
  match fmt with
  | .json o => .ok (.json o (toJson g r))
  | .xml =>
    match xmlFile g r with
    | .error e => .error e
    | .ok c => .ok (.xml c)

inductive SaveOutcome
  | saved
  | serialiseFailed (e : SaveErr)        -- nothing was written
  | crossDevice                          -- `os.replace` raised EXDEV; the temporary file is removed, the target untouched
deriving DecidableEq, Repr

/-- `backend.save_report(join(n, f), report)` with the temporary file at `pl`: the new file system and the outcome.
    In every case the directory holds no entry it did not hold before, except `f` after a success. -/
def saveInto (pl : TmpPlace) (fs : FS) (n f : Name) (fmt : Fmt) (g : Time) (r : Report) : FS × SaveOutcome :=
  match contentOf fmt g r with
  | .error e => (fs, .serialiseFailed e)
  | .ok c =>
    match findDir n fs with
    | none => (fs, .saved)               -- not modelled (the harness always creates the directory first)
    | some d =>
      if replaceOk d.dev pl then (updateDir n (fun d => { d with entries := setEntry f (.file c) d.entries }) fs, .saved)
      else (fs, .crossDevice)

/-- the save of the real code: the temporary file is beside the target -/
def save (fs : FS) (n f : Name) (fmt : Fmt) (g : Time) (r : Report) : FS × SaveOutcome := saveInto .beside fs n f fmt g r

/-! ### a lookup that reads the name as a pattern (what `glob.glob(join(dirname, "*"))` does), for the refutation -/

/-- the weakest pattern language: `?` stands for any one character -/
def qMatch : Name → Name → Bool
  | [], [] => true
  | p :: ps, c :: cs => (p == '?' || p == c) && qMatch ps cs
  | _, _ => false

def findDirBy (m : Name → Name → Bool) (pat : Name) : FS → Option Dir
  | [] => none
  | d :: ds => if m pat d.name then some d else findDirBy m pat ds

end LccModel.DirStore

/-
  Heads (name, description, rank, tags / properties / links, disabled, hidden) of the suites the
  directory loader keeps in its `suites` dict: what the *enclosing* suites of the loaded tests carry.
-/
import LccModel.Model.Loader

namespace LccModel.Loader

/-- The dict of `load_suites_from_directory` reduced to (key, head of the suite stored under it). -/
def Table.heads (t : Table) : List (Key × SuiteHead) := t.map (fun p => (p.1, p.2.head))

/-- What the first loop must enter, head-wise: one entry per module file that loads and is not hidden,
    in order — *no emptiness test*. -/
def modHeads (ms : List Module) : List (Key × SuiteHead) :=
  ms.filterMap (fun m =>
    match loadFile m with
    | .ok s => if s.hidden then none else some (Key.file m.stem, s.head)
    | .error _ => none)

/-- What the second loop may add, head-wise: a synthetic suite for exactly those directories (in
    order) whose name is not the key of a module suite of the table. -/
def synthHeads (t : Table) (rs : List (String × Except LoadErr (List Suite))) : List (Key × SuiteHead) :=
  (rs.filter (fun p => (t.lookup (Key.file p.1)).isNone)).map (fun p => (Key.dir p.1, (synthetic p.1).head))

/-- The head `load_suite_from_module` gives a module with a `SUITE` dict `i`. -/
def infoHead (m : Module) (i : SuiteInfo) : SuiteHead :=
  { name := getOr i.name m.stem, desc := getOr i.desc (descFromName (getOr i.name m.stem)),
    rank := getOr i.rank m.autoRank, md := i.md, disabled := .no, hidden := !i.vis.visible }

end LccModel.Loader

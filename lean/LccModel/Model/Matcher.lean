/-
  M12 — model of `lemoncheesecake/matching/*`:

  * `Val`            : the value domain the matchers are applied to (None, bool, int, half-integer
                       float, str, list, dict with keys of mixed scalar types `DKey`) with Python's `==`, ordering (with
                       `TypeError`), `in`, `len`, iteration, subscripting and `type(x)`;
  * `jsonify`        : `json.dumps(x, ensure_ascii=False)` (helpers/text.py);
  * `Tr`             : `MatcherDescriptionTransformer` (matcher.py), `Tr.apply` = its `__call__`;
  * `M`              : the matcher *objects* (one constructor per class of matchers/*.py, plus the two
                       uses of `MatcherWrapper`);
  * `Expr`, `build`  : the *public constructor functions* (`equal_to`, `all_of`, `is_`, `not_`,
                       `is_not_none`, `is_true`, …) building the objects, incl. the `is_()` coercion
                       of plain values in argument position;
  * `describe`       : `build_description` (pure reading), `describeSt` : the same function written as
                       the code threads the SHARED MUTABLE transformer object through the tree, for
                       both versions of `Not.build_description` (`legacy = true`: the code before
                       fixes/D12-D13…diff, which sets `negative = True` on the shared object;
                       `legacy = false`: the repaired code);
  * `matchOf`       : `Matcher.matches` — success flag, details text (`none` = no details / hidden,
                       `some []` = empty string), or the raised Python exception class;
  * `checkThat`/`requireThat`/`assertThat` : operations.py as transitions on a check log.

  Text is `List Char` (code points, like Python `str`), so that `decide` evaluates descriptions in the
  kernel without going through the byte-array representation of `String`.

  The model mirrors the code WITH the two candidate repairs applied (`fixes/D4-…diff`,
  `fixes/D12-D13-…diff`); `describeSt true` and `formatDetailsLegacy` keep the behaviour of the
  unrepaired tree for the refutation theorems.

  Not modelled (restrictions of the model, named in design.d/C16.md): `match_pattern`, `is_text`,
  `is_json`; tuples; inf, negative zero and floats that are not half-integers (NaN IS modelled: `Val.nan`, one value, no object
  identity — see `Props/C17Values.lean`); values of classes `json.dumps` cannot write (see `Model/MatcherXVal.lean`); dict keys that `json.dumps` rejects (tuples, …);
  non-list arguments of `has_items/has_only_items/is_in`; `is_between` bounds other than int/float;
  `DISPLAY_DETAILS_WHEN_EQUAL = False`; `\w` is ASCII-only in the verb transformation.
  Core Lean only.
-/
namespace LccModel.Matcher

abbrev Str := List Char

/-- `c!"text"` : the list of characters of a literal, expanded at elaboration time. -/
macro:max "c!" s:str : term => do
  let cs := s.getString.toList
  let elems ← cs.toArray.mapM fun c => pure (Lean.Syntax.mkCharLit c)
  `(([$elems,*] : List Char))

instance instDecEqExcept {ε α} [DecidableEq ε] [DecidableEq α] : DecidableEq (Except ε α)
  | .ok a, .ok b => if h : a = b then isTrue (by rw [h]) else isFalse (fun h' => by cases h'; exact h rfl)
  | .error a, .error b => if h : a = b then isTrue (by rw [h]) else isFalse (fun h' => by cases h'; exact h rfl)
  | .ok _, .error _ => isFalse (fun h => by cases h)
  | .error _, .ok _ => isFalse (fun h => by cases h)

/-! ## Text helpers -/

/-- `sep.join(parts)` -/
def joinWith (sep : Str) : List Str → Str
  | [] => []
  | [x] => x
  | x :: y :: r => x ++ sep ++ joinWith sep (y :: r)

/-- `s.split(c)` for a one-character separator -/
def splitOn (c : Char) : Str → List Str
  | [] => [[]]
  | x :: xs =>
    if x = c then [] :: splitOn c xs
    else match splitOn c xs with
      | [] => [[x]]
      | l :: ls => (x :: l) :: ls

/-- `needle in hay` for two `str` -/
def isInfix (needle : Str) : Str → Bool
  | [] => needle.isEmpty
  | c :: cs => needle.isPrefixOf (c :: cs) || isInfix needle cs

def isSuffix (suffix s : Str) : Bool := suffix.reverse.isPrefixOf s.reverse

/-- `s[len(p):]` if `s.startswith(p)` -/
def dropPrefix? : Str → Str → Option Str
  | [], s => some s
  | _ :: _, [] => none
  | p :: ps, c :: cs => if p = c then dropPrefix? ps cs else none

def natStr (n : Nat) : Str := Nat.toDigits 10 n

def intStr (i : Int) : Str :=
  if i < 0 then '-' :: natStr i.natAbs else natStr i.natAbs

/-- `repr(h / 2)` for a half-integer float (no exponent form: |h| is kept below 2·10¹⁶ by the generators) -/
def halfStr (h : Int) : Str :=
  (if h < 0 then c!"-" else []) ++ natStr (h.natAbs / 2) ++ (if h.natAbs % 2 = 0 then c!".0" else c!".5")

def hexDigit (n : Nat) : Char := (Nat.toDigits 16 n).headD '0'

/-- one character inside a JSON string, `ensure_ascii=False` -/
def escChar (c : Char) : Str :=
  if c = '"' then c!"\\\""
  else if c = '\\' then c!"\\\\"
  else if c = '\n' then c!"\\n"
  else if c = '\r' then c!"\\r"
  else if c = '\t' then c!"\\t"
  else if c.toNat = 8 then c!"\\b"
  else if c.toNat = 12 then c!"\\f"
  else if c.toNat < 32 then c!"\\u00" ++ [hexDigit (c.toNat / 16), hexDigit (c.toNat % 16)]
  else [c]

def jsonStr (s : Str) : Str := '"' :: (s.flatMap escChar ++ c!"\"")

/-- the first character upper-cased the way `str.upper()` does it for ASCII (all details texts the
    matchers produce begin with an ASCII character) -/
def capitalize : Str → Str
  | [] => []
  | c :: cs => c.toUpper :: cs

/-! ## Values -/

/-- a dict key: the hashable scalars that `json.dumps` accepts as keys (`None`, `bool`, `int`, `float`, `str`);
    one dict may mix them (`{1: "one", "two": 2, None: 0}`) -/
inductive DKey
  | none
  | bool (b : Bool)
  | int (i : Int)
  | float (h : Int)                         -- the float `h / 2`
  | str (s : Str)
deriving Repr, DecidableEq, Inhabited

/-- numeric value of a key in halves (`True == 1 == 1.0` are ONE key of a Python dict) -/
def DKey.num : DKey → Option Int
  | .bool b => some (if b then 2 else 0)
  | .int i => some (2 * i)
  | .float h => some h
  | _ => Option.none

/-- `k1 == k2` (consistent with `hash`): the test a dict lookup performs -/
def DKey.eq : DKey → DKey → Bool
  | .none, .none => true
  | .str a, .str b => a == b
  | a, b =>
    match a.num, b.num with
    | some x, some y => x == y
    | _, _ => false

inductive Val
  | none
  | bool (b : Bool)
  | int (i : Int)
  | float (h : Int)                         -- the float `h / 2`
  | nan                                     -- a float NaN (`math.nan`, `float("nan")`, `json.loads("NaN")`, `inf - inf`, …): NOT equal
                                            -- to itself.  A `Val` has no identity: whichever object it is, the model gives it
                                            -- the same meaning (what Python does with two distinct NaN objects)
  | str (s : Str)
  | list (xs : List Val)
  | dict (ks : List DKey) (vs : List Val)   -- insertion-ordered `{ks[i]: vs[i]}`, keys pairwise distinct under `==`
deriving Repr, Inhabited

inductive PyErr
  | typeError
deriving Repr, DecidableEq, Inhabited

/-- `type(x)` -/
inductive Ty
  | none | bool | int | float | str | list | dict
deriving Repr, DecidableEq, Inhabited

def Val.ty : Val → Ty
  | .none => .none | .bool _ => .bool | .int _ => .int | .float _ => .float | .nan => .float
  | .str _ => .str | .list _ => .list | .dict _ _ => .dict

/-- numeric value in halves (bool ⊂ int ⊂ float, as Python compares them) -/
def numOf : Val → Option Int
  | .bool b => some (if b then 2 else 0)
  | .int i => some (2 * i)
  | .float h => some h
  | _ => Option.none

/-- the key as a value (`for k in d`) -/
def DKey.toVal : DKey → Val
  | .none => .none | .bool b => .bool b | .int i => .int i | .float h => .float h | .str s => .str s

/-- the value as a dict key; `none` = unhashable (`list`, `dict`) -/
def Val.toKey? : Val → Option DKey
  | .none => some .none | .bool b => some (.bool b) | .int i => some (.int i) | .float h => some (.float h)
  | .str s => some (.str s)
  | .nan => Option.none                      -- hashable, but no key of a modelled dict is a NaN: see `pyIn`
  | .list _ => Option.none | .dict _ _ => Option.none

/-- `d[k]` on the association representation of a dict (keys compared the way `dict` does: `hash` + `==`) -/
def lookup (k : DKey) : List DKey → List Val → Option Val
  | k' :: ks, v :: vs => if k.eq k' then some v else lookup k ks vs
  | _, _ => Option.none

mutual
/-- Python `a == b` -/
def pyEq : Val → Val → Bool
  | .none, .none => true
  | .str a, .str b => a == b
  | .list xs, .list ys => pyEqList xs ys
  | .dict ks vs, .dict ks' vs' => (ks.zip vs).length == (ks'.zip vs').length && dictSub ks vs ks' vs'
  | a, b =>
    match numOf a, numOf b with
    | some x, some y => x == y
    | _, _ => false
def pyEqList : List Val → List Val → Bool
  | [], [] => true
  | x :: xs, y :: ys => pyEq x y && pyEqList xs ys
  | _, _ => false
/-- every entry of the first dict is in the second with an equal value -/
def dictSub : List DKey → List Val → List DKey → List Val → Bool
  | k :: ks, v :: vs, ks', vs' =>
    (match lookup k ks' vs' with
     | some v' => pyEq v v'
     | Option.none => false) && dictSub ks vs ks' vs'
  | _, _, _, _ => true
end

/-- the four ordering operators -/
inductive Ord
  | lt | le | gt | ge
deriving Repr, DecidableEq, Inhabited

/-- the operator applied to two integers -/
def Ord.onInt : Ord → Int → Int → Bool
  | .lt, a, b => decide (a < b)
  | .le, a, b => decide (a ≤ b)
  | .gt, a, b => decide (b < a)
  | .ge, a, b => decide (b ≤ a)

/-- code-point-wise `a < b` on `str` -/
def strLt : Str → Str → Bool
  | [], [] => false
  | [], _ :: _ => true
  | _ :: _, [] => false
  | a :: as, b :: bs => if a.toNat < b.toNat then true else if b.toNat < a.toNat then false else strLt as bs

def Ord.onStr : Ord → Str → Str → Bool
  | .lt, a, b => strLt a b
  | .le, a, b => !strLt b a
  | .gt, a, b => strLt b a
  | .ge, a, b => !strLt a b

mutual
/-- Python `a < b`, `a <= b`, `a > b`, `a >= b` (`TypeError` for unorderable operands) -/
def pyCmp (op : Ord) : Val → Val → Except PyErr Bool
  | .str a, .str b => .ok (op.onStr a b)
  | .list xs, .list ys => pyCmpList op xs ys
  | .none, _ => .error .typeError
  | .dict _ _, _ => .error .typeError
  | .str _, _ => .error .typeError
  | .list _, _ => .error .typeError
  | .nan, b => if b.ty = .bool ∨ b.ty = .int ∨ b.ty = .float then .ok false else .error .typeError   -- every ordering with a NaN is False
  | a, .nan => if a.ty = .bool ∨ a.ty = .int ∨ a.ty = .float then .ok false else .error .typeError
  | a, b =>
    match numOf a, numOf b with
    | some x, some y => .ok (op.onInt x y)
    | _, _ => .error .typeError
/-- `list_richcompare`: first index where the items are not `==`, then the operator on those two
    items; if one list is a prefix of the other, the operator on the lengths -/
def pyCmpList (op : Ord) : List Val → List Val → Except PyErr Bool
  | [], [] => .ok (op.onInt 0 0)
  | [], _ :: _ => .ok (op.onInt 0 1)
  | _ :: _, [] => .ok (op.onInt 1 0)
  | x :: xs, y :: ys => if pyEq x y then pyCmpList op xs ys else pyCmp op x y
end

/-- `len(x)` -/
def pyLen : Val → Except PyErr Nat
  | .str s => .ok s.length
  | .list xs => .ok xs.length
  | .dict ks vs => .ok (ks.zip vs).length
  | _ => .error .typeError

/-- `list(iter(x))` -/
def pyIter : Val → Except PyErr (List Val)
  | .str s => .ok (s.map fun c => .str [c])
  | .list xs => .ok xs
  | .dict ks vs => .ok ((ks.zip vs).map fun kv => kv.1.toVal)
  | _ => .error .typeError

/-- `any(item == x for item in xs)` — `x in xs` for a list -/
def listContains (xs : List Val) (x : Val) : Bool := xs.any fun item => pyEq item x

/-- `x in container` -/
def pyIn (x : Val) : Val → Except PyErr Bool
  | .list xs => .ok (listContains xs x)
  | .str s =>
    match x with
    | .str n => .ok (isInfix n s)
    | _ => .error .typeError                    -- 'in <string>' requires string as left operand
  | .dict ks vs =>
    match x with
    | .nan => .ok false                         -- hashable, equal to no key
    | _ =>
    match x.toKey? with
    | some k => .ok ((lookup k ks vs).isSome)
    | Option.none => .error .typeError          -- unhashable type: 'list' / 'dict'
  | _ => .error .typeError                      -- argument of type … is not iterable

/-- `xs.remove(x)` when `x in xs` -/
def removeFirst (x : Val) : List Val → List Val
  | [] => []
  | y :: ys => if pyEq y x then ys else y :: removeFirst x ys

/-- a key of a `has_entry` key path -/
inductive Key
  | str (s : Str)
  | int (i : Int)
deriving Repr, DecidableEq, Inhabited

/-- `d[key]` as `KeyPathMatcher.get_entry` uses it: `none` = `KeyError` (also raised by the code for
    `TypeError`/`IndexError`) -/
def getItem : Val → Key → Option Val
  | .dict ks vs, .str k => lookup (.str k) ks vs
  | .dict ks vs, .int i => lookup (.int i) ks vs          -- `{1: x}[1]`, also `{True: x}[1]`, `{1.0: x}[1]`
  | .list xs, .int i =>
    let j := if i < 0 then i + xs.length else i
    if j < 0 then Option.none else xs[j.toNat]?
  | .str s, .int i =>
    let j := if i < 0 then i + s.length else i
    if j < 0 then Option.none else (s[j.toNat]?).map fun c => .str [c]
  | _, _ => Option.none

/-- `KeyPathMatcher.get_entry` -/
def getPath : Val → List Key → Option Val
  | v, [] => some v
  | v, k :: ks => match getItem v k with
    | some w => getPath w ks
    | Option.none => Option.none

/-- a dict key as `json.dumps` writes it: `str` as is, the other scalars coerced to the text of their JSON
    rendering (`{1: 0, None: 0, True: 0, 1.5: 0}` → `{"1": 0, "null": 0, "true": 0, "1.5": 0}`); the keys are written in
    insertion order, whatever their types (no sorting, hence no comparison between keys) -/
def DKey.json : DKey → Str
  | .str s => jsonStr s
  | .none => c!"\"null\""
  | .bool true => c!"\"true\""
  | .bool false => c!"\"false\""
  | .int i => '"' :: (intStr i ++ c!"\"")
  | .float h => '"' :: (halfStr h ++ c!"\"")

mutual
/-- `json.dumps(x, ensure_ascii=False)` -/
def jsonify : Val → Str
  | .none => c!"null"
  | .bool true => c!"true"
  | .bool false => c!"false"
  | .int i => intStr i
  | .float h => halfStr h
  | .nan => c!"NaN"                           -- `json.dumps(float("nan"))` (allow_nan is on)
  | .str s => jsonStr s
  | .list xs => c!"[" ++ joinWith c!", " (jsonifyList xs) ++ c!"]"
  | .dict ks vs => c!"{" ++ joinWith c!", " (jsonifyEntries ks vs) ++ c!"}"
def jsonifyList : List Val → List Str
  | [] => []
  | x :: xs => jsonify x :: jsonifyList xs
def jsonifyEntries : List DKey → List Val → List Str
  | k :: ks, v :: vs => (k.json ++ c!": " ++ jsonify v) :: jsonifyEntries ks vs
  | _, _ => []
end

/-- `", ".join(map(jsonify, items))` (list_.py `_jsonify_items`) -/
def jsonifyItems (xs : List Val) : Str := joinWith c!", " (jsonifyList xs)

def Key.json : Key → Str
  | .str s => jsonStr s
  | .int i => intStr i

/-- `KeyPathMatcher.build_description` -/
def pathDesc (p : List Key) : Str := joinWith c!" -> " (p.map Key.json)

/-- numbers accepted by `is_between` -/
inductive Num
  | int (i : Int)
  | float (h : Int)
deriving Repr, DecidableEq, Inhabited

def Num.toVal : Num → Val
  | .int i => .int i
  | .float h => .float h

/-- `"%s" % n` -/
def Num.pyStr : Num → Str
  | .int i => intStr i
  | .float h => halfStr h

/-! ## The description transformer (matcher.py) -/

/-- `MatcherDescriptionTransformer` -/
structure Tr where
  conjugate : Bool
  negative : Bool
deriving Repr, DecidableEq, Inhabited

/-- `MatcherDescriptionTransformer()` -/
def Tr.plain : Tr := ⟨false, false⟩
/-- `MatcherDescriptionTransformer(conjugate=True)` -/
def Tr.conj : Tr := ⟨true, false⟩
def Tr.neg (t : Tr) : Tr := { t with negative := !t.negative }

/-- ASCII `\w` -/
def isWordChar (c : Char) : Bool := c.isAlphanum || c = '_'

/-- the substitution the transformer picks among (conjugated, conjugated negative, infinitive negative) -/
def Tr.pick (t : Tr) (conj conjNeg infNeg : Str) : Str :=
  if t.conjugate && t.negative then conjNeg else if t.conjugate then conj else infNeg

/-- `MatcherDescriptionTransformer.__call__` -/
def Tr.apply (t : Tr) (d : Str) : Str :=
  if !t.conjugate && !t.negative then d else
  match dropPrefix? c!"to be" d with
  | some rest => t.pick c!"is" c!"is not" c!"to not be" ++ rest
  | none =>
  match dropPrefix? c!"to have" d with
  | some rest => t.pick c!"has" c!"has not" c!"to have no" ++ rest
  | none =>
  match dropPrefix? c!"to match" d with
  | some rest => t.pick c!"matches" c!"does not match" c!"to not match" ++ rest
  | none =>
  match dropPrefix? c!"can" d with
  | some rest => t.pick c!"can" c!"cannot" c!"to cannot" ++ rest
  | none =>
  match dropPrefix? c!"to " d with
  | some rest =>
    let verb := rest.takeWhile isWordChar
    if verb.isEmpty then d
    else t.pick (verb ++ c!"s") (c!"does not " ++ verb) (c!"to not " ++ verb) ++ rest.dropWhile isWordChar
  | none => d

/-! ## Matcher objects -/

/-- the comparison of a `_Comparator` -/
inductive Cmp
  | ne
  | ord (o : Ord)
deriving Repr, DecidableEq, Inhabited

def Cmp.words : Cmp → Str
  | .ne => c!"not equal to"
  | .ord .gt => c!"greater than"
  | .ord .ge => c!"greater than or equal to"
  | .ord .lt => c!"less than"
  | .ord .le => c!"less than or equal to"

/-- the wording of an `Anything` matcher -/
inductive Wording
  | anything | something | existing | present
deriving Repr, DecidableEq, Inhabited

def Wording.text : Wording → Str
  | .anything => c!"to be anything"
  | .something => c!"to be something"
  | .existing => c!"to exist"
  | .present => c!"to be present"

/-- the types of `IsValueOfType` as the public constructors instantiate it -/
inductive TyM
  | int | float | str | dict | list | bool
deriving Repr, DecidableEq, Inhabited

def TyM.accepts : TyM → Ty → Bool
  | .int, .int => true
  | .float, .float => true
  | .str, .str => true
  | .dict, .dict => true
  | .list, .list => true
  | .bool, .bool => true
  | _, _ => false

def TyM.name : TyM → Str
  | .int => c!"an integer" | .float => c!"a float" | .str => c!"a string"
  | .dict => c!"a collection" | .list => c!"a list" | .bool => c!"a boolean"

/-- `IsValueOfType._get_value_type_name` -/
def valueTypeName : Val → Str
  | .int _ => c!"integer" | .float _ => c!"float" | .nan => c!"float" | .str _ => c!"string"
  | .dict _ _ => c!"collection" | .list _ => c!"array"
  | .bool _ => c!"<class 'bool'>" | .none => c!"<class 'NoneType'>"

inductive M
  | equalTo (e : Val)                          -- EqualTo
  | cmp (op : Cmp) (e : Val)                   -- _Comparator
  | between (lo hi : Num)                      -- IsBetween
  | isNone                                     -- IsNone
  | hasLength (m : M)                          -- HasLength
  | startsWith (s : Str)                       -- StartsWith
  | endsWith (s : Str)                         -- EndsWith
  | containsString (s : Str)                   -- ContainsString
  | hasItem (m : M)                            -- HasItem
  | hasItems (vs : List Val)                   -- HasItems
  | hasOnlyItems (vs : List Val)               -- HasOnlyItems
  | hasAllItems (m : M)                        -- HasAllItems
  | isIn (vs : List Val)                       -- IsIn
  | hasEntry (path : List Key) (m : M)         -- HasEntry(KeyPathMatcher(path), m)
  | hasKey (path : List Key)                   -- HasEntry(KeyPathMatcher(path), None)
  | isType (t : TyM) (m : M)                   -- IsValueOfType(types, name, m)
  | isTypeAny (t : TyM)                        -- IsValueOfType(types, name, None)
  | allOf (ms : List M)                        -- AllOf
  | anyOf (ms : List M)                        -- AnyOf
  | anything (w : Wording)                     -- Anything(wording)
  | not (m : M)                                -- Not
  | hidden (m : M)                             -- MatcherWrapper(m, result_details=None)
  | described (d : Str) (m : M)                -- MatcherWrapper(m, description=d)
deriving Repr, Inhabited

/-- `isinstance(matcher, (AllOf, AnyOf))` -/
def M.isComposite : M → Bool
  | .allOf _ => true
  | .anyOf _ => true
  | _ => false

/-! ## Descriptions -/

/-- composites.py `_make_item` -/
def makeItem (content prefix_ : Str) : Str :=
  match splitOn '\n' content with
  | [] => c!"    " ++ prefix_
  | l :: ls => joinWith c!"\n" ((c!"    " ++ prefix_ ++ l) :: ls.map fun x => c!"      " ++ x)

/-- the items of `_build_multi_line_description` / `_make_items`: first prefix `- `, then `- <rel> ` -/
def makeItemsFrom (rel : Str) : Bool → List Str → List Str
  | _, [] => []
  | first, d :: ds =>
    makeItem d (if first then c!"- " else c!"- " ++ rel ++ c!" ") :: makeItemsFrom rel false ds

def makeItems (rel : Str) (ds : List Str) : List Str := makeItemsFrom rel true ds

/-- `_build_multi_line_description` given the children's descriptions -/
def multiLine (rel : Str) (ds : List Str) : Str := joinWith c!"\n" (c!":" :: makeItems rel ds)

/-- `_build_single_line_description_if_suitable` given the children's descriptions, followed by the
    truthiness test `if description:` of `_build_composite_description` -/
def singleLine? (rel : Str) (hasComposite : Bool) (ds : List Str) : Option Str :=
  if hasComposite then none
  else if ds.any (fun d => d.contains '\n') then none
  else
    let d := joinWith (c!" " ++ rel ++ c!" ") ds
    if d.length > 100 then none
    else if d.isEmpty then none
    else some d

/-- `_build_composite_description`: `ds₁` = the children's descriptions of the single-line attempt,
    `ds₂` = those of the multi-line pass (the code calls `build_description` again) -/
def renderComposite (rel : Str) (hasComposite : Bool) (ds₁ ds₂ : List Str) : Str :=
  match singleLine? rel hasComposite ds₁ with
  | some d => d
  | none => multiLine rel ds₂

mutual
/-- `Matcher.build_description(transformation)` of the repaired code, as a pure function of the
    transformer's *value* -/
def describe : M → Tr → Str
  | .equalTo e, t => t.apply (c!"to be equal to " ++ jsonify e)
  | .cmp op e, t => t.apply (c!"to be " ++ op.words ++ c!" " ++ jsonify e)
  | .between lo hi, t => t.apply (c!"to be between " ++ lo.pyStr ++ c!" and " ++ hi.pyStr)
  | .isNone, t => t.apply c!"to be null"
  | .hasLength m, t => t.apply (c!"to have a length that " ++ describe m Tr.conj)
  | .startsWith s, t => t.apply (c!"to start with \"" ++ s ++ c!"\"")
  | .endsWith s, t => t.apply (c!"to end with \"" ++ s ++ c!"\"")
  | .containsString s, t => t.apply (c!"to contain \"" ++ s ++ c!"\"")
  | .hasItem m, t => t.apply (c!"to have an item whose value " ++ describe m Tr.conj)
  | .hasItems vs, t => t.apply (c!"to have items " ++ jsonifyItems vs)
  | .hasOnlyItems vs, t => t.apply (c!"to have only items " ++ jsonifyItems vs)
  | .hasAllItems m, t => t.apply (c!"to have all items whose value " ++ describe m Tr.conj)
  | .isIn vs, t => t.apply (c!"to be in " ++ jsonifyItems vs)
  | .hasEntry p m, t => t.apply (c!"to have entry " ++ pathDesc p) ++ c!" that " ++ describe m Tr.conj
  | .hasKey p, t => t.apply (c!"to have entry " ++ pathDesc p)
  | .isType ty m, t => t.apply (c!"to be " ++ ty.name) ++ c!" that " ++ describe m Tr.conj
  | .isTypeAny ty, t => t.apply (c!"to be " ++ ty.name)
  | .allOf ms, t => renderComposite c!"and" (ms.any M.isComposite) (describeList ms t) (describeList ms t)
  | .anyOf ms, t => renderComposite c!"or" (ms.any M.isComposite) (describeList ms t) (describeList ms t)
  | .anything w, t => t.apply w.text
  | .not m, t => describe m t.neg
  | .hidden m, t => describe m t
  | .described d _, t => t.apply d
def describeList : List M → Tr → List Str
  | [], _ => []
  | m :: ms, t => describe m t :: describeList ms t
end

mutual
/-- `Matcher.build_short_description(transformation)` (used in the details of `all_of`) -/
def shortDescribe : M → Tr → Str
  | .allOf _, _ => c!":"
  | .anyOf _, _ => c!":"
  | .hasItem m, t => t.apply (c!"to have an item whose value " ++ shortDescribe m Tr.conj)
  | .hasAllItems m, t => t.apply (c!"to have all items whose value " ++ shortDescribe m Tr.conj)
  | .hasEntry p m, t => t.apply (c!"to have entry " ++ pathDesc p) ++ c!" that " ++ shortDescribe m Tr.conj
  | m, t => describe m t
end

mutual
/--
  `build_description` written the way the code threads the transformer: ONE object is handed to
  every child of a composite, so what a child does to it is visible to the later children and to
  the second (multi-line) pass.  The result is the text and the state of that object afterwards.

  `legacy = true`:  `Not.build_description` is `transformation.negative = True; return
                     self.matcher.build_description(transformation)` (the tree before the repair);
  `legacy = false`: `Not.build_description` builds a new transformer with the negation toggled and
                     leaves the shared one alone (fixes/D12-D13-…diff).
-/
def describeSt (legacy : Bool) : M → Tr → Str × Tr
  | .equalTo e, t => (t.apply (c!"to be equal to " ++ jsonify e), t)
  | .cmp op e, t => (t.apply (c!"to be " ++ op.words ++ c!" " ++ jsonify e), t)
  | .between lo hi, t => (t.apply (c!"to be between " ++ lo.pyStr ++ c!" and " ++ hi.pyStr), t)
  | .isNone, t => (t.apply c!"to be null", t)
  | .hasLength m, t => (t.apply (c!"to have a length that " ++ (describeSt legacy m Tr.conj).1), t)
  | .startsWith s, t => (t.apply (c!"to start with \"" ++ s ++ c!"\""), t)
  | .endsWith s, t => (t.apply (c!"to end with \"" ++ s ++ c!"\""), t)
  | .containsString s, t => (t.apply (c!"to contain \"" ++ s ++ c!"\""), t)
  | .hasItem m, t => (t.apply (c!"to have an item whose value " ++ (describeSt legacy m Tr.conj).1), t)
  | .hasItems vs, t => (t.apply (c!"to have items " ++ jsonifyItems vs), t)
  | .hasOnlyItems vs, t => (t.apply (c!"to have only items " ++ jsonifyItems vs), t)
  | .hasAllItems m, t => (t.apply (c!"to have all items whose value " ++ (describeSt legacy m Tr.conj).1), t)
  | .isIn vs, t => (t.apply (c!"to be in " ++ jsonifyItems vs), t)
  | .hasEntry p m, t =>
    (t.apply (c!"to have entry " ++ pathDesc p) ++ c!" that " ++ (describeSt legacy m Tr.conj).1, t)
  | .hasKey p, t => (t.apply (c!"to have entry " ++ pathDesc p), t)
  | .isType ty m, t => (t.apply (c!"to be " ++ ty.name) ++ c!" that " ++ (describeSt legacy m Tr.conj).1, t)
  | .isTypeAny ty, t => (t.apply (c!"to be " ++ ty.name), t)
  | .allOf ms, t =>
    let hasC := ms.any M.isComposite
    let p₁ := describeListSt legacy ms t                              -- single-line attempt
    let p₂ := describeListSt legacy ms (if hasC then t else p₁.2)     -- multi-line pass
    match singleLine? c!"and" hasC p₁.1 with
    | some d => (d, p₁.2)
    | none => (multiLine c!"and" p₂.1, p₂.2)
  | .anyOf ms, t =>
    let hasC := ms.any M.isComposite
    let p₁ := describeListSt legacy ms t
    let p₂ := describeListSt legacy ms (if hasC then t else p₁.2)
    match singleLine? c!"or" hasC p₁.1 with
    | some d => (d, p₁.2)
    | none => (multiLine c!"or" p₂.1, p₂.2)
  | .anything w, t => (t.apply w.text, t)
  | .not m, t =>
    if legacy then describeSt legacy m { t with negative := true }
    else ((describeSt legacy m t.neg).1, t)
  | .hidden m, t => describeSt legacy m t
  | .described d _, t => (t.apply d, t)
def describeListSt (legacy : Bool) : List M → Tr → List Str × Tr
  | [], t => ([], t)
  | m :: ms, t =>
    let p := describeSt legacy m t
    let q := describeListSt legacy ms p.2
    (p.1 :: q.1, q.2)
end

/-! ## Matching -/

/-- `MatchResult`: `details = none` is `description is None` -/
structure Res where
  ok : Bool
  details : Option Str
deriving Repr, DecidableEq, Inhabited

abbrev Outcome := Except PyErr Res

def got (v : Val) : Option Str := some (c!"got " ++ jsonify v)

/-- composites.py `_serialize_sub_matcher_result` -/
def serializeSub (m : M) (r : Res) : Str :=
  shortDescribe m Tr.plain ++ c!" => " ++ (if r.ok then c!"OK" else c!"KO") ++
    (match r.details with
     | some d => c!", " ++ d
     | none => [])

/-- `OrderedSet(...)`: first occurrences, in order -/
def dedup : List Str → List Str
  | [] => []
  | x :: xs => x :: (dedup xs).filter (fun y => y != x)

/-- `HasItem.matches` loop: index of the first item the matcher accepts -/
def findFirst (f : Val → Outcome) : List Val → Nat → Except PyErr (Option Nat)
  | [], _ => .ok none
  | x :: xs, i =>
    match f x with
    | .error e => .error e
    | .ok r => if r.ok then .ok (some i) else findFirst f xs (i + 1)

/-- `"%s" % description` of an optional text -/
def optStr : Option Str → Str
  | some d => d
  | none => c!"None"

/-- `HasAllItems.matches` loop: the lines of the failing items -/
def collectFailures (f : Val → Outcome) : List Val → Nat → Except PyErr (List Str)
  | [], _ => .ok []
  | x :: xs, i =>
    match f x with
    | .error e => .error e
    | .ok r =>
      match collectFailures f xs (i + 1) with
      | .error e => .error e
      | .ok rest =>
        .ok (if r.ok then rest else (c!"- at index " ++ natStr i ++ c!": " ++ optStr r.details) :: rest)

/-- `HasItems.matches` loop: the expected values that are not `in actual` -/
def missingItems (actual : Val) : List Val → Except PyErr (List Val)
  | [] => .ok []
  | e :: es =>
    match pyIn e actual with
    | .error err => .error err
    | .ok b =>
      match missingItems actual es with
      | .error err => .error err
      | .ok rest => .ok (if b then rest else e :: rest)

/-- `HasOnlyItems.matches` loop: (expected values not consumed, extra values) -/
def onlyItemsLoop : List Val → List Val → List Val → List Val × List Val
  | [], expected, extra => (expected, extra)
  | x :: xs, expected, extra =>
    if listContains expected x then onlyItemsLoop xs (removeFirst x expected) extra
    else onlyItemsLoop xs expected (extra ++ [x])

mutual
/-- `matcher.matches(actual)` -/
def matchOf : M → Val → Outcome
  | .equalTo e, v => .ok ⟨pyEq v e, got v⟩
  | .cmp .ne e, v => .ok ⟨!pyEq v e, got v⟩
  | .cmp (.ord o) e, v =>
    match pyCmp o v e with
    | .error err => .error err
    | .ok b => .ok ⟨b, got v⟩
  | .between lo hi, v =>
    -- `self.min <= actual <= self.max`
    match pyCmp .le lo.toVal v with
    | .error err => .error err
    | .ok false => .ok ⟨false, got v⟩
    | .ok true =>
      match pyCmp .le v hi.toVal with
      | .error err => .error err
      | .ok b => .ok ⟨b, got v⟩
  | .isNone, v =>
    match v with
    | .none => .ok ⟨true, some c!"got null"⟩
    | _ => .ok ⟨false, got v⟩
  | .hasLength m, v =>
    match pyLen v with
    | .error err => .error err
    | .ok n => matchOf m (.int n)
  | .startsWith s, v =>
    .ok ⟨(match v with | .str a => s.isPrefixOf a | _ => false), got v⟩
  | .endsWith s, v =>
    .ok ⟨(match v with | .str a => isSuffix s a | _ => false), got v⟩
  | .containsString s, v =>
    .ok ⟨(match v with | .str a => isInfix s a | _ => false), got v⟩
  | .hasItem m, v =>
    match pyIter v with
    | .error err => .error err
    | .ok items =>
      match findFirst (fun x => matchOf m x) items 0 with
      | .error err => .error err
      | .ok (some i) => .ok ⟨true, some (c!"found matching item at index " ++ natStr i)⟩
      | .ok none => .ok ⟨false, some c!"no matching item"⟩
  | .hasItems es, v =>
    match missingItems v es with
    | .error err => .error err
    | .ok [] => .ok ⟨true, got v⟩
    | .ok (x :: xs) => .ok ⟨false, some (c!"Missing items: " ++ jsonifyItems (x :: xs))⟩
  | .hasOnlyItems es, v =>
    match pyIter v with
    | .error err => .error err
    | .ok items =>
      match onlyItemsLoop items es [] with
      | ([], []) => .ok ⟨true, got v⟩
      | (missing, extra) =>
        .ok ⟨false, some (joinWith c!"; "
          ((if missing.isEmpty then [] else [c!"Missing items: " ++ jsonifyItems missing]) ++
           (if extra.isEmpty then [] else [c!"Extra items: " ++ jsonifyItems extra])))⟩
  | .hasAllItems m, v =>
    match pyIter v with
    | .error err => .error err
    | .ok items =>
      match collectFailures (fun x => matchOf m x) items 0 with
      | .error err => .error err
      | .ok [] => .ok ⟨true, none⟩
      | .ok (l :: ls) => .ok ⟨false, some (joinWith c!"\n" (c!"Non-matching items:" :: l :: ls))⟩
  | .isIn es, v => .ok ⟨listContains es v, got v⟩
  | .hasEntry p m, v =>
    match getPath v p with
    | none => .ok ⟨false, some (c!"No entry " ++ pathDesc p)⟩
    | some w => matchOf m w
  | .hasKey p, v =>
    match getPath v p with
    | none => .ok ⟨false, some (c!"No entry " ++ pathDesc p)⟩
    | some w => .ok ⟨true, got w⟩
  | .isType ty m, v =>
    if ty.accepts v.ty then matchOf m v
    else .ok ⟨false, some (c!"got " ++ jsonify v ++ c!" (" ++ valueTypeName v ++ c!")")⟩
  | .isTypeAny ty, v =>
    if ty.accepts v.ty then .ok ⟨true, got v⟩
    else .ok ⟨false, some (c!"got " ++ jsonify v ++ c!" (" ++ valueTypeName v ++ c!")")⟩
  | .allOf ms, v =>
    match allOfLoop ms v with
    | .error err => .error err
    | .ok (ok, items) => .ok ⟨ok, some (joinWith c!"\n" (c!"got:" :: makeItems c!"and" items))⟩
  | .anyOf ms, v => anyOfLoop ms v []
  | .anything _, v => .ok ⟨true, got v⟩
  | .not m, v =>
    match matchOf m v with
    | .error err => .error err
    | .ok r => .ok ⟨!r.ok, r.details⟩
  | .hidden m, v =>
    match matchOf m v with
    | .error err => .error err
    | .ok r => .ok ⟨r.ok, none⟩
  | .described _ m, v => matchOf m v
/-- `AllOf.matches` loop (stops after the first failing matcher): success flag and serialized sub-results -/
def allOfLoop : List M → Val → Except PyErr (Bool × List Str)
  | [], _ => .ok (true, [])
  | m :: ms, v =>
    match matchOf m v with
    | .error err => .error err
    | .ok r =>
      if r.ok then
        match allOfLoop ms v with
        | .error err => .error err
        | .ok (ok, items) => .ok (ok, serializeSub m r :: items)
      else .ok (false, [serializeSub m r])
/-- `AnyOf.matches` loop (returns the first successful sub-result itself); `acc` = the truthy details
    of the failed sub-results so far -/
def anyOfLoop : List M → Val → List Str → Outcome
  | [], _, acc => .ok ⟨false, some (joinWith c!", " (dedup acc))⟩
  | m :: ms, v, acc =>
    match matchOf m v with
    | .error err => .error err
    | .ok r =>
      if r.ok then .ok r
      else anyOfLoop ms v (acc ++ (match r.details with
                                    | some d => if d.isEmpty then [] else [d]
                                    | none => []))
end

/-- the success flag alone (or the exception) -/
def okE (m : M) (v : Val) : Except PyErr Bool :=
  match matchOf m v with
  | .error e => .error e
  | .ok r => .ok r.ok

/-! ## Reference semantics: what the combinators and leaves *mean*, in terms of the Python operators
    only (no details, no descriptions, no wrappers).  `C16.okE_eq_sem` proves the model of the code
    computes exactly this. -/

/-- `all(f(x) for x in xs)` with exceptions: stops at the first `False` -/
def allE {α} (f : α → Except PyErr Bool) : List α → Except PyErr Bool
  | [] => .ok true
  | x :: xs =>
    match f x with
    | .error e => .error e
    | .ok true => allE f xs
    | .ok false => .ok false

/-- `any(f(x) for x in xs)` with exceptions: stops at the first `True` -/
def anyE {α} (f : α → Except PyErr Bool) : List α → Except PyErr Bool
  | [] => .ok false
  | x :: xs =>
    match f x with
    | .error e => .error e
    | .ok true => .ok true
    | .ok false => anyE f xs

/-- like `allE` but every element is evaluated (no short-circuit): `has_all_items`, `has_items` -/
def allStrictE {α} (f : α → Except PyErr Bool) : List α → Except PyErr Bool
  | [] => .ok true
  | x :: xs =>
    match f x with
    | .error e => .error e
    | .ok b =>
      match allStrictE f xs with
      | .error e => .error e
      | .ok c => .ok (b && c)

def notE : Except PyErr Bool → Except PyErr Bool
  | .error e => .error e
  | .ok b => .ok !b

mutual
def sem : M → Val → Except PyErr Bool
  | .equalTo e, v => .ok (pyEq v e)                                    -- actual == expected
  | .cmp .ne e, v => .ok !(pyEq v e)                                   -- actual != expected
  | .cmp (.ord o) e, v => pyCmp o v e                                  -- actual < expected, …
  | .between lo hi, v =>                                               -- min <= actual <= max
    match pyCmp .le lo.toVal v with
    | .error e => .error e
    | .ok false => .ok false
    | .ok true => pyCmp .le v hi.toVal
  | .isNone, v => .ok (v.ty == .none)                                  -- actual is None
  | .hasLength m, v =>
    match pyLen v with
    | .error e => .error e
    | .ok n => sem m (.int n)                                          -- m(len(actual))
  | .startsWith s, v => .ok (match v with | .str a => s.isPrefixOf a | _ => false)
  | .endsWith s, v => .ok (match v with | .str a => isSuffix s a | _ => false)
  | .containsString s, v => .ok (match v with | .str a => isInfix s a | _ => false)
  | .hasItem m, v =>
    match pyIter v with
    | .error e => .error e
    | .ok items => anyE (fun x => sem m x) items                       -- any(m(x) for x in actual)
  | .hasItems es, v => allStrictE (fun e => pyIn e v) es               -- all(e in actual for e in expected)
  | .hasOnlyItems es, v =>
    match pyIter v with
    | .error e => .error e
    | .ok items =>
      let r := onlyItemsLoop items es []
      .ok (r.1.isEmpty && r.2.isEmpty)                                 -- multiset equality under ==
  | .hasAllItems m, v =>
    match pyIter v with
    | .error e => .error e
    | .ok items => allStrictE (fun x => sem m x) items                 -- all([m(x) for x in actual])
  | .isIn es, v => .ok (listContains es v)                             -- actual in expected
  | .hasEntry p m, v =>
    match getPath v p with
    | none => .ok false
    | some w => sem m w
  | .hasKey p, v => .ok (getPath v p).isSome
  | .isType ty m, v => if ty.accepts v.ty then sem m v else .ok false   -- type(actual) in types and m(actual)
  | .isTypeAny ty, v => .ok (ty.accepts v.ty)
  | .allOf ms, v => semAll ms v
  | .anyOf ms, v => semAny ms v
  | .anything _, _ => .ok true
  | .not m, v => notE (sem m v)
  | .hidden m, v => sem m v
  | .described _ m, v => sem m v
def semAll : List M → Val → Except PyErr Bool
  | [], _ => .ok true
  | m :: ms, v =>
    match sem m v with
    | .error e => .error e
    | .ok true => semAll ms v
    | .ok false => .ok false
def semAny : List M → Val → Except PyErr Bool
  | [], _ => .ok false
  | m :: ms, v =>
    match sem m v with
    | .error e => .error e
    | .ok true => .ok true
    | .ok false => semAny ms v
end

/-! ## The public constructor functions -/

/-- an expression written with the public API; `val v` is a plain Python value in a position where
    the API accepts `Any` and applies `is_()` -/
inductive Expr
  | val (v : Val)
  | is_ (e : Expr)
  | not_ (e : Expr)
  | equal_to (v : Val)
  | not_equal_to (v : Val)
  | greater_than (v : Val)
  | greater_than_or_equal_to (v : Val)
  | less_than (v : Val)
  | less_than_or_equal_to (v : Val)
  | is_between (lo hi : Num)
  | is_none
  | is_not_none
  | is_true
  | is_false
  | has_length (e : Expr)
  | starts_with (s : Str)
  | ends_with (s : Str)
  | contains_string (s : Str)
  | has_item (e : Expr)
  | has_items (vs : List Val)
  | has_only_items (vs : List Val)
  | has_all_items (e : Expr)
  | is_in (vs : List Val)
  | has_entry (path : List Key) (e : Expr)
  | has_key (path : List Key)                 -- has_entry(path) without a value matcher
  | is_type (t : TyM) (e : Expr)              -- is_integer(x), is_float(x), is_str(x), is_dict(x), is_list(x), is_bool(x)
  | is_type_any (t : TyM)                     -- is_integer(), …
  | all_of (es : List Expr)
  | any_of (es : List Expr)
  | anything | something | existing | present
  | hide_result_details (e : Expr)            -- <matcher>.hide_result_details()
  | override_description (d : Str) (e : Expr) -- <matcher>.override_description(d)
deriving Repr, Inhabited

mutual
/-- the matcher object an expression evaluates to; a plain value becomes `equal_to(value)`
    (composites.py `is_`) -/
def build : Expr → M
  | .val v => .equalTo v
  | .is_ e => build e
  | .not_ e => .not (build e)
  | .equal_to v => .equalTo v
  | .not_equal_to v => .cmp .ne v
  | .greater_than v => .cmp (.ord .gt) v
  | .greater_than_or_equal_to v => .cmp (.ord .ge) v
  | .less_than v => .cmp (.ord .lt) v
  | .less_than_or_equal_to v => .cmp (.ord .le) v
  | .is_between lo hi => .between lo hi
  | .is_none => .isNone
  | .is_not_none => .not .isNone
  | .is_true => .isType .bool (.equalTo (.bool true))
  | .is_false => .isType .bool (.equalTo (.bool false))
  | .has_length e => .hasLength (build e)
  | .starts_with s => .startsWith s
  | .ends_with s => .endsWith s
  | .contains_string s => .containsString s
  | .has_item e => .hasItem (build e)
  | .has_items vs => .hasItems vs
  | .has_only_items vs => .hasOnlyItems vs
  | .has_all_items e => .hasAllItems (build e)
  | .is_in vs => .isIn vs
  -- `value_matcher=None` / `expected=None` is the "no matcher" default: a plain `None` is NOT turned into `equal_to(None)`
  | .has_entry p (.val .none) => .hasKey p
  | .is_type t (.val .none) => .isTypeAny t
  | .has_entry p e => .hasEntry p (build e)
  | .has_key p => .hasKey p
  | .is_type t e => .isType t (build e)
  | .is_type_any t => .isTypeAny t
  | .all_of es => .allOf (buildList es)
  | .any_of es => .anyOf (buildList es)
  | .anything => .anything .anything
  | .something => .anything .something
  | .existing => .anything .existing
  | .present => .anything .present
  | .hide_result_details e => .hidden (build e)
  | .override_description d e => .described d (build e)
def buildList : List Expr → List M
  | [] => []
  | e :: es => build e :: buildList es
end

/-! ## Operations (operations.py) -/

/-- one `log_check(description, is_successful, details)` call -/
structure Check where
  description : Str
  ok : Bool
  details : Option Str
deriving Repr, DecidableEq, Inhabited

/-- what an operation does to its caller -/
inductive OpResult
  | returned (r : Res)
  | abortTest                      -- raise AbortTest
  | pyError (e : PyErr)            -- an exception of `matcher.matches()` propagates
  | indexError                     -- only the unrepaired `_format_result_details("")`
deriving Repr, DecidableEq, Inhabited

/-- `_format_result_details` (repaired: `details[:1].upper() + details[1:]`) -/
def formatDetails : Option Str → Option Str
  | none => none
  | some d => some (capitalize d)

/-- `_format_result_details` before fixes/D4-…diff: `details[0]` on the empty string raises -/
def formatDetailsLegacy : Option Str → Except Unit (Option Str)
  | none => .ok none
  | some [] => .error ()
  | some (c :: cs) => .ok (some (c.toUpper :: cs))

/-- the description `_log_match_result` records -/
def checkDescription (hint : Option Str) (m : M) : Str :=
  match hint with
  | some h => c!"Expect " ++ h ++ c!" " ++ describe m Tr.plain
  | none => c!"Expect " ++ describe m Tr.plain

/-- the check `_log_match_result(hint, matcher, result, quiet)` records -/
def logEntry (hint : Option Str) (m : M) (r : Res) (quiet : Bool) : Check :=
  ⟨checkDescription hint m, r.ok, if quiet then none else formatDetails r.details⟩

/-- `check_that(hint, actual, matcher, quiet)` -/
def checkThat (hint : Option Str) (v : Val) (m : M) (quiet : Bool) (log : List Check) : List Check × OpResult :=
  match matchOf m v with
  | .error e => (log, .pyError e)
  | .ok r => (log ++ [logEntry hint m r quiet], .returned r)

/-- `require_that(hint, actual, matcher, quiet)` -/
def requireThat (hint : Option Str) (v : Val) (m : M) (quiet : Bool) (log : List Check) : List Check × OpResult :=
  match matchOf m v with
  | .error e => (log, .pyError e)
  | .ok r => (log ++ [logEntry hint m r quiet], if r.ok then .returned r else .abortTest)

/-- `assert_that(hint, actual, matcher, quiet)` -/
def assertThat (hint : Option Str) (v : Val) (m : M) (quiet : Bool) (log : List Check) : List Check × OpResult :=
  match matchOf m v with
  | .error e => (log, .pyError e)
  | .ok r => if r.ok then (log, .returned r) else (log ++ [logEntry hint m r quiet], .abortTest)

/-- `check_that` of the unrepaired tree (D4): the `IndexError` of `_format_result_details("")`
    escapes before `log_check` is reached -/
def checkThatLegacy (hint : Option Str) (v : Val) (m : M) (quiet : Bool) (log : List Check) : List Check × OpResult :=
  match matchOf m v with
  | .error e => (log, .pyError e)
  | .ok r =>
    if quiet then (log ++ [⟨checkDescription hint m, r.ok, none⟩], .returned r)
    else match formatDetailsLegacy r.details with
      | .error _ => (log, .indexError)
      | .ok d => (log ++ [⟨checkDescription hint m, r.ok, d⟩], .returned r)

end LccModel.Matcher

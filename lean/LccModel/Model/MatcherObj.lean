/-
  M12-obj — matcher OBJECTS used over time (model of how a test uses `lemoncheesecake.matching`):

      expected = {"id": None, "tags": ["a"]}        -- a mutable container the test keeps a handle on
      m = all_of(is_dict(), equal_to(expected))     -- a matcher object, built once …
      expected["id"] = 7                            -- … the container is completed afterwards …
      check_that("payload", actual, m)              -- … the object is used: described AND matched,
      check_that("reply", x, has_entry("k", m))     --   reused inside other matchers, under not_(), in later checks

  * `Store`          : the current contents of the mutable containers (location ↦ value);
  * `VArg` / `LArg`  : a value argument of a constructor call — a literal, or a REFERENCE to a container of the
                       store.  Every matcher class of matchers/*.py keeps the reference it was given
                       (`self.expected = expected`) and reads it again at every `build_description` and every
                       `matches`: nothing is copied or rendered at construction time;
  * `OExpr`          : a constructor call whose arguments may be such references and existing matcher objects
                       (`obj i`: the same Python object is passed, e.g. `has_entry("k", m)`, `not_(m)`);
  * `World`          : store + heap of matcher objects (in creation order) + the check log of the running test;
                       a matcher object has NO state of its own beyond the references it holds (no cached sentence, no
                       memo) — it is a value (`OExpr` with the `obj` arguments resolved) — so using it changes nothing;
  * `step` / `run`   : build an object, mutate a container in place, describe an object under a transformer,
                       `check_that` / `require_that` / `assert_that` with an object.

  `inst σ t` is the public-API expression (`Matcher.Expr`) a template denotes when the store is `σ`: what is described and what
  is matched at a given moment are `describe (build (inst σ t))` and `matchOf (build (inst σ t))` for the SAME `σ`
  (`Props/C17Seq.lean`).

  Restrictions: references are whole arguments (a container nested inside another expected container is not aliased);
  `has_items` / `has_only_items` / `is_in` take list containers; key paths are immutable (the code copies them into a
  tuple at construction); a dangling reference / object index reads `None` / `[]` / `anything()` (Python has no such
  thing: the drivers reject such requests, the generators never produce them).
  Core Lean only.
-/
import LccModel.Model.Matcher

namespace LccModel.MatcherObj
open LccModel.Matcher

/-- location ↦ current contents of the mutable container -/
abbrev Store := List Val

/-- a value argument of a constructor call: a literal, or the mutable container at location `l` -/
inductive VArg
  | lit (v : Val)
  | ref (l : Nat)
deriving Repr, Inhabited

/-- what the argument evaluates to NOW -/
def VArg.read (σ : Store) : VArg → Val
  | .lit v => v
  | .ref l => σ.getD l .none

/-- the collection argument of `has_items` / `has_only_items` / `is_in` -/
inductive LArg
  | lit (vs : List Val)
  | ref (l : Nat)
deriving Repr, Inhabited

def LArg.read (σ : Store) : LArg → List Val
  | .lit vs => vs
  | .ref l =>
    match σ.getD l .none with
    | .list xs => xs
    | _ => []

/-- a constructor call of the public API whose arguments may be references to the store and existing matcher objects -/
inductive OExpr
  | pure (e : Expr)                          -- a sub-expression that refers to nothing mutable
  | obj (i : Nat)                            -- the matcher OBJECT number `i` (the same Python object, not a copy)
  | val (a : VArg)                           -- a plain value where the API applies `is_()`
  | equal_to (a : VArg)
  | cmp (c : Cmp) (a : VArg)                 -- not_equal_to, greater_than, greater_than_or_equal_to, less_than, less_than_or_equal_to
  | has_items (a : LArg)
  | has_only_items (a : LArg)
  | is_in (a : LArg)
  | is_ (e : OExpr)
  | not_ (e : OExpr)
  | has_length (e : OExpr)
  | has_item (e : OExpr)
  | has_all_items (e : OExpr)
  | has_entry (p : List Key) (e : OExpr)
  | is_type (t : TyM) (e : OExpr)
  | all_of (es : List OExpr)
  | any_of (es : List OExpr)
  | hide (e : OExpr)
  | override (d : Str) (e : OExpr)
deriving Repr, Inhabited

/-- the public constructor of a `_Comparator` -/
def cmpExpr : Cmp → Val → Expr
  | .ne, v => .not_equal_to v
  | .ord .gt, v => .greater_than v
  | .ord .ge, v => .greater_than_or_equal_to v
  | .ord .lt, v => .less_than v
  | .ord .le, v => .less_than_or_equal_to v

mutual
/-- passing existing objects as arguments: `obj i` becomes the object itself (objects are values) -/
def link (heap : List OExpr) : OExpr → OExpr
  | .pure e => .pure e
  | .obj i => .is_ (heap.getD i (.pure .anything))       -- what is passed IS a Matcher: `is_()` returns it as it is
  | .val a => .val a
  | .equal_to a => .equal_to a
  | .cmp c a => .cmp c a
  | .has_items a => .has_items a
  | .has_only_items a => .has_only_items a
  | .is_in a => .is_in a
  | .is_ e => .is_ (link heap e)
  | .not_ e => .not_ (link heap e)
  | .has_length e => .has_length (link heap e)
  | .has_item e => .has_item (link heap e)
  | .has_all_items e => .has_all_items (link heap e)
  | .has_entry p e => .has_entry p (link heap e)
  | .is_type t e => .is_type t (link heap e)
  | .all_of es => .all_of (linkList heap es)
  | .any_of es => .any_of (linkList heap es)
  | .hide e => .hide (link heap e)
  | .override d e => .override d (link heap e)
def linkList (heap : List OExpr) : List OExpr → List OExpr
  | [] => []
  | e :: es => link heap e :: linkList heap es
end

mutual
/-- the public-API expression the template denotes when the store is `σ` -/
def inst (σ : Store) : OExpr → Expr
  | .pure e => e
  | .obj _ => .anything
  | .val a => .val (a.read σ)
  | .equal_to a => .equal_to (a.read σ)
  | .cmp c a => cmpExpr c (a.read σ)
  | .has_items a => .has_items (a.read σ)
  | .has_only_items a => .has_only_items (a.read σ)
  | .is_in a => .is_in (a.read σ)
  | .is_ e => .is_ (inst σ e)
  | .not_ e => .not_ (inst σ e)
  | .has_length e => .has_length (inst σ e)
  | .has_item e => .has_item (inst σ e)
  | .has_all_items e => .has_all_items (inst σ e)
  | .has_entry p e => .has_entry p (inst σ e)
  | .is_type t e => .is_type t (inst σ e)
  | .all_of es => .all_of (instList σ es)
  | .any_of es => .any_of (instList σ es)
  | .hide e => .hide_result_details (inst σ e)
  | .override d e => .override_description d (inst σ e)
def instList (σ : Store) : List OExpr → List Expr
  | [] => []
  | e :: es => inst σ e :: instList σ es
end

/-! ## In-place mutation of a container -/

/-- `d[k] = v`: overwrite in place (the dict keeps the key object it already has) or insert at the end -/
def dictSet (k : DKey) (v : Val) : List DKey → List Val → List DKey × List Val
  | k' :: ks, v' :: vs =>
    if k.eq k' then (k' :: ks, v :: vs)
    else
      let r := dictSet k v ks vs
      (k' :: r.1, v' :: r.2)
  | _, _ => ([k], [v])

/-- `d.pop(k, None)` -/
def dictDel (k : DKey) : List DKey → List Val → List DKey × List Val
  | k' :: ks, v' :: vs =>
    if k.eq k' then (ks, vs)
    else
      let r := dictDel k ks vs
      (k' :: r.1, v' :: r.2)
  | _, _ => ([], [])

inductive Mut
  | append (v : Val)                 -- lst.append(v)
  | pop                              -- lst.pop() on a non-empty list (`del lst[-1:]`)
  | setIdx (i : Nat) (v : Val)       -- lst[i] = v for an index in range
  | clear                            -- lst.clear() / d.clear()
  | setKey (k : DKey) (v : Val)      -- d[k] = v
  | delKey (k : DKey)                -- d.pop(k, None)
deriving Repr, Inhabited

/-- the container after the mutation (a mutation that does not apply to the kind of container leaves it alone) -/
def Mut.apply : Mut → Val → Val
  | .append v, .list xs => .list (xs ++ [v])
  | .pop, .list xs => .list xs.dropLast
  | .setIdx i v, .list xs => .list (xs.set i v)
  | .clear, .list _ => .list []
  | .clear, .dict _ _ => .dict [] []
  | .setKey k v, .dict ks vs => let r := dictSet k v ks vs; .dict r.1 r.2
  | .delKey k, .dict ks vs => let r := dictDel k ks vs; .dict r.1 r.2
  | _, x => x

/-! ## The world and its transitions -/

structure World where
  store : Store
  heap : List OExpr          -- the matcher objects, `obj` arguments resolved
  log : List Check           -- the checks recorded so far
deriving Repr, Inhabited

inductive OpKind
  | check | require | assert
deriving Repr, DecidableEq, Inhabited

/-- operations.py -/
def OpKind.fn : OpKind → Option Str → Val → M → Bool → List Check → List Check × OpResult
  | .check => checkThat
  | .require => requireThat
  | .assert => assertThat

inductive Op
  | build (t : OExpr)                                                        -- m_n = <constructor call>
  | mutate (l : Nat) (μ : Mut)                                               -- in-place mutation of container l
  | describe (i : Nat) (t : Tr)                                              -- m_i.build_description(<new transformer t>)
  | check (k : OpKind) (i : Nat) (hint : Option Str) (a : VArg) (quiet : Bool)   -- check_that(hint, actual, m_i, quiet)
deriving Repr, Inhabited

inductive Out
  | built (i : Nat)
  | mutated (now : Val)
  | text (d : Str) (after : Tr)
  | checked (added : List Check) (r : OpResult)
deriving Repr, Inhabited

/-- the template of object `i` -/
def World.tmpl (w : World) (i : Nat) : OExpr := w.heap.getD i (.pure .anything)

/-- what object `i` denotes NOW: the expression its constructor call would denote if it were evaluated at this moment -/
def World.expr (w : World) (i : Nat) : Expr := inst w.store (w.tmpl i)

/-- the matcher object `i` as the matcher tree it is NOW -/
def World.obj (w : World) (i : Nat) : M := build (w.expr i)

def step (w : World) : Op → World × Out
  | .build t => ({ w with heap := w.heap ++ [link w.heap t] }, .built w.heap.length)
  | .mutate l μ =>
    let x := μ.apply (w.store.getD l .none)
    ({ w with store := w.store.set l x }, .mutated x)
  | .describe i t =>
    let d := describeSt false (w.obj i) t
    (w, .text d.1 d.2)
  | .check k i hint a quiet =>
    let p := k.fn hint (a.read w.store) (w.obj i) quiet w.log
    ({ w with log := p.1 }, .checked (p.1.drop w.log.length) p.2)

/-- the world after a sequence of operations -/
def exec : World → List Op → World
  | w, [] => w
  | w, o :: os => exec (step w o).1 os

/-- what the operations of a sequence return / record, in order -/
def run : World → List Op → List Out
  | _, [] => []
  | w, o :: os => (step w o).2 :: run (step w o).1 os

/-- an operation that only USES an object (describes it, checks with it) -/
def Op.isUse : Op → Bool
  | .describe _ _ => true
  | .check _ _ _ _ _ => true
  | _ => false

/-! ## Two other ways an object could be implemented (refuted in Props/C17Seq.lean; they are what the statement excludes) -/

/-- the sentence is rendered from the store as it was when the object was BUILT (`σ₀`), the matching reads the store as it is
    NOW (`σ`): a sentence cached at construction time -/
def staleDescribe (σ₀ : Store) (t : OExpr) (tr : Tr) : Str := describe (build (inst σ₀ t)) tr

/-- a composite that memoizes its sentence per transformer OBJECT identity: a later transformer allocated at the address of a
    released one gets the sentence built for the earlier flags (`memo` = the flags the address was first used with) -/
def memoDescribe (memo : Option Tr) (m : M) (tr : Tr) : Str :=
  match memo with
  | some tr₀ => describe m tr₀
  | none => describe m tr

end LccModel.MatcherObj

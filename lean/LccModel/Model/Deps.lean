/-
  M7 — model of `lemoncheesecake/suite/core.py`: `_normalize_test_dependencies`,
  `_resolve_test_dependencies`, `resolve_tests_dependencies`.

  Tests are the values of `flatten_tests_as_dict(...)`: a list of tests with distinct paths, in tree
  order (`sched` = tests of the suites going to be run, `all` = tests of the whole project).
  A dependency is a test path or a callable; a callable is given by its extension `sel` (the paths of
  the project's tests on which it returns true) — the code calls it on every test of the project
  except the depending test itself.
  `_resolve_test_dependencies` is recursive with NO visited set: it walks every dependency path; the
  model carries explicit fuel and `Err.outOfFuel` is a result of its own.
  Core Lean only.
-/
import LccModel.Model.Loops

namespace LccModel.Deps
open LccModel.Loops

inductive Dep where
  | path (p : String)
  | pred (sel : List String)
deriving DecidableEq, Repr

structure T where
  path : String
  deps : List Dep
deriving DecidableEq, Repr

inductive Err where
  | unknown (test dep : String)        -- "Cannot find dependency test '%s' for '%s'"
  | circular (test dep : String)       -- "Got circular dependency on test %s through test %s"
  | notScheduled (test dep : String)   -- "... test dependency '%s' of '%s' is not going to be run"
  -- NOT a `ValidationError`: unbounded recursion (`RecursionError`)
  | outOfFuel
deriving DecidableEq, Repr

def Err.isValidation : Err → Bool
  | .outOfFuel => false
  | _ => true

def paths (l : List T) : List String := l.map (·.path)

/-- `all_tests[path]` -/
def find (all : List T) (p : String) : Option T := all.find? (fun t => decide (t.path = p))

/-- What the generator `_normalize_test_dependencies(test, all_tests)` yields, in order; an unknown
    path raises when the generator reaches it (`.error`).  A callable selects among the *other* tests
    (compared by path: the behaviour after the repair `fixes/D18-…`; the unpatched code compares
    object identity, which only works when `all_tests` holds the very same objects). -/
def items (all : List T) (t : T) : List (Except Err T) :=
  t.deps.flatMap (fun d => match d with
    | .path p => match find all p with
      | some u => [.ok u]
      | none => [.error (.unknown t.path p)]
    | .pred sel => (all.filter (fun u => decide (u.path ≠ t.path) && decide (u.path ∈ sel))).map .ok)

/-- `_resolve_test_dependencies(test, scheduled_tests, all_tests, ref_tests)`; returns the paths of
    `resolved_dependencies`. -/
def resolveT (sched all : List T) : Nat → T → List String → Except Err (List String)
  | 0, _, _ => .error .outOfFuel
  | fuel + 1, t, ref =>
    foldE (fun acc it => match it with
        | .error e => .error e
        | .ok d =>
          if d.path ∈ t.path :: ref then .error (.circular t.path d.path)
          else if d.path ∉ paths sched then .error (.notScheduled t.path d.path)
          else match resolveT sched all fuel d (t.path :: ref) with
            | .error e => .error e
            | .ok _ => .ok (acc ++ [d.path]))
      (items all t) []

/-- recursion bound: number of tests of the project + 2 (see `C14.resolve_fuel_suffices`) -/
def fuelFor (all : List T) : Nat := all.length + 2

/-- `resolve_tests_dependencies(scheduled_suites, all_suites)`; returns `(test path, resolved
    dependency paths)` for every scheduled test. -/
def resolve (sched all : List T) : Except Err (List (String × List String)) :=
  foldE (fun acc t => match resolveT sched all (fuelFor all) t [] with
      | .error e => .error e
      | .ok r => .ok (acc ++ [(t.path, r)]))
    sched []

end LccModel.Deps

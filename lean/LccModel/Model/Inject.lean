/-
  Model of how a suite's *injected fixtures* come into being (`lcc.inject_fixture(...)`):

    * `helpers/introspection.py:get_object_attributes` — `_get_module_object_attributes` (everything
      `dir(mod)` lists) for a module-level suite, `_get_class_object_attributes` (everything `dir(obj)`
      lists whose name does not start with `__` and that is not a property) for a suite class instance;
    * `suite/core.py:Suite._load_injected_fixtures` — the dict `fixture name → attribute names` built from
      the attributes that hold an `InjectedFixture`
      (`fixtures.setdefault(attr.fixture_name or attr_name, []).append(attr_name)`, the code as repaired by D35:
      several attributes may inject the same fixture, every one of them receives the value);
    * `Suite.get_injected_fixture_names`, `Suite.get_fixtures`, `Suite.inject_fixtures` and the
      injection step of `runner.build_suite_initialization_task`.

  The `injected` list of `Prepare.PSuite` / `Fixture.Suite` is no longer an input: it is DERIVED
  (`injectedNames`) from the attribute declarations of the suite (`Attr`: the key `dir()` lists, the
  naming shape of the identifier as written, where it is assigned, the fixture it names).  `lower`
  maps a declared suite tree to the `PSuite` tree the validation model works on.

  `dir()` (alphabetical listing), Python's name mangling of `__x` inside a class body (`_Cls__x`) and
  "instance attributes shadow class attributes" are represented by the attribute list (given in `dir()`
  order, keys distinct), as the layout does for C13; validated on every run by `C14.validate`.
  The decision `discovers` is re-extracted from the real code on every run
  (`Generated/C14TablesCheck.lean`).  Core Lean only.
-/
import LccModel.Model.Prepare

namespace LccModel.Inject
open LccModel.Loops LccModel.Prepare

/-- the naming shape of the identifier holding the `InjectedFixture`, as written in the source:
    `x`, `_x`, `__x` (name-mangled to `_Cls__x` inside a class), `__x__` -/
inductive Shape where
  | pub
  | priv
  | mangled
  | dunder
deriving DecidableEq, Repr

/-- where the attribute is assigned: in the body of the suite class, in the body of a base class /
    mixin of the suite class, in `__init__` on the instance, or at the top level of a suite module -/
inductive Place where
  | body
  | base
  | init
  | module
deriving DecidableEq, Repr

/-- one attribute holding `lcc.inject_fixture(fixture)` -/
structure Attr where
  name : String              -- the key `dir()` lists (after name mangling)
  shape : Shape
  place : Place
  fixture : Option String    -- `inject_fixture("f")` / `inject_fixture()`
deriving DecidableEq, Repr

/-- `get_object_attributes` yields the attribute: a module yields everything; a class instance
    everything whose (mangled) name does not start with `__` — a name-mangled `__x` is `_Cls__x` and
    passes, a dunder-like `__x__` is not mangled and is dropped (D21). -/
def discovers (sh : Shape) (pl : Place) : Bool :=
  match pl with
  | .module => true
  | _ => match sh with
    | .dunder => false
    | _ => true

def Attr.discovered (a : Attr) : Bool := discovers a.shape a.place

/-- `attr.fixture_name or attr_name` chooses the attribute's own name (no name given, or a falsy one) -/
def usesAttrName (fixture : Option String) : Bool :=
  match fixture with
  | none => true
  | some f => decide (f = "")

/-- `attr.fixture_name or attr_name` -/
def Attr.key (a : Attr) : String :=
  match a.fixture with
  | none => a.name
  | some f => if f = "" then a.name else f

/-- `d.setdefault(k, []).append(v)` on an insertion-ordered dict: extend the entry in place, or append a new one -/
def dictAdd : List (String × List String) → String → String → List (String × List String)
  | [], k, v => [(k, [v])]
  | (k', vs) :: rest, k, v => if k' = k then (k', vs ++ [v]) :: rest else (k', vs) :: dictAdd rest k v

/-- `Suite._load_injected_fixtures(obj)` (as repaired by D35): fixture name ↦ the attribute names injecting it
    (attributes in `dir()` order) -/
def loadInjected (attrs : List Attr) : List (String × List String) :=
  (attrs.filter Attr.discovered).foldl (fun d a => dictAdd d a.key a.name) []

/-- `Suite.get_injected_fixture_names()`: the dict's keys -/
def injectedNames (attrs : List Attr) : List String := (loadInjected attrs).map (·.1)

/-- the attributes `Suite.inject_fixtures` assigns (`for attr_name in …[fixture_name]: setattr(self.obj, attr_name, value)`) -/
def assigned (attrs : List Attr) : List String := (loadInjected attrs).flatMap (·.2)

/-- the injection step of the suite initialisation task:
    `suite.inject_fixtures(scheduled_fixtures.get_fixture_results(suite.get_injected_fixture_names()))`
    → the attribute names that received their fixture's value, or the look-up error -/
def injectStep (chain : List Fixture.Inst) (attrs : List Attr) : Except Fixture.RunErr (List String) :=
  match forE (injectedNames attrs) (Fixture.getResult chain) with
  | .error e => .error e
  | .ok () => .ok (assigned attrs)

/-! ### declared suites -/

/-- a suite as declared: `PSuite` with attribute declarations in place of the injected names -/
inductive DSuite where
  | mk (path : String) (disabled : Bool) (attrs : List Attr) (setupArgs : List String)
       (props : List (String × String)) (tags : List String)
       (tests : List PTest) (subs : List DSuite)
deriving Repr

def DSuite.path : DSuite → String | .mk p _ _ _ _ _ _ _ => p
def DSuite.disabled : DSuite → Bool | .mk _ d _ _ _ _ _ _ => d
def DSuite.attrs : DSuite → List Attr | .mk _ _ a _ _ _ _ _ => a
def DSuite.setupArgs : DSuite → List String | .mk _ _ _ a _ _ _ _ => a
def DSuite.tests : DSuite → List PTest | .mk _ _ _ _ _ _ t _ => t
def DSuite.subs : DSuite → List DSuite | .mk _ _ _ _ _ _ _ s => s

mutual
/-- what the loader makes of a declared suite (`Suite.__init__` → `_load_injected_fixtures`) -/
def lower : DSuite → PSuite
  | .mk path dis attrs args props tags tests subs =>
    .mk path dis (injectedNames attrs) args props tags tests (lowerL subs)
def lowerL : List DSuite → List PSuite
  | [] => []
  | s :: rest => lower s :: lowerL rest
end

mutual
/-- `flatten_suites` on the declared tree -/
def flattenD : DSuite → List DSuite
  | .mk path dis attrs args props tags tests subs => .mk path dis attrs args props tags tests subs :: flattenDL subs
def flattenDL : List DSuite → List DSuite
  | [] => []
  | s :: rest => flattenD s ++ flattenDL rest
end

mutual
/-- `flatten_suites`, each declared suite with "some ancestor suite is disabled" -/
def withInhD (inh : Bool) : DSuite → List (Bool × DSuite)
  | .mk path dis attrs args props tags tests subs =>
    (inh, .mk path dis attrs args props tags tests subs) :: withInhDL (inh || dis) subs
def withInhDL (inh : Bool) : List DSuite → List (Bool × DSuite)
  | [] => []
  | s :: rest => withInhD inh s ++ withInhDL inh rest
end

/-- the fixture machinery's view of a declared suite -/
def DSuite.toFixture (d : DSuite) : Fixture.Suite := toFixtureSuite (lower d)

structure DProject where
  policy : Policy.Policy
  decls : List Fixture.Decl
  all : List DSuite               -- `project.load_suites()`
  sched : List DSuite             -- the suites going to be run
deriving Repr

def DProject.lower (p : DProject) : Project := ⟨p.policy, p.decls, lowerL p.all, lowerL p.sched⟩

/-- `PreparedProject.create` on the declared project -/
def prepareD (p : DProject) : Except ValidationErr Prepared := prepare p.lower

end LccModel.Inject

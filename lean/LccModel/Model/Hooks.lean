/-
  `Hooks` — how the hooks of a suite (`setup_suite`, `teardown_suite`, `setup_test`, `teardown_test`) are DECLARED and which of
  them the loader registers: model of the two loops of `suite/loader.py`

      for hook_name in SUITE_HOOKS:
          if hasattr(suite_obj, hook_name):                  # `mod` for a suite module
              suite.add_hook(hook_name, getattr(suite_obj, hook_name))

  A hook declaration has a SHAPE — ordinary method, `@staticmethod`, `@classmethod`, lambda, plain function, bound method of
  another name, `functools.partial` object, callable object, imported function, or a non-callable value (`None`, a string) —
  and a PLACE: the body of the suite class, a base class, a mixin, `__init__` (the instance dict), or the dict of a suite module.
  The declarations of one suite become the attribute layers of its suite object (`Model/SuiteObject.lean`); the loader asks
  `hasattr` only — so every declaration, in whatever shape and place, is registered.  Core Lean only.
-/
import LccModel.Model.SuiteObject
import LccModel.Model.Expand

namespace LccModel.Hooks
open LccModel.SuiteObj

inductive Shape where
  | method         -- `def teardown_suite(self): …` in a class dict
  | staticmethod   -- `@staticmethod def teardown_suite(): …`
  | classmethod    -- `@classmethod def teardown_suite(cls): …`
  | lambdaFn         -- `teardown_suite = lambda …: …`
  | function       -- `def teardown_suite(): …` in a module; `self.teardown_suite = release` in `__init__`
  | boundmethod    -- `self.teardown_suite = self._cleanup` in `__init__`
  | partialObj        -- `functools.partial(release, tag)`
  | callableObj    -- an instance of a class with `__call__`
  | alias          -- `from helpers import release as teardown_suite`
  | noneValue      -- `teardown_suite = None`
  | stringValue    -- `teardown_suite = "cleanup"`
  deriving DecidableEq, Repr

inductive Place where
  | init | body | base | mixin | module
  deriving DecidableEq, Repr

def Shape.all : List Shape :=
  [.method, .staticmethod, .classmethod, .lambdaFn, .function, .boundmethod, .partialObj, .callableObj, .alias, .noneValue, .stringValue]

/-- the places, in the order Python's attribute lookup consults them on a class instance (a module has one dict only) -/
def Place.all : List Place := [.init, .module, .body, .base, .mixin]

/-- `SUITE_HOOKS` -/
def hookNames : List String := ["setup_suite", "teardown_suite", "setup_test", "teardown_test"]

/-- can the language write this shape at this place? (a `def` with `self` / a decorator needs a class body; a plain `def`
    a module or an assignment in `__init__`; an import a module) -/
def wellPlaced : Shape → Place → Bool
  | .method, p | .staticmethod, p | .classmethod, p => p == .body || p == .base || p == .mixin
  | .function, p => p == .init || p == .module
  | .boundmethod, p => p == .init
  | .alias, p => p == .module
  | .lambdaFn, _ | .partialObj, _ | .callableObj, _ | .noneValue, _ | .stringValue, _ => true

/-- is the declared object something that can be called? -/
def Shape.callable : Shape → Bool
  | .noneValue | .stringValue => false
  | _ => true

structure HookDecl where
  name : String
  shape : Shape
  place : Place
  params : List String := []     -- the parameters `get_callable_args` reads off it (fixtures of `setup_suite`)
  deriving DecidableEq, Repr

/-- what kind of attribute value the shape leaves on the suite object: something whose signature the introspection reads
    (`AttrKind.method`), or just "some other value" -/
def attrKind (s : Shape) (params : List String) : AttrKind :=
  match s with
  | .partialObj | .noneValue | .stringValue => .other
  | _ => .method params

/-- the dict of one place: the declarations written there, in textual order -/
def layerOf (ds : List HookDecl) (p : Place) : Layer :=
  (ds.filter (fun d => d.place == p)).map (fun d => (d.name, attrKind d.shape d.params))

/-- **the suite object** the declarations build: the instance dict holds what `__init__` assigned (for a suite MODULE: the
    module's dict), the class dicts follow in MRO order — the suite class, its base class, the mixin -/
def objOf (ds : List HookDecl) : Obj :=
  { inst := layerOf ds .init ++ layerOf ds .module, mro := [layerOf ds .body, layerOf ds .base, layerOf ds .mixin] }

/-- **the hooks of the loaded suite** (`suite.has_hook`): the names of `SUITE_HOOKS` for which `hasattr` answers yes -/
def loadHooks (ds : List HookDecl) : List String :=
  hookNames.filter (fun h => (hookParams (objOf ds) h).isSome)

/-- a single declaration of hook `h` in shape `s` at place `p`: is `h` a hook of the loaded suite? -/
def registers (s : Shape) (p : Place) (h : String) : Bool :=
  (loadHooks [{ name := h, shape := s, place := p }]).contains h

/-- the declaration `getattr` finds: the first one in lookup order -/
def effective (ds : List HookDecl) (h : String) : Option HookDecl :=
  (Place.all.filterMap (fun p => ds.find? (fun d => d.place == p && d.name == h))).head?

/-- `(name, value kind)` of the hooks the loaded suite holds -/
def loadedHookKinds (ds : List HookDecl) : List (String × AttrKind) :=
  hookNames.filterMap (fun h => (lookup (objOf ds) h).map (fun k => (h, k)))

/-- **the lowering**: the `@lcc.suite` class head whose suite object the declarations build; `Expand.headOf` reads the hooks of
    the loaded suite off it and `Expand.toSpec` hands them to the run model (`Run.SuiteSpec`) -/
def clsOf (attr : String) (rank : Nat) (ds : List HookDecl) : Expand.ClsHead := { attr := attr, rank := rank, obj := objOf ds }

end LccModel.Hooks

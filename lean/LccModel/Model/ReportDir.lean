/-
  M11 — model of `lemoncheesecake/reporting/reportdir.py:create_report_dir_with_rotation`
  (and its helpers `_list_directories_for_rotation`, `_remove_obsolete_directories`,
  `_rotate_directory`, `_rotate_directories`) plus manual deletion of archive directories.

  A directory is identified by the *marker* the run that created it wrote into it.  Markers are
  run sequence numbers (1, 2, 3, …), so "more recent" is literally "larger marker".
  `arch n` is the content of `reports/report-<n>`; `current` is the content of `report/`.
  Core Lean only.
-/
namespace LccModel.ReportDir

-- a marker is a `Nat` (written out, because `omega` does not look through type abbreviations)
abbrev Arch := Nat → Option Nat

structure St where
  current : Option Nat      -- `report/` exists and holds this run's marker
  arch    : Arch               -- `reports/report-<n>`
  hi      : Nat                -- every slot ≥ hi is free (finite support, makes the model executable)
  next    : Nat             -- marker the next run will write

def init : St := { current := none, arch := fun _ => none, hi := 0, next := 1 }

/-- `len(list(filter(lambda num: num <= limit, directories.keys())))` -/
def countLe (a : Arch) (L : Nat) : Nat :=
  ((List.range (L + 1)).filter (fun n => (a n).isSome)).length

/-- `_remove_obsolete_directories(directories, limit)` -/
def removeObsolete (limit : Option Nat) (a : Arch) : Arch :=
  match limit with
  | none => a
  | some L => if countLe a L < L then a else fun n => if L ≤ n then none else a n

/-- `os.rename(src, dst)` on the slot table -/
def rename (a : Arch) (src dst : Nat) : Arch :=
  fun n => if n = dst then a src else if n = src then none else a n

/-- `_rotate_directory(num, dirname)`: recursion of the code, with explicit fuel
    (`none` = fuel exhausted, i.e. the recursion did not terminate within the bound). -/
def rotateDir : Nat → Nat → Arch → Option Arch
  | 0, _, _ => none
  | fuel + 1, num, a =>
    if (a (num + 1)).isSome then
      match rotateDir fuel (num + 1) a with
      | none => none
      | some a' => some (rename a' num (num + 1))
    else some (rename a num (num + 1))

/-- `_rotate_directories(directories)` -/
def rotateDirs (fuel : Nat) (a : Arch) : Option Arch :=
  if (a 1).isSome then rotateDir fuel 1 a else some a

/-- `create_report_dir_with_rotation(top_dir, archiving_limit=limit)` followed by the run writing
    its marker into the new directory. -/
def run (limit : Option Nat) (s : St) : Option St :=
  match s.current with
  | none => some { s with current := some s.next, next := s.next + 1 }
  | some m =>
    match rotateDirs (s.hi + 1) (removeObsolete limit s.arch) with
    | none => none
    | some a =>
      some { current := some s.next
             arch := fun n => if n = 1 then some m else a n
             hi := max (s.hi + 1) 2
             next := s.next + 1 }

/-- manual `rmtree reports/report-<n>` -/
def delete (n : Nat) (s : St) : St :=
  { s with arch := fun k => if k = n then none else s.arch k }

/-- manual `rmtree report` -/
def deleteCurrent (s : St) : St := { s with current := none }

inductive Op
  | run (limit : Option Nat)
  | delete (n : Nat)
  | deleteCurrent
deriving Repr, DecidableEq

def step (s : St) : Op → Option St
  | .run l => run l s
  | .delete n => some (delete n s)
  | .deleteCurrent => some (deleteCurrent s)

def runOps : St → List Op → Option St
  | s, [] => some s
  | s, op :: ops => match step s op with
    | none => none
    | some s' => runOps s' ops

/-- observable listing: occupied slots below `hi`, in slot order -/
def listing (s : St) : List (Nat × Nat) :=
  (List.range s.hi).filterMap (fun n => (s.arch n).map (fun m => (n, m)))

end LccModel.ReportDir

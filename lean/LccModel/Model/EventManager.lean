/-
  Model of `lemoncheesecake.events.AsyncEventManager` (events.py): producers `fire` into a FIFO queue, one
  handler thread consumes it; the first exception raised by a handler is stored as the pending failure and the
  handler loop stops consuming; `handle_events` exits by putting a sentinel and joining the handler thread.

  `cap` is the bound of the queue (`none` = unbounded, what `Queue()` gives; the real value is extracted on every
  run into `Generated/C11Tables.emQueueBound`).  `fire` / `close` return `none` when the real call would BLOCK.
  Events are abstracted to their index in firing order; `fails e` = the handlers of event e raise.
-/
namespace LccModel.EM

structure St where
  cap     : Option Nat
  queue   : List Nat       -- events waiting in the queue, oldest first
  alive   : Bool           -- the handler loop is still consuming
  handled : List Nat       -- events that were passed to the handlers, in order (the failing one included)
  pending : Option Nat     -- `_pending_failure`: the event whose handler raised
  fired   : List Nat       -- ghost: everything `fire` accepted, in order
deriving Repr, DecidableEq

def init (cap : Option Nat) : St :=
  { cap := cap, queue := [], alive := true, handled := [], pending := none, fired := [] }

/-- `Queue.put` returns without blocking -/
def canPut (s : St) : Bool :=
  match s.cap with
  | none => true
  | some c => s.queue.length < c

/-- `fire(event)` = `self._queue.put(event)` -/
def fire (s : St) (e : Nat) : Option St :=
  if canPut s then some { s with queue := s.queue ++ [e], fired := s.fired ++ [e] } else none

/-- one iteration of `_handler_loop` (`none`: the loop is blocked in `get`, or has stopped) -/
def handle (fails : Nat → Bool) (s : St) : Option St :=
  if s.alive then
    match s.queue with
    | [] => none
    | e :: q =>
      if fails e then some { s with queue := q, alive := false, handled := s.handled ++ [e], pending := some e }
      else some { s with queue := q, handled := s.handled ++ [e] }
  else none

/-- the handler thread runs until the queue is empty or a handler raised (fuel = queue length suffices) -/
def drain (fails : Nat → Bool) : Nat → St → St
  | 0, s => s
  | n + 1, s => match handle fails s with
    | none => s
    | some s' => drain fails n s'

/-- exit of `handle_events`: `put(None)` (may block on a bounded queue), then `join` -/
def close (fails : Nat → Bool) (s : St) : Option St :=
  if canPut s then some (drain fails s.queue.length s) else none

/-- exit of `handle_events` with a LIMITED wait for the handler thread (`thread.join(timeout)`): the handler thread gets at
    most `k` further iterations before the caller stops waiting (`limit = some k`); `none` = `thread.join()`, the wait of the
    real code (extracted on every run: `Generated/C11Tables.emJoinLimit`).  How many iterations fit into a wall-clock
    timeout depends on how long the handlers take: `k` ranges over everything, 0 = a handler that is stuck / slow. -/
def closeWithin (fails : Nat → Bool) (limit : Option Nat) (s : St) : Option St :=
  if canPut s then
    some (drain fails (match limit with | none => s.queue.length | some k => min k s.queue.length) s)
  else none

/-- the handler thread has ended (`not thread.is_alive()`): its loop stopped on a failure, or it consumed everything up to
    the sentinel -/
def threadEnded (s : St) : Bool := !s.alive || s.queue.isEmpty

inductive Op
  | fire (e : Nat)
  | handle            -- the handler thread gets to run one iteration (any interleaving with the producers)
deriving Repr, DecidableEq

/-- a `handle` that finds nothing to do leaves the state unchanged (the thread stays blocked in `get`) -/
def step (fails : Nat → Bool) (s : St) : Op → Option St
  | .fire e => fire s e
  | .handle => some ((handle fails s).getD s)

def run (fails : Nat → Bool) : St → List Op → Option St
  | s, [] => some s
  | s, o :: os => match step fails s o with
    | none => none
    | some s' => run fails s' os

/-- number of `fire` calls in a schedule -/
def fires : List Op → Nat
  | [] => 0
  | .fire _ :: os => fires os + 1
  | .handle :: os => fires os

/-- events up to and including the first failing one -/
def uptoFirstFailure (fails : Nat → Bool) : List Nat → List Nat
  | [] => []
  | e :: es => if fails e then [e] else e :: uptoFirstFailure fails es

end LccModel.EM

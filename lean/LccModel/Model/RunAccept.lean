/-
  The run-level acceptor: composes the scheduler model M1 (`Sched.step`), the task behaviours of
  `Model/Run.lean` (which execute the session model M3) and the decision rules of
  `RunContext.is_task_to_be_skipped`, and replays a globally sequenced trace observed from a real
  `runner.run_suites` execution (design.d/run-schema.md).  Every record must be explained by the model:

    * scheduler records: exactly as in drivers/Sched.lean (dispatch sets = `popped`, decisions = `decideMode`); the
      embedded scheduler state starts at `Sched.init` and changes through `Sched.step` only;
    * a task's fired events and user-code records: must be, in order, the item list `Run.runTask` computes
      for that task (events of `lcc.Thread`s are attributed through role binding);
    * run / skip decisions taken from the context must be justified by flags that are *definitely* set
      (effects of finished tasks) resp. *possibly* set (effects of tasks started so far) — the flags are
      monotone, so this is sound for any timing of the real check between `start` and `finish`;
    * after a keyboard interrupt a task that is running may deviate from its item list only by taking the
      `AbortTest` path of `_interruptible` from some API act on (`cut`) — nothing else: `skip_all_tasks` (as
      repaired by fix D11) releases the remaining tasks in dependency order, so no teardown / suite-end task
      runs under a task that is still in flight, and a task's inputs (`teardown_funcs` of its setup task,
      fixture results, per-thread objects) are exactly what the finished tasks left, interrupt or not.
  Core Lean only.
-/
import LccModel.Model.Run
import LccModel.Model.Sched

namespace LccModel.RunAccept
open LccModel.Report LccModel.Run LccModel.Sched

inductive Rec
  | init (disp : List Nat)
  | start (t w : Nat) (ctxReason : Bool) (run : Bool) (reason : Bool)
  | fire (th : Nat) (e : Event)
  | user (th : Nat) (u : UnitId) (what : String)
  | finish (t : Nat) (r : ResClass)
  | receive (t : Nat) (disp : List Nat)
  | interrupt (disp : List Nat)
  | handled (k : Nat)
  | backendRaise (k : Nat) (caught : Bool := true)   -- caught: by `_handler_loop` (`(RunOutcome.pendingAfter c _).isSome`: every class since fix D42)
  | handlerExit
deriving Repr, Inhabited

structure Running where
  task : Nat
  tid : TaskId
  worker : Nat
  run : Bool
  reason : Bool
  ctxSkip : Bool                 -- skipped because the context said so (to be justified at finish)
  kept : List Td
  instsAtStart : Insts
  out : TaskOut
  consumed : List Item           -- newest first
  expected : List Item
  roles : List (Nat × Nat)       -- observed thread int ↦ role
  cut : Option Nat
deriving Repr, Inhabited

structure Flags where
  abortAll : Bool
  abortedSuites : List (Option Path)
  failed : Bool
  pending : Bool
  interrupted : Bool
deriving Repr, Inhabited

def Flags.none : Flags := { abortAll := false, abortedSuites := [], failed := false, pending := false, interrupted := false }

structure G where
  sched : Sched.State Nat
  insts : Insts
  kept : List (TaskId × List Td)
  reasonOf : List (Nat × Bool)       -- finished task ↦ its result carries a truthy reason
  running : List Running
  defF : Flags                        -- definitely set (finished tasks, handler exit, interrupt)
  startedEff : Flags                  -- possibly set: effects of every task started so far
  fired : Array Event                 -- every fired event, in order
  handled : Nat
  sessionStarted : Bool
  sessionEnded : Bool
  mainUser : List (Nat × UnitId × String)   -- user records outside any task (pre_run phase), newest first
  inited : Bool                       -- the `init` record (the initial dispatch of `run_tasks`) has been seen

structure Ctx where
  P : Proj
  graph : Sched.Graph Nat
  tasks : Array TaskSpec
  n : Nat
  parentOf : Nat → Option Nat      -- observed: the thread that created an `lcc.Thread`

/-- `run_suites` sets the pre_run fixtures up before the session starts (the session only runs if all of
    them succeeded): their results exist from the beginning.  The embedded scheduler starts in M1's initial
    state `Sched.init` (the state after the initial dispatch of `run_tasks`) and is from then on updated
    through `Sched.step` ONLY (`Props/C01Accept.lean`: an accepted trace is an execution of M1); the `init`
    record is the observation of that initial dispatch: it is checked, must come exactly once and before any
    other scheduler record. -/
def G.init (c : Ctx) : G :=
  { sched := Sched.init c.graph c.n, inited := false,
    insts := { results := (preRunFixtures c.P).map (fun n => (InstKey.preRun, n)), ptObjects := [] }, kept := [], reasonOf := [], running := [], defF := Flags.none,
    startedEff := Flags.none, fired := #[], handled := 0, sessionStarted := false, sessionEnded := false, mainUser := [] }

def tidOf (c : Ctx) (t : Nat) : Option TaskId := (c.tasks[t]?).map (·.id)

/-- the setup task whose `teardown_funcs` a teardown task reads -/
def setupOf (t : TaskId) : Option TaskId :=
  match t.kind with
  | .teardown => some ⟨.init, t.path⟩
  | .sessTeardown => some ⟨.sessSetup, []⟩
  | _ => none

/-- replace observed thread ints by roles in an event -/
def eventTid : Event → Option Nat
  | .stepStart _ _ tid _ | .stepEnd _ _ tid _ => some tid
  | .log _ _ tid _ _ _ | .check _ _ tid _ _ _ _ | .attachment _ _ tid _ _ _ _ | .url _ _ tid _ _ _ => some tid
  | _ => none

def setEventTid (r : Nat) : Event → Event
  | .stepStart l d _ t => .stepStart l d r t
  | .stepEnd l d _ t => .stepEnd l d r t
  | .log l s _ lv m t => .log l s r lv m t
  | .check l s _ d ok det t => .check l s r d ok det t
  | .attachment l s _ p d i t => .attachment l s r p d i t
  | .url l s _ u d t => .url l s r u d t
  | e => e

/-- overwrite the time an event carries -/
def retime (n : Nat) : Event → Event
  | .sessionStart _ => .sessionStart n | .sessionEnd _ => .sessionEnd n
  | .sessionSetupStart _ => .sessionSetupStart n | .sessionSetupEnd _ => .sessionSetupEnd n
  | .sessionTeardownStart _ => .sessionTeardownStart n | .sessionTeardownEnd _ => .sessionTeardownEnd n
  | .suiteStart p m _ => .suiteStart p m n | .suiteEnd p _ => .suiteEnd p n
  | .suiteSetupStart p _ => .suiteSetupStart p n | .suiteSetupEnd p _ => .suiteSetupEnd p n
  | .suiteTeardownStart p _ => .suiteTeardownStart p n | .suiteTeardownEnd p _ => .suiteTeardownEnd p n
  | .testStart p m _ => .testStart p m n | .testEnd p _ => .testEnd p n
  | .testSkipped p m r _ => .testSkipped p m r n | .testDisabled p m r _ => .testDisabled p m r n
  | .stepStart l d tid _ => .stepStart l d tid n | .stepEnd l d tid _ => .stepEnd l d tid n
  | .log l s tid lv m _ => .log l s tid lv m n
  | .check l s tid d ok det _ => .check l s tid d ok det n
  | .attachment l s tid p d i _ => .attachment l s tid p d i n
  | .url l s tid u d _ => .url l s tid u d n

/-- model events carry model clock values and counter-prefixed attachment names; the observation carries
    0 and the un-prefixed name: compare modulo both -/
def zeroTime (e : Event) : Event :=
  match retime 0 e with
  | .attachment l s tid _ d i t => .attachment l s tid "" d i t      -- the counter prefix is schedule dependent
  | e' => e'

def normItem : Item → Item
  | .ev e => .ev (zeroTime e)
  | i => i

def roleOfItem : Item → Nat
  | .ev e => (eventTid e).getD 0
  | .user r _ _ => r

/-- does the observed item (from thread `th`, already role-mapped to `r`) equal the expected head? -/
def itemMatches (exp obs : Item) : Bool := normItem exp == normItem obs

def mergeFlags (a : Flags) (e : Effects) : Flags :=
  { a with abortAll := a.abortAll || e.abortAll, abortedSuites := a.abortedSuites ++ e.abortedSuites,
           failed := a.failed || e.failed }

/-- apply a finished task's instance changes (computed from `base`) to the current instances -/
def mergeInsts (cur base new : Insts) : Insts :=
  let addedR := new.results.filter (fun x => !base.results.contains x)
  let removedR := base.results.filter (fun x => !new.results.contains x)
  let addedP := new.ptObjects.filter (fun x => !base.ptObjects.contains x)
  let removedP := base.ptObjects.filter (fun x => !new.ptObjects.contains x)
  { results := (cur.results.filter (fun x => !removedR.contains x)) ++ addedR.filter (fun x => !cur.results.contains x),
    ptObjects := (cur.ptObjects.filter (fun x => !removedP.contains x)) ++ addedP.filter (fun x => !cur.ptObjects.contains x) }

/-- why `RunContext.is_task_to_be_skipped` asks to skip a task (the order of the checks is the code's) -/
inductive SkipReason | interrupted | backendFailure | abortedSession | abortedSuite | stopOnFailure
deriving DecidableEq, Repr, Inhabited

/-- `RunContext.is_task_to_be_skipped(task)` as a function of the facts it reads -/
def skipReason (interrupted pendingFailure abortAll suiteAborted stopOnFailure anyFailure isTest : Bool) :
    Option SkipReason :=
  if interrupted then some .interrupted
  else if pendingFailure then some .backendFailure
  else if abortAll then some .abortedSession
  else if isTest && suiteAborted then some .abortedSuite
  else if stopOnFailure && anyFailure then some .stopOnFailure
  else none

/-- would the context ask to skip this task, judging by flag set `f`?  (`is_task_to_be_skipped`) -/
def ctxWouldSkip (c : Ctx) (f : Flags) (t : TaskId) : Bool :=
  (skipReason f.interrupted f.pending f.abortAll (f.abortedSuites.contains (some t.path.dropLast))
    c.P.stopOnFailure f.failed (t.kind == .test)).isSome

def resOfClass : ResClass → Sched.Res
  | .success => .success | .failure => .failure | .skipped => .skipped | .exception => .exception

def listPrefix (pre l : List Item) : Bool := (l.take pre.length).map normItem == pre.map normItem

/-- the only explanation the interrupt path allows for a deviation of a running task: an API act raising
    AbortTest from index `cut` on (`_interruptible` checks `session.aborted` at every public API call) -/
def candidates (r : Running) (maxActs : Nat) : List (Option Nat) :=
  match r.cut with
  | some _ => []                      -- the cut is fixed once found
  | none => (List.range (maxActs + 1)).map some

/-- try to explain a mismatch by the keyboard interrupt: the recomputed output must have the consumed items
    as prefix and the observed item next -/
def findCut (c : Ctx) (r : Running) (obs : Item) (maxActs : Nat) : Option (Option Nat × TaskOut) :=
  let consumed := r.consumed.reverse
  (candidates r maxActs).findSome? (fun cut =>
    let out := runTask c.P r.instsAtStart r.worker r.tid r.run r.reason r.kept cut
    if listPrefix (consumed ++ [obs]) out.items then some (cut, out) else none)

/-- at `finish`: the task ended although the model expected more — same search, the recomputed output must be
    exactly what was consumed -/
def findExact (c : Ctx) (r : Running) (maxActs : Nat) : Option (Option Nat × TaskOut) :=
  let consumed := r.consumed.reverse
  (candidates r maxActs).findSome? (fun cut =>
    let out := runTask c.P r.instsAtStart r.worker r.tid r.run r.reason r.kept cut
    if out.items.map normItem == consumed.map normItem then some (cut, out) else none)

inductive Verdict
  | ok (g : G)
  | reject (why : String)

def describeItem : Item → String
  | .ev e => s!"event {repr (zeroTime e)}"
  | .user r u w => s!"user role={r} unit={repr u} {w}"

/-- one observed item from thread `th` -/
def acceptItem (c : Ctx) (g : G) (th : Nat) (mk : Nat → Item) : Verdict :=
  -- 1. a running task that already knows this thread
  match g.running.find? (fun r => (r.roles.lookup th).isSome) with
  | some r =>
    let role := (r.roles.lookup th).getD 0
    let obs := mk role
    let advance (r : Running) : Verdict :=
      match r.expected with
      | [] => .reject s!"task {r.task}: unexpected extra {describeItem obs}"
      | e :: rest =>
        if itemMatches e obs then
          let r' := { r with expected := rest, consumed := e :: r.consumed }
          .ok { g with running := g.running.map (fun x => if x.task == r.task then r' else x) }
        else .reject s!"task {r.task}: expected {describeItem e}, observed {describeItem obs}"
    match r.expected with
    | e :: _ =>
      if itemMatches e obs then advance r
      else if g.defF.interrupted then
        match findCut c r obs 80 with
        | some (k, out) =>
          let r' := { r with cut := k, out := out, expected := out.items.drop r.consumed.length }
          advance r'
        | none => advance r
      else advance r
    | [] =>
      if g.defF.interrupted then
        match findCut c r obs 80 with
        | some (k, out) =>
          let r' := { r with cut := k, out := out, expected := out.items.drop r.consumed.length }
          advance r'
        | none => advance r
      else advance r
  | none =>
    -- 2. an unknown thread: an `lcc.Thread` of some running task whose next expected item belongs to a
    --    role that is not bound yet
    let cand := g.running.find? (fun r =>
      (match c.parentOf th with
       | some p => (r.roles.lookup p).isSome
       | none => true) &&
      match r.expected with
      | e :: _ =>
        let role := roleOfItem e
        role != 0 && !(r.roles.any (fun p => p.2 == role)) && itemMatches e (mk role)
      | [] => false)
    match cand with
    | some r =>
      match r.expected with
      | e :: rest =>
        let role := roleOfItem e
        let r' := { r with expected := rest, consumed := e :: r.consumed, roles := (th, role) :: r.roles }
        .ok { g with running := g.running.map (fun x => if x.task == r.task then r' else x) }
      | [] => .reject "impossible"
    | none =>
      -- 3. outside any task: the main thread (session start/end events, pre_run fixture code)
      match mk 0 with
      | .ev (.sessionStart _) =>
        if g.sessionStarted then .reject "second session start" else .ok { g with sessionStarted := true }
      | .ev (.sessionEnd _) =>
        if !g.sessionStarted || g.sessionEnded then .reject "session end out of place" else .ok { g with sessionEnded := true }
      | .user _ u w => .ok { g with mainUser := (th, u, w) :: g.mainUser }
      | other => .reject s!"item from a thread no task owns: {describeItem other}"

def firstFailedDep (c : Ctx) (g : G) (t : Nat) : Option Nat :=
  (c.graph.succDeps t).find? (fun d => g.sched.result d != some .success)

def step (c : Ctx) (g : G) : Rec → Verdict
  | .init disp =>
    let p := popped c.graph Sched.empty c.n
    if g.inited then .reject "init: second initial dispatch"
    else if p != disp then .reject s!"init: model dispatches {p}, implementation {disp}"
    else .ok { g with inited := true }
  | .start t w ctxReason run reason =>
    if !g.inited then .reject s!"start {t}: before the initial dispatch" else
    match tidOf c t with
    | none => .reject s!"start {t}: unknown task"
    | some tid =>
      let depFail := firstFailedDep c g t
      let forced := g.sched.forced t
      let ctxSkip := !run && depFail.isNone && !forced
      match Sched.step c.graph c.n g.sched (.start t ctxSkip) with
      | none => .reject s!"start {t}: not enabled in the scheduler model"
      | some s' =>
        let m := decideMode c.graph g.sched t ctxSkip
        if (m == .run) != run then .reject s!"start {t}: model decides {repr m}, implementation run={run}"
        else if run && ctxWouldSkip c g.defF tid then
          .reject s!"start {t}: task is run although a skip condition is definitely set ({repr g.defF})"
        else if !run && depFail.isNone && !forced && !ctxReason then
          .reject s!"start {t}: skipped without failed dependency, interrupt or context reason"
        else
          -- the reason handed to task.skip
          let expReason : Option Bool :=
            if run then some false
            else if forced then some true
            else match depFail with
              | some d =>
                (match g.sched.result d with
                 | some .failure => some true
                 | some .skipped => some ((g.reasonOf.lookup d).getD false)
                 | _ => some false)
              | none => some true
          if !run && expReason != some reason then
            .reject s!"start {t}: skip reason presence {reason}, model expects {repr expReason}"
          else
            let kept := match setupOf tid with
              | some sid => (g.kept.lookup sid).getD []
              | none => []
            let out := runTask c.P g.insts w tid run reason kept none
            let r : Running :=
              { task := t, tid := tid, worker := w, run := run, reason := reason, ctxSkip := ctxSkip, kept := kept,
                instsAtStart := g.insts, out := out, consumed := [], expected := out.items, roles := [(w, 0)], cut := none }
            .ok { g with sched := s', running := r :: g.running, startedEff := mergeFlags g.startedEff out.eff }
  | .fire th e =>
    let g := { g with fired := g.fired.push e }
    acceptItem c g th (fun role => .ev (setEventTid role e))
  | .user th u what => acceptItem c g th (fun role => .user role u what)
  | .finish t r =>
    if !g.inited then .reject s!"finish {t}: before the initial dispatch" else
    match g.running.find? (fun x => x.task == t) with
    | none => .reject s!"finish {t}: task not running"
    | some ru0 =>
      let ru : Running :=
        if !ru0.expected.isEmpty && g.defF.interrupted then
          match findExact c ru0 80 with
          | some (k, out) => { ru0 with cut := k, out := out, expected := [] }
          | none => ru0
        else ru0
      if !ru.expected.isEmpty then
        .reject s!"finish {t}: task finished but the model still expects {describeItem (ru.expected.headD default)}"
      else
        let expRes : ResClass := if ru.out.err.isSome then .exception else ru.out.res
        if expRes != r then
          .reject s!"finish {t}: result class {repr r}, model expects {repr expRes} (model error: {ru.out.err})"
        else if ru.ctxSkip && !ctxWouldSkip c
            { g.startedEff with interrupted := g.defF.interrupted, pending := g.defF.pending || g.startedEff.pending } ru.tid then
          .reject s!"finish {t}: skipped by the context although no skip condition can have been set"
        else
          match Sched.step c.graph c.n g.sched (.finish t (resOfClass r)) with
          | none => .reject s!"finish {t}: not enabled in the scheduler model"
          | some s' =>
            let isSetup := ru.tid.kind == .init || ru.tid.kind == .sessSetup
            .ok { g with
              sched := s'
              insts := mergeInsts g.insts ru.instsAtStart ru.out.eff.insts
              kept := if isSetup then (ru.tid, ru.out.eff.kept) :: g.kept else g.kept
              reasonOf := (t, (r == .failure) || (r == .skipped && ru.reason)) :: g.reasonOf
              running := g.running.filter (fun x => x.task != t)
              defF := mergeFlags g.defF ru.out.eff }
  | .receive t disp =>
    if !g.inited then .reject s!"receive {t}: before the initial dispatch" else
    match Sched.step c.graph c.n g.sched (.receive t) with
    | none => .reject s!"receive {t}: not enabled"
    | some s' =>
      let s1 : Sched.State Nat := { g.sched with phase := fun x => if x = t then .completed else g.sched.phase x }
      let p := if g.sched.aborted then popped c.graph s1 c.graph.tasks.length else popped c.graph s1 c.n
      if p != disp then .reject s!"receive {t}: model dispatches {p}, implementation {disp}"
      else .ok { g with sched := s' }
  | .interrupt disp =>
    if !g.inited then .reject "interrupt: before the initial dispatch" else
    match Sched.step c.graph c.n g.sched .interrupt with
    | none => .reject "interrupt: already aborted"
    | some s' =>
      let p := popped c.graph g.sched c.graph.tasks.length
      if p != disp then .reject s!"interrupt: model schedules {p} for skipping, implementation {disp}"
      else .ok { g with sched := s', defF := { g.defF with interrupted := true } }
  | .handled k =>
    if k != g.handled then .reject s!"handled {k}: expected index {g.handled}"
    else if k ≥ g.fired.size then .reject s!"handled {k}: event not fired yet"
    else .ok { g with handled := k + 1 }
  | .backendRaise _ caught => .ok { g with startedEff := { g.startedEff with pending := caught || g.startedEff.pending } }
  | .handlerExit => .ok { g with defF := { g.defF with pending := g.startedEff.pending } }

/-! ### The entry point: graph check, context, fold over the trace

    Everything `drivers/Run.lean` does with a decoded observation that matters for the verdict lives here, so
    that the soundness theorem (`Props/C01Accept.lean`) speaks about the function the driver really runs. -/

/-- one task of the graph extracted from the real `build_tasks`: its id and the INDICES of its dependencies -/
structure GTask where
  kind : TaskKind
  path : Path
  succ : List Nat
  compl : List Nat
deriving Repr, Inhabited

/-- the real task graph as a scheduler graph over task indices `0 … k-1` -/
def natGraph (gts : List GTask) : Sched.Graph Nat :=
  let garr := gts.toArray
  { tasks := List.range gts.length
    succDeps := fun t => match garr[t]? with | some x => x.succ | none => []
    complDeps := fun t => match garr[t]? with | some x => x.compl | none => [] }

/-- index of a task id in the model's task list (`none` if it is not there) -/
def idxIn (ids : List TaskId) (t : TaskId) : Option Nat := ids.findIdx? (· == t)

/-- the model's graph (`buildTasks P`), dependencies as indices -/
def modelGraph (P : Proj) : List (TaskKind × Path × List (Option Nat) × List (Option Nat)) :=
  let mts := buildTasks P
  let mIds := mts.map (·.id)
  mts.map (fun t => (t.id.kind, t.id.path, t.succ.map (idxIn mIds), t.compl.map (idxIn mIds)))

def realGraph (gts : List GTask) : List (TaskKind × Path × List (Option Nat) × List (Option Nat)) :=
  gts.map (fun t => (t.kind, t.path, t.succ.map some, t.compl.map some))

/-- the real task graph is the model's: same tasks in the same order, same dependency lists; and task ids are
    pairwise distinct (they are for every valid project, `C01Graph.buildTasks_wf`; checked here so that an
    accepted run needs no assumption on the project) -/
def graphOk (P : Proj) (gts : List GTask) : Bool :=
  decide (modelGraph P = realGraph gts) && decide ((buildTasks P).map (·.id)).Nodup

def mkCtx (P : Proj) (gts : List GTask) (parents : List (Nat × Nat)) : Ctx :=
  { parentOf := fun th => parents.lookup th, P := P, graph := natGraph gts,
    tasks := (gts.map (fun t => ({ id := ⟨t.kind, t.path⟩, succ := [], compl := [] } : TaskSpec))).toArray,
    n := P.nbThreads }

/-- Re-tabulate the scheduler's function-valued fields (an interpreter matter, see harness/README.md; it is the
    identity on the states the acceptor reaches: `AcceptSound.normalizeSched_eq`). -/
def normalizeSched (k : Nat) (s : Sched.State Nat) : Sched.State Nat :=
  let ids := List.range k
  let aPhase := (ids.map s.phase).toArray
  let aResult := (ids.map s.result).toArray
  let aMode := (ids.map s.mode).toArray
  let aForced := (ids.map s.forced).toArray
  let aStartAt := (ids.map s.startAt).toArray
  let aFinishAt := (ids.map s.finishAt).toArray
  let aStarts := (ids.map s.starts).toArray
  { s with
    phase := fun i => aPhase.getD i .remaining, result := fun i => aResult.getD i none,
    mode := fun i => aMode.getD i none, forced := fun i => aForced.getD i false,
    startAt := fun i => aStartAt.getD i none, finishAt := fun i => aFinishAt.getD i none,
    starts := fun i => aStarts.getD i 0 }

/-- one record: `step`, then re-tabulation -/
def stepRec (c : Ctx) (g : G) (r : Rec) : Except String G :=
  match step c g r with
  | .ok g' => .ok { g' with sched := normalizeSched c.graph.tasks.length g'.sched }
  | .reject why => .error why

/-- what the replay of a trace gives: the state after the last accepted record, how many records were
    accepted, and why the next one was rejected (`none`: the whole trace is accepted) -/
structure Outcome where
  state : G
  accepted : Nat
  reject : Option String

/-- fold `stepRec` over the trace, stopping at the first rejected record -/
def replayFrom (c : Ctx) : G → Nat → List Rec → Outcome
  | g, i, [] => { state := g, accepted := i, reject := none }
  | g, i, r :: rs =>
    match stepRec c g r with
    | .ok g' => replayFrom c g' (i + 1) rs
    | .error why => { state := g, accepted := i, reject := some why }

/-- the acceptor's entry point (what `drivers/Run.lean` runs on every real trace) -/
def replay (c : Ctx) (recs : List Rec) : Outcome := replayFrom c (G.init c) 0 recs

end LccModel.RunAccept

/-
  JSON protocol of the session model: a sequence of (thread id, call) — the calls of the API layer M3a
  (`Model/SessionApi.lean`: core ops, `detached_step` blocks, one-call attachment forms on a file system) — run on
  `SessionApi.stepCall`; answers the fired events, the failure set, the number of accepted calls and the first error.
  Shared by drivers/Session.lean (C02, C07) and drivers/C06.lean.
-/
import LccModel.Proto
import LccModel.ProtoReport
import LccModel.Model.SessionApi
namespace LccModel.ProtoSession
open Lean LccModel LccModel.Proto LccModel.ProtoReport LccModel.Report LccModel.Session LccModel.SessionApi

def decCall (j : Json) : Except String (Nat × Call) := do
  let tid ← decNat (← field j "tid")
  let k ← (← field j "op").getStr?
  let path := fun (_ : Unit) => do decPath (← field j "path")
  let md := fun (_ : Unit) => do decMeta (← field j "md")
  let op ← match k with
    | "startTestSession" => pure Op.startTestSession
    | "endTestSession" => pure Op.endTestSession
    | "startSessionSetup" => pure Op.startSessionSetup
    | "endSessionSetup" => pure Op.endSessionSetup
    | "startSessionTeardown" => pure Op.startSessionTeardown
    | "endSessionTeardown" => pure Op.endSessionTeardown
    | "startSuite" => pure (Op.startSuite (← path ()) (← md ()))
    | "endSuite" => pure (Op.endSuite (← path ()))
    | "startSuiteSetup" => pure (Op.startSuiteSetup (← path ()))
    | "endSuiteSetup" => pure (Op.endSuiteSetup (← path ()))
    | "startSuiteTeardown" => pure (Op.startSuiteTeardown (← path ()))
    | "endSuiteTeardown" => pure (Op.endSuiteTeardown (← path ()))
    | "startTest" => pure (Op.startTest (← path ()) (← md ()))
    | "endTest" => pure (Op.endTest (← path ()))
    | "skipTest" => pure (Op.skipTest (← path ()) (← md ()) (← decOpt decStr (fieldOpt j "reason")))
    | "disableTest" => pure (Op.disableTest (← path ()) (← md ()) (← decOpt decStr (fieldOpt j "reason")))
    | "setStep" => pure (Op.setStep (← decStr (← field j "desc")))
    | "endStep" => pure Op.endStep
    | "log" => pure (Op.log (← decLevel (← field j "level")) (← decStr (← field j "msg")))
    | "check" => pure (Op.check (← decStr (← field j "desc")) (← decBool (← field j "ok")) (← decOpt decStr (fieldOpt j "details")))
    | "url" => pure (Op.url (← decStr (← field j "url")) (← decStr (← field j "desc")))
    | "attach" => pure (Op.attach (← decStr (← field j "file")) (← decStr (← field j "desc")) (← decBool (← field j "img")))
    | "attachBegin" => pure (Op.attachBegin (← decStr (← field j "file")) (← decStr (← field j "desc")) (← decBool (← field j "img")))
    | "attachEnd" => pure Op.attachEnd
    | "attachAbort" => pure Op.attachAbort
    | "threadCreate" => pure (Op.threadCreate (← decNat (← field j "new")))
    | "threadRun" => pure Op.threadRun
    | "threadEnd" => pure Op.threadEnd
    | "detachedEnter" | "detachedExit" | "endStepDeprecated" => pure Op.endStep   -- not core ops: decoded below
    | _ => throw s!"unknown op {k}"
  -- the calls of the API layer (Model/SessionApi.lean): `detached_step` blocks, the deprecated `end_step`, and the one-call
  -- attachment forms, which the harness executes against a real file system
  let call ← match k, op with
    | "detachedEnter", _ => pure (Call.detachedEnter (← decStr (← field j "desc")))
    | "detachedExit", _ => pure Call.detachedExit
    | "endStepDeprecated", _ => pure Call.endStepDeprecated
    | _, Op.attach f d img => pure (Call.attachFile f d img)
    | _, o => pure (Call.op o)
  pure (tid, call)

def errStr : Err → String
  | .noCursor => "noCursor" | .noStep => "noStep" | .noSavedThread => "noSavedThread" | .noAttach => "noAttach"

def handleCalls (j : Json) : Except String Json := do
  let ops ← (← getArr j "ops").toList.mapM decCall
  let rec go (s : St) (ops : List (Nat × Call)) (k : Nat) : St × Nat × Option String :=
    match ops with
    | [] => (s, k, none)
    | (tid, op) :: rest =>
      match stepCall s tid op with
      | .error e => (s, k, some (errStr e))
      | .ok s' => go s' rest (k + 1)
  let (s, k, e) := go St.init ops 0
  pure (Json.mkObj [
    ("accepted", Json.num k),
    ("error", match e with | none => Json.null | some m => Json.str m),
    ("fired", encList encEvent s.fired),
    ("failures", encList encLoc s.failures),
    ("pending", encList (fun (p : Nat × Cursor) => Json.arr #[Json.num p.1, encList encEvent p.2.pending]) s.cursors)])

end LccModel.ProtoSession

import LccModel.Model.Serial
open LccModel.Report LccModel.Writer LccModel.Serial
example : "ab".toList = ['a','b'] := by decide
example : "ab".toList = ['a','b'] := by rfl
example : "".isEmpty = true := by decide
example : normText "a\rb" = some "a\nb" := by decide
example : ("a\rb".toList.any (fun c => !isXmlChar c)) = false := by decide

import LccModel.Model.Writer
open LccModel.Report
deriving instance DecidableEq for SuiteResult
deriving instance DecidableEq for Report
example : (SuiteResult.mk default none none none none [] []) = (SuiteResult.mk default none none none none [] []) := by decide

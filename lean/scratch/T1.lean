import LccModel.Model.Serial
open LccModel.Report LccModel.Writer LccModel.Serial

theorem mapExcept_map {α β γ ε : Type} (f : α → β) (g : β → Except ε γ) (h : α → γ) :
    ∀ l : List α, (∀ x ∈ l, g (f x) = .ok (h x)) → mapExcept g (l.map f) = .ok (l.map h)
  | [], _ => rfl
  | x :: xs, hx => by
    have h1 := hx x (by simp)
    have h2 := mapExcept_map f g h xs (fun y hy => hx y (by simp [hy]))
    simp [mapExcept, h1, h2]

theorem mapExcept_map_id {α β ε : Type} (f : α → β) (g : β → Except ε α) (l : List α)
    (h : ∀ x ∈ l, g (f x) = .ok x) : mapExcept g (l.map f) = .ok l := by
  have := mapExcept_map f g id l (by simpa using h)
  simpa using this

@[simp] theorem parseLevel_levelName (l : LogLevel) : parseLevel (levelName l) = .ok l := by cases l <;> rfl
@[simp] theorem parseStatus_statusName (s : Status) : parseStatus (statusName s) = .ok s := by cases s <;> rfl
@[simp] theorem asOptStr_jOptStr (o : Option String) : asOptStr (jOptStr o) = .ok o := by cases o <;> rfl
@[simp] theorem asTime_jTime (o : Option Time) : asTime (jTime o) = .ok o := by cases o <;> rfl
@[simp] theorem asStatus_jStatus (o : Option Status) : asStatus (jStatus o) = .ok o := by
  cases o with
  | none => rfl
  | some s => simp [jStatus, asStatus]

theorem entry_rt (e : Entry) : fromJsonEntry (toJsonEntry e) = .ok e := by
  cases e <;> simp [fromJsonEntry, toJsonEntry, JVal.get, lookupKey, asStr, asBool, asReqTime, bind, Except.bind, pure, Except.pure]

theorem step_rt (s : Step) : fromJsonStep (toJsonStep s) = .ok s := by
  simp [fromJsonStep, toJsonStep, JVal.get, lookupKey, asStr, asArr, bind, Except.bind, pure, Except.pure,
    mapExcept_map_id toJsonEntry fromJsonEntry s.entries (fun e _ => entry_rt e)]


theorem result_of_lookups (r : Result) (kvs : List (String × JVal))
    (h1 : lookupKey "status" kvs = some (jStatus r.status))
    (h2 : lookupKey "status_details" kvs = some (jOptStr r.statusDetails))
    (h3 : lookupKey "start_time" kvs = some (jTime r.startTime))
    (h4 : lookupKey "end_time" kvs = some (jTime r.endTime))
    (h5 : lookupKey "steps" kvs = some (.arr (r.steps.map toJsonStep))) :
    fromJsonResult (.obj kvs) = .ok r := by
  simp [fromJsonResult, JVal.get, JVal.get?, h1, h2, h3, h4, h5, asArr, bind, Except.bind, pure, Except.pure,
    mapExcept_map_id toJsonStep fromJsonStep r.steps (fun e _ => step_rt e)]

theorem result_rt (r : Result) : fromJsonResult (toJsonResult r) = .ok r := by
  apply result_of_lookups <;> simp [resultFields, lookupKey]

theorem props_rt (ps : List (String × String)) :
    mapExcept fromJsonProp (ps.map (fun (k, v) => (k, JVal.str v))) = .ok ps :=
  mapExcept_map_id _ _ ps (fun p _ => by cases p; simp [fromJsonProp, asStr])

theorem links_rt (ls : List (String × Option String)) :
    mapExcept fromJsonLink (ls.map (fun (u, n) => JVal.obj [("name", jOptStr n), ("url", .str u)])) = .ok ls :=
  mapExcept_map_id _ _ ls (fun p _ => by
    cases p; simp [fromJsonLink, JVal.get, lookupKey, asStr, bind, Except.bind, pure, Except.pure])

theorem tags_rt (ts : List String) : mapExcept asStr (ts.map JVal.str) = .ok ts :=
  mapExcept_map_id _ _ ts (fun _ _ => rfl)

theorem meta_of_lookups (m : Meta) (kvs : List (String × JVal))
    (h1 : lookupKey "name" kvs = some (.str m.name))
    (h2 : lookupKey "description" kvs = some (.str m.description))
    (h3 : lookupKey "tags" kvs = some (.arr (m.tags.map .str)))
    (h4 : lookupKey "properties" kvs = some (.obj (m.properties.map (fun (k, v) => (k, .str v)))))
    (h5 : lookupKey "links" kvs = some (.arr (m.links.map (fun (u, n) => .obj [("name", jOptStr n), ("url", .str u)])))) :
    fromJsonMeta (.obj kvs) = .ok (zeroRank m) := by
  simp [fromJsonMeta, JVal.get, h1, h2, h3, h4, h5, asArr, asStr, asObj, bind, Except.bind, pure, Except.pure,
    props_rt, links_rt, tags_rt, zeroRank]

theorem test_rt (t : TestResult) : fromJsonTest (toJsonTest t) = .ok (clearTest t) := by
  have hm : fromJsonMeta (toJsonTest t) = .ok (zeroRank t.md) := by
    apply meta_of_lookups <;> simp [resultFields, metaFields, lookupKey]
  have hr : fromJsonResult (toJsonTest t) = .ok t.result := by
    apply result_of_lookups <;> simp [resultFields, metaFields, lookupKey]
  simp [fromJsonTest, hm, hr, bind, Except.bind, pure, Except.pure, clearTest]

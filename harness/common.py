"""
Shared machinery of the /verif checks (see DESIGN.md section 2).

A property module `harness/props/cxx.py` exposes

    PROPERTY   = "Cxx"
    LEAN_MODULES = ["LccModel.Props.Cxx", ...]      # what `lake build` must accept (the theorems)
    PROPS_FILES  = ["LccModel/Props/Cxx.lean"]       # files whose `theorem`s are the obligations
    NAMESPACES   = {"LccModel/Props/Cxx.lean": "LccModel.Cxx"}
    DRIVER       = "drivers/Cxx.lean" (or None)
    TRUSTED_BASE = [...]; ASSUMPTIONS = [...]; RULE = "..."  (non-triviality rule, words)
    def streams(ctx) -> list[Stream]
    (optional) def tables(ctx) -> list[Table]          # decision tables regenerated from /repo

and `vcheck.py` does the rest: build, axiom audit, table obligations, correspondence streams,
failing-input search, known findings, evidence, replay files, exit code.

Exit codes: 0 = property held on everything explored; 1 = VIOLATION line printed; 2 = infrastructure
error / time-out of the check itself.
"""
import fcntl
import hashlib
import json
import os
import random
import re
import subprocess
import sys
import time
import traceback
from pathlib import Path

VERIF = Path(__file__).resolve().parent.parent
LEAN_DIR = VERIF / "lean"
REPO = Path(os.environ.get("LCC_REPO", "/repo"))
# the real code under test is imported from REPO's working tree (the /venv editable install points at
# /repo; an explicit LCC_REPO — e.g. a scratch worktree carrying a candidate patch — takes precedence)
if str(REPO) not in sys.path:
    sys.path.insert(0, str(REPO))
# LCC_VERIF_OUT: where evidence/ and replays/ go (tools/run_seeded.py points it away from the committed evidence so
# that a run against a mutated scratch tree never overwrites evidence obtained from /repo)
_OUT = Path(os.environ["LCC_VERIF_OUT"]) if os.environ.get("LCC_VERIF_OUT") else VERIF
EVIDENCE_DIR = _OUT / "evidence"
REPLAY_DIR = _OUT / "replays"
KNOWN_FINDINGS = VERIF / "known_findings.json"
HOOK_GUARD = "LCC_VERIF"

STD_AXIOMS = {"propext", "Classical.choice", "Quot.sound"}
FORBIDDEN = re.compile(
    r"\bsorry\b|\badmit\b|^\s*axiom\s|native_decide|bv_decide|implemented_by|\bunsafe\s|maxHeartbeats\s+0\b",
    re.M,
)


class InfraError(Exception):
    """Something in the checking machinery itself failed (exit 2)."""


# --------------------------------------------------------------------------------------------
# Lean side
# --------------------------------------------------------------------------------------------

class _Lock:
    def __init__(self, path):
        self.path = path

    def __enter__(self):
        self.fh = open(self.path, "w")
        fcntl.flock(self.fh, fcntl.LOCK_EX)

    def __exit__(self, *a):
        fcntl.flock(self.fh, fcntl.LOCK_UN)
        self.fh.close()


def _env():
    env = dict(os.environ)
    env.pop("LEAN_PATH", None)
    return env


def lake_build(targets, timeout=1500):
    """`lake build <targets>` under a project-wide lock. Returns (ok, output)."""
    with _Lock(str(LEAN_DIR / ".build.lock")):
        p = subprocess.run(
            ["lake", "build", *targets], cwd=LEAN_DIR, capture_output=True, text=True, timeout=timeout, env=_env()
        )
    return p.returncode == 0, p.stdout + p.stderr


def strip_lean_comments(src):
    # nested block comments /- -/ and line comments --
    out, i, depth = [], 0, 0
    n = len(src)
    while i < n:
        if src.startswith("/-", i):
            depth += 1
            i += 2
        elif depth and src.startswith("-/", i):
            depth -= 1
            i += 2
        elif depth:
            if src[i] == "\n":
                out.append("\n")
            i += 1
        elif src.startswith("--", i):
            while i < n and src[i] != "\n":
                i += 1
        else:
            out.append(src[i])
            i += 1
    return "".join(out)


def forbidden_tokens(files):
    """Hits of sorry/admit/axiom/native_decide/... outside comments, as (file, line, text)."""
    hits = []
    for f in files:
        src = strip_lean_comments(Path(f).read_text())
        # string literals may legitimately contain the words; drop them
        src_nostr = re.sub(r'"(?:\\.|[^"\\])*"', '""', src)
        for m in FORBIDDEN.finditer(src_nostr):
            line = src_nostr.count("\n", 0, m.start()) + 1
            hits.append((str(f), line, m.group(0).strip()))
    return hits


def lean_sources():
    return sorted(p for p in LEAN_DIR.rglob("*.lean") if ".lake" not in p.parts)


def theorem_names(props_file, namespace):
    src = strip_lean_comments((LEAN_DIR / props_file).read_text())
    names = re.findall(r"^\s*(?:private\s+|protected\s+)?theorem\s+([^\s:({\[]+)", src, re.M)
    return [f"{namespace}.{n}" for n in names]


def audit_axioms(prop_id, modules, names):
    """#print axioms for every property theorem; returns {name: [axioms]}"""
    if not names:
        return {}
    tmp = LEAN_DIR / ".audit"
    tmp.mkdir(exist_ok=True)
    f = tmp / f"Audit_{prop_id}_{os.getpid()}.lean"
    body = "".join(f"import {m}\n" for m in modules) + "".join(f"#print axioms {n}\n" for n in names)
    f.write_text(body)
    try:
        p = subprocess.run(
            ["lake", "env", "lean", str(f)], cwd=LEAN_DIR, capture_output=True, text=True, timeout=900, env=_env()
        )
    finally:
        try:
            f.unlink()
        except OSError:
            pass
    out = p.stdout + p.stderr
    res = {}
    for m in re.finditer(r"'(\S+)' depends on axioms: \[([^\]]*)\]", out, re.S):
        res[m.group(1)] = [a.strip() for a in m.group(2).replace("\n", " ").split(",") if a.strip()]
    for m in re.finditer(r"'(\S+)' does not depend on any axioms", out):
        res[m.group(1)] = []
    missing = [n for n in names if n not in res]
    if p.returncode != 0 or missing:
        raise InfraError(f"axiom audit failed (missing {missing[:5]}):\n{out[-3000:]}")
    return res


class LeanDriver:
    """One `lake env lean --run drivers/X.lean` process; JSON line in, JSON line out."""

    def __init__(self, driver):
        self.driver = driver
        self.p = subprocess.Popen(
            ["lake", "env", "lean", "--run", driver],
            cwd=LEAN_DIR, stdin=subprocess.PIPE, stdout=subprocess.PIPE, stderr=subprocess.PIPE, text=True, env=_env(),
        )

    def ask(self, req):
        return self.ask_many([req])[0]

    def ask_many(self, reqs):
        if not reqs:
            return []
        import threading

        lines = [json.dumps(r, separators=(",", ":"), ensure_ascii=True) + "\n" for r in reqs]
        out = []

        def writer():
            try:
                for ln in lines:
                    self.p.stdin.write(ln)
                self.p.stdin.flush()
            except BrokenPipeError:
                pass

        t = threading.Thread(target=writer, daemon=True)
        t.start()
        for _ in reqs:
            ln = self.p.stdout.readline()
            if not ln:
                err = self.p.stderr.read()
                raise InfraError(f"Lean driver {self.driver} died: {err[-2000:]}")
            out.append(json.loads(ln))
        t.join()
        return out

    def close(self):
        try:
            self.p.stdin.close()
            self.p.wait(timeout=20)
        except Exception:
            self.p.kill()


# --------------------------------------------------------------------------------------------
# Streams, oracles, tables
# --------------------------------------------------------------------------------------------

class Failure:
    """An oracle verdict: the implementation breaks the property on this case."""

    def __init__(self, signature, message, details=None):
        self.signature = signature      # canonical class of the failure (known_findings key)
        self.message = message
        self.details = details

    def to_json(self):
        return {"signature": self.signature, "message": self.message, "details": self.details}


class Stream:
    """
    One correspondence stream.  Subclass and implement:
      gen(rng, i)            -> case (JSON-able)
      impl(case)             -> obs  (JSON-able canonical observation of the REAL code)
      oracle(case, obs)      -> list[Failure]     (property stated on the implementation; never uses the model)
      request(case, obs)     -> JSON request for the Lean driver (or None: stream has no model side)
      compare(case, obs, ans)-> None | str        (disagreement between model answer and observation)
      nontrivial(case, obs)  -> bool
      shrink(case)           -> iterable of smaller cases (optional)
      features(case, obs)    -> list[str] counted into the input-distribution histogram (optional)
    """
    name = "stream"
    corpus = []          # cases replayed first (minimal witnesses of known findings, past disagreements)
    quick_cases = 100
    thorough_cases = 2000
    quick_seconds = 30
    thorough_seconds = 300
    chunk = 50

    def gen(self, rng, i):
        raise NotImplementedError

    def impl(self, case):
        raise NotImplementedError

    def oracle(self, case, obs):
        return []

    def request(self, case, obs):
        return None

    def compare(self, case, obs, ans):
        return None

    def nontrivial(self, case, obs):
        return True

    def shrink(self, case):
        return []

    def features(self, case, obs):
        return []

    def setup(self, ctx):
        pass

    def teardown(self, ctx):
        pass


class Table:
    """
    A finite decision table extracted by *executing* the real function on its whole domain.
      name      : Lean identifier of the table
      rows()    -> list of (input_lean_term, output_lean_term, human_readable_row)
      lean_type : e.g. "List (Foo × Bool)"
    The generated file `LccModel/Generated/<Prop>Tables.lean` defines the tables; the committed file
    `LccModel/Generated/<Prop>TablesCheck.lean` proves `∀ r ∈ table, model r.1 = r.2` by `decide`.
    """

    def __init__(self, name, lean_type, rows, imports=()):
        self.name, self.lean_type, self.rows, self.imports = name, lean_type, rows, tuple(imports)


def write_tables(prop_id, tables, opens=()):
    gen_dir = LEAN_DIR / "LccModel" / "Generated"
    gen_dir.mkdir(exist_ok=True)
    imports = []
    for t in tables:
        for i in t.imports:
            if i not in imports:
                imports.append(i)
    out = ["-- GENERATED on every run by harness/vcheck.py from /repo's working tree. Do not edit."]
    out += [f"import {i}" for i in imports]
    out += [f"namespace LccModel.Generated.{prop_id}"]
    out += [f"open {o}" for o in opens]
    for t in tables:
        out.append(f"def {t.name} : {t.lean_type} := [")
        out.append(",\n".join(f"  ({r[0]}, {r[1]})" for r in t.rows))
        out.append("]")
    out.append(f"end LccModel.Generated.{prop_id}")
    path = gen_dir / f"{prop_id}Tables.lean"
    new = "\n".join(out) + "\n"
    if not path.exists() or path.read_text() != new:
        path.write_text(new)
    return path


def rng_for(seed, stream, i):
    h = hashlib.sha256(f"{seed}/{stream}/{i}".encode()).digest()
    return random.Random(int.from_bytes(h[:8], "big"))


def case_hash(obj):
    return hashlib.sha256(json.dumps(obj, sort_keys=True, default=str).encode()).hexdigest()[:16]


def load_known_findings():
    """known_findings.json plus the per-property fragments known_findings.d/*.json (committed, never
    written at run time).  Entry: {property, signature, status: open|fixed, summary, commit?, witness?}"""
    out = {"findings": []}
    files = [KNOWN_FINDINGS] if KNOWN_FINDINGS.exists() else []
    d = VERIF / "known_findings.d"
    if d.is_dir():
        files += sorted(d.glob("*.json"))
    for f in files:
        out["findings"] += json.loads(f.read_text()).get("findings", [])
    return out


def write_replay(prop_id, payload):
    REPLAY_DIR.mkdir(exist_ok=True)
    h = case_hash(payload)
    path = REPLAY_DIR / f"{prop_id}-{h}.json"
    path.write_text(json.dumps(payload, indent=1, sort_keys=True, default=str))
    return path


def jsonable(x):
    return json.loads(json.dumps(x, default=str))

"""
Recorder + gate controller for the dispatch loop of lemoncheesecake.task (no source change needed).

`patched(rec)` replaces, for the duration of a run, the module globals `Pool` and `Queue` of `lemoncheesecake.task`
by recording wrappers and wraps the `run` / `skip` methods of every task object it sees:

  dispatch t      at pool.apply_async(...)                       (main thread)
  start t         when a pool worker starts executing what was submitted for t
  ctx t b         what context.is_task_to_be_skipped returned while a worker handles t (b = reason given)
  mode t run|skip which of task.run / task.skip was called first for this start
  finish t res    at completed_task_queue.put(task), *before* the put   (worker thread)
  receive t       after completed_tasks_queue.get() returned            (main thread)
  interrupt       when context.enable_task_abort() is called

Run-level extensions (used by harness/run/observe.py, off by default): `rec.thread_namer` adds the worker
to `start` records, `rec.verbose` adds the skip reason to `mode` records, `rec.rec` returns the index
of the appended record.

All records go into one list under one lock, so the list is a global linearisation.

Gates: code run by tasks may call `rec.gate(key)`; it blocks until the controller releases it.  The
controller waits for quiescence (every in-flight task is blocked at a gate or no worker is free, the
completion queue is drained and the main thread waits in `get`) and then releases one waiter chosen by
the strategy ("fifo" | "lifo" | "random" | "off").  Interrupts are injected by raising
KeyboardInterrupt in the main thread at a chosen point (`interrupt_at = ("get", k)`: instead of the
k-th blocking get; `("apply", k)`: inside the k-th apply_async, before the task is handed to the pool;
`("quiescent", k)`: at the k-th quiescent point found by the gate controller — every in-flight task is held at
a gate and the main thread waits in `get` — the controller wakes the main thread up with a KeyboardInterrupt
instead of releasing a waiter: the interrupt then hits a chosen, stable set of in-flight tasks).
"""
import queue as _queue
import threading
import time
from contextlib import contextmanager

import lemoncheesecake.task as T


class HangDetected(BaseException):
    """The main loop waits for a completion while nothing is in flight: it would wait forever."""


_INTERRUPT = object()      # sentinel put on the completion queue by the controller: `get` raises KeyboardInterrupt


class Recorder:
    def __init__(self, nb_threads, strategy="off", rng=None, interrupt_at=None, settle=0.0, watchdog=20.0):
        self.lock = threading.RLock()
        self.cv = threading.Condition(self.lock)
        self.trace = []
        self.ids = {}              # id(task) -> small int
        self.names = {}
        self.n = nb_threads
        self.strategy = strategy
        self.rng = rng
        self.interrupt_at = interrupt_at
        self.settle = settle
        self.watchdog = watchdog
        self.stall_seconds = 3 * watchdog     # nothing recorded for that long with tasks in flight and no gate holding them: stuck workers
        self.inflight = 0          # dispatched - finished
        self.finished = 0
        self.received = 0
        self.main_in_get = False
        self.waiters = []          # [key, event, arrival#]
        self.arrivals = 0
        self.gets = 0
        self.applies = 0
        self.done = False
        self.watchdog_fired = False
        self.released = []
        self.interrupted = False
        self.quiescent_points = 0
        self._queue = None         # the live RecQueue (for the controller's interrupt injection)
        self._local = threading.local()
        self._ctl = None
        # run-level extensions (harness/run/observe.py); the defaults keep the sched-level record shapes
        self.thread_namer = None   # callable -> small int of the current thread: `start` records become ["start", t, worker]
        self.verbose = False       # `mode` records carry the skip reason: ["mode", t, "run"|"skip", reason|None]
        self.start_gate = None     # callable(task) -> gate key | None: a worker that has just started handling `task` waits at
                                   # that gate BEFORE anything of the task runs (lets a strategy reorder the STARTS of tasks)

    # ---- ids -------------------------------------------------------------------------------
    def tid(self, task):
        with self.lock:
            k = self.ids.get(id(task))
            if k is None:
                k = len(self.ids)
                self.ids[id(task)] = k
                self.names[k] = str(task)
            return k

    def rec(self, *item):
        """append one record; returns its index in the trace"""
        with self.cv:
            self.trace.append(list(item))
            self.cv.notify_all()
            return len(self.trace) - 1

    def _start(self, k):
        if self.thread_namer is not None:
            self.rec("start", k, self.thread_namer())
        else:
            self.rec("start", k)

    def _mode(self, k, mode, reason=None):
        if self.verbose:
            self.rec("mode", k, mode, reason)
        else:
            self.rec("mode", k, mode)

    # ---- gates -----------------------------------------------------------------------------
    def gate(self, key):
        if self.strategy == "off" or self.done:
            return
        ev = threading.Event()
        with self.cv:
            self.arrivals += 1
            self.waiters.append([key, ev, self.arrivals])
            self.cv.notify_all()
        ev.wait()

    def _quiescent(self):
        if not self.waiters:
            return False
        blocked = len(self.waiters)
        if self.finished != self.received and not self.interrupted:
            return False
        if blocked >= self.n:
            return True
        return blocked >= self.inflight and (self.main_in_get or self.interrupted)

    def _controller(self):
        last_progress = time.time()
        last_len = -1
        await_main = None
        while True:
            with self.cv:
                if self.done and not self.waiters:
                    return
                if self.done:
                    for w in self.waiters:
                        w[1].set()
                    self.waiters.clear()
                    return
                cur = len(self.trace) + self.arrivals
                if cur != last_len:
                    last_len = cur
                    last_progress = time.time()
                if self._quiescent():
                    if self.settle:
                        # let stragglers arrive
                        self.cv.wait(self.settle)
                        if not self._quiescent():
                            continue
                    if await_main is not None:
                        # an interrupt was injected: keep every waiter held until the main thread has handled it
                        # (it is back in `get`, after the first round of skip_all_tasks released what is runnable) — at most 2 s
                        if (self.gets > await_main[0] and self.main_in_get) or time.time() > await_main[1]:
                            await_main = None
                        else:
                            self.cv.wait(0.005)
                        continue
                    if (self.interrupt_at and self.interrupt_at[0] == "quiescent" and not self.interrupted
                            and self.quiescent_points + 1 >= self.interrupt_at[1] and self._queue is not None):
                        if not self.main_in_get:
                            self.cv.wait(0.005)     # the dispatcher is still dispatching: it blocks in `get` next
                            continue
                        self.quiescent_points += 1
                        self.interrupted = True
                        await_main = (self.gets, time.time() + 2.0)
                        self._queue._q.put(_INTERRUPT)
                        last_progress = time.time()
                        continue
                    self.quiescent_points += 1
                    ws = self.waiters
                    if self.strategy == "fifo":
                        i = 0
                    elif self.strategy == "lifo":
                        i = len(ws) - 1
                    else:
                        i = self.rng.randrange(len(ws))
                    w = ws.pop(i)
                    self.released.append(w[0])
                    w[1].set()
                    last_progress = time.time()
                    continue
                if time.time() - last_progress > self.watchdog:
                    self.watchdog_fired = True
                    for w in self.waiters:
                        w[1].set()
                    self.waiters.clear()
                    last_progress = time.time()
                self.cv.wait(0.02)

    def start_controller(self):
        if self.strategy != "off":
            self._ctl = threading.Thread(target=self._controller, daemon=True)
            self._ctl.start()

    def stop_controller(self):
        with self.cv:
            self.done = True
            for w in self.waiters:
                w[1].set()
            self.waiters.clear()
            self.cv.notify_all()
        if self._ctl:
            self._ctl.join(5)


@contextmanager
def patched(rec):
    """Seams: `Pool` / `Queue` (module globals of lemoncheesecake.task) and the `run` / `skip` methods of the task
    OBJECTS (the BaseTask interface).  The private helpers of task.py (handle_task, skip_task, run_task, …) are not
    touched: a refactoring of the dispatch code must not blind the recorder."""
    orig = (T.Pool, T.Queue)
    OrigPool, OrigQueue = orig

    def instrument(task, k):
        """wrap the task object's run / skip once: the first of them called after a `start` is the decision"""
        if getattr(task, "_lccverif_instrumented", False):
            return
        task._lccverif_instrumented = True
        orig_run, orig_skip = task.run, task.skip

        def run(*args, **kwargs):
            if getattr(rec._local, "mode_for", None) != k:
                rec._local.mode_for = k
                rec._mode(k, "run")
            return orig_run(*args, **kwargs)

        def skip(context, reason=None, *args, **kwargs):
            if getattr(rec._local, "mode_for", None) != k:
                rec._local.mode_for = k
                rec._mode(k, "skip", reason)
            return orig_skip(context, reason, *args, **kwargs)
        task.run, task.skip = run, skip

    class RecPool:
        def __init__(self, n):
            self._p = OrigPool(n)

        def apply_async(self, func, args=(), kwds=None):
            task = args[0]
            k = rec.tid(task)
            instrument(task, k)
            with rec.cv:
                rec.applies += 1
                if rec.interrupt_at == ("apply", rec.applies) and not rec.interrupted:
                    rec.interrupted = True
                    raise KeyboardInterrupt()
                rec.inflight += 1
                rec.rec("dispatch", k)

            def guarded(*a, **kw):
                # an exception escaping a pool function is silently dropped by the real Pool and the task never
                # completes (the run then waits forever): record it so that the hang is detected, not suffered
                rec._local.in_handle = k
                rec._local.mode_for = None
                rec._start(k)
                try:
                    key = rec.start_gate(task) if rec.start_gate is not None else None
                    if key is not None:
                        rec.gate(key)
                    return func(*a, **kw)
                except BaseException as e:
                    with rec.cv:
                        rec.inflight -= 1
                        rec.rec("died", k, "%s: %s" % (type(e).__name__, e))
                    raise
                finally:
                    rec._local.in_handle = None
            return self._p.apply_async(guarded, args=args, kwds=kwds or {})

        def close(self):
            self._p.close()

    class RecQueue:
        def __init__(self, *a, **kw):
            self._q = OrigQueue(*a, **kw)
            rec._queue = self

        def put(self, task, *a, **kw):
            k = rec.tid(task)
            with rec.cv:
                rec.finished += 1
                rec.inflight -= 1
                rec.rec("finish", k, type(task.result).__name__.replace("TaskResult", "").lower())
            self._q.put(task, *a, **kw)

        def get(self, *a, **kw):
            with rec.cv:
                rec.gets += 1
                if rec.interrupt_at == ("get", rec.gets) and not rec.interrupted:
                    rec.interrupted = True
                    raise KeyboardInterrupt()
                rec.main_in_get = True
                rec.cv.notify_all()
            while True:
                try:
                    task = self._q.get(timeout=0.25)
                    if task is _INTERRUPT:
                        with rec.cv:
                            rec.main_in_get = False
                            rec.cv.notify_all()
                        raise KeyboardInterrupt()
                    break
                except _queue.Empty:
                    with rec.cv:
                        if rec.inflight == 0 and rec.finished == rec.received:
                            rec.rec("hang")
                            raise HangDetected()
                        # nothing at all has happened for a long time (no record, no gate arrival) although tasks are
                        # in flight and no gate holds them: the workers are stuck
                        cur = len(rec.trace) + rec.arrivals
                        if cur != getattr(self, "_last_cur", None):
                            self._last_cur, self._last_t = cur, time.time()
                        elif not rec.waiters and time.time() - self._last_t > rec.stall_seconds:
                            rec.rec("hang", "stalled")
                            raise HangDetected()
            with rec.cv:
                rec.main_in_get = False
                rec.received += 1
                rec.rec("receive", rec.tid(task))
            return task

    T.Pool, T.Queue = RecPool, RecQueue
    rec.start_controller()
    try:
        yield rec
    finally:
        rec.stop_controller()
        T.Pool, T.Queue = orig


def wrap_context(rec, context):
    """Record `interrupt` (enable_task_abort) and the answers of is_task_to_be_skipped (instance-level wrap)."""
    orig_abort = context.enable_task_abort
    orig_is = context.is_task_to_be_skipped

    # both under the recorder's lock: the order of the `interrupt` and `ctx` records is the order of the effects
    def enable():
        with rec.cv:
            rec.rec("interrupt")
            return orig_abort()

    def is_skipped(task):
        with rec.cv:
            r = orig_is(task)
            k = getattr(rec._local, "in_handle", None)
            if k is not None:
                rec.rec("ctx", k, bool(r))
        return r
    context.enable_task_abort = enable
    context.is_task_to_be_skipped = is_skipped
    return context


def to_labels(trace):
    """Collapse the raw records into the model's labels:
       ["init", [dispatched]]  ["start", t, ctx]  ["finish", t, res]  ["receive", t, [dispatched]]  ["interrupt", [dispatched]]
       `ctx` is taken from the ctx record following the start (false when handle_task never asked)."""
    labels = []
    cur_dispatch = []
    labels.append(["init", cur_dispatch])
    pending_start = {}
    for r in trace:
        k = r[0]
        if k == "dispatch":
            cur_dispatch.append(r[1])
        elif k == "start":
            lab = ["start", r[1], False, None]
            pending_start[r[1]] = lab
            labels.append(lab)
        elif k == "ctx":
            pending_start[r[1]][2] = r[2]
        elif k == "mode":
            pending_start[r[1]][3] = r[2]
        elif k == "finish":
            labels.append(["finish", r[1], r[2]])
        elif k == "receive":
            cur_dispatch = []
            labels.append(["receive", r[1], cur_dispatch])
        elif k == "interrupt":
            cur_dispatch = []
            labels.append(["interrupt", cur_dispatch])
    return labels

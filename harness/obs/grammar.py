"""
Independent recogniser of the reporting event-stream grammar (property C07), used as ORACLE by C18 (and
available to C07).  Works on wire-shaped events (`gen.reports.canon_event`).

check(events, strict=True, sequential=False, complete=False) -> None | "reason at index i"

  containment (always): session start first; every suite starts inside its started-and-not-ended parent; results
      start inside their open suite; steps start inside an open result; each log/check/attachment/url lies in the
      step currently open for the emitting thread and names that step's location; every end matches an open start;
      nothing after session end; every event carries a non-zero time.
  strict: no double start; a suite / result / session ends only when everything inside it has ended; one open step
      per thread.
  sequential: results never overlap and suite / skipped / disabled events occur only between results.
  complete: the stream ends with session end (and, if strict, with nothing open).
"""


def _loc_key(loc):
    return (loc["k"], tuple(loc.get("path") or ()))


def _owner(lk):
    kind, path = lk
    if kind in ("ssetup", "steardown"):
        return None
    return path if kind in ("setup", "teardown") else path[:-1]


def check(events, strict=True, sequential=False, complete=False):
    started = ended = False
    suites = []        # open suite paths (multiset)
    results = []       # open result locations
    steps = {}         # tid -> stack of locations (latest last)

    def fail(i, why):
        return "%s at index %d" % (why, i)

    for i, e in enumerate(events):
        k = e["e"]
        if not e.get("t"):
            return fail(i, "event without time")
        if k == "sessionStart":
            if started:
                return fail(i, "second session start")
            started = True
            continue
        if not started:
            return fail(i, "event before session start")
        if ended:
            return fail(i, "event after session end")
        if k == "sessionEnd":
            if strict and (suites or results or any(steps.values())):
                return fail(i, "session end with open items")
            ended = True
            continue
        if k.endswith("Start") and k != "stepStart" or k in ("testSkipped", "testDisabled"):
            if k == "suiteStart":
                p = tuple(e["path"])
                if not p or (e["md"]["name"] != p[-1]):
                    return fail(i, "suite start with inconsistent path")
                if len(p) > 1 and p[:-1] not in suites:
                    return fail(i, "suite start outside its parent")
                if strict and p in suites:
                    return fail(i, "suite started twice")
                if sequential and results:
                    return fail(i, "suite start while a result is open")
                suites.append(p)
                continue
            if k in ("sessionSetupStart", "sessionTeardownStart"):
                lk = ("ssetup" if k == "sessionSetupStart" else "steardown", ())
            elif k in ("suiteSetupStart", "suiteTeardownStart"):
                lk = ("setup" if k == "suiteSetupStart" else "teardown", tuple(e["path"]))
                if lk[1] not in suites:
                    return fail(i, "phase start outside its suite")
            else:
                p = tuple(e["path"])
                lk = ("test", p)
                if len(p) < 2 or p[:-1] not in suites:
                    return fail(i, "test event outside its suite")
                if e["md"]["name"] != p[-1]:
                    return fail(i, "test event with inconsistent path")
            if strict and lk in results:
                return fail(i, "result started twice")
            if sequential and results:
                return fail(i, "result starts while another one is open")
            if k not in ("testSkipped", "testDisabled"):
                results.append(lk)
            continue
        if k == "suiteEnd":
            p = tuple(e["path"])
            if p not in suites:
                return fail(i, "suite end without start")
            if strict and (any(q[:-1] == p for q in suites if q) or any(_owner(l) == p for l in results)):
                return fail(i, "suite end with open content")
            if sequential and results:
                return fail(i, "suite end while a result is open")
            suites.remove(p)
            continue
        if k.endswith("End") and k != "stepEnd":
            if k in ("sessionSetupEnd", "sessionTeardownEnd"):
                lk = ("ssetup" if k == "sessionSetupEnd" else "steardown", ())
            elif k in ("suiteSetupEnd", "suiteTeardownEnd"):
                lk = ("setup" if k == "suiteSetupEnd" else "teardown", tuple(e["path"]))
            else:
                lk = ("test", tuple(e["path"]))
            if lk not in results:
                return fail(i, "result end without start")
            if strict and any(lk in st for st in steps.values()):
                return fail(i, "result end with an open step")
            results.remove(lk)
            continue
        lk = _loc_key(e["loc"])
        tid = e["tid"]
        st = steps.setdefault(tid, [])
        if k == "stepStart":
            if lk not in results:
                return fail(i, "step start outside an open result")
            if strict and st:
                return fail(i, "thread already has an open step")
            st.append(lk)
            continue
        if not st or st[-1] != lk:
            return fail(i, "%s outside the step open for its thread" % k)
        if k == "stepEnd":
            st.pop()
            continue
        # log / check / att / url: fine
    if complete and not ended:
        return "stream does not end with session end"
    return None

#!/venv/bin/python
"""MANIFEST.setup_cmd: regenerate every decision table from /repo, then build the whole Lean library."""
import importlib
import os
import sys
import glob

sys.path.insert(0, os.path.dirname(os.path.abspath(__file__)))
import common as C  # noqa: E402


class _Ctx:
    tier, seed = "quick", 0


def main():
    os.environ[C.HOOK_GUARD] = "1"
    for f in sorted(glob.glob(os.path.join(os.path.dirname(os.path.abspath(__file__)), "props", "c*.py"))):
        name = os.path.basename(f)[:-3]
        mod = importlib.import_module("props." + name)
        if hasattr(mod, "tables"):
            C.write_tables(mod.PROPERTY, mod.tables(_Ctx()), opens=getattr(mod, "TABLE_OPENS", ()))
    ok, out = C.lake_build([], timeout=3000)
    print(out[-3000:])
    sys.exit(0 if ok else 1)


if __name__ == "__main__":
    main()

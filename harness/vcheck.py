#!/venv/bin/python
"""
vcheck.py <Cxx> --tier quick|thorough [--replay FILE]

Decides one property: (1) the Lean theorems of the property build and depend on standard axioms only,
(2) decision tables regenerated from /repo still satisfy their `decide` obligations, (3) the
hand-written model and the real code agree on generated inputs (correspondence streams), (4) the
property oracle holds on every observation of the real code.  A broken obligation or disagreement
starts the failing-input search; see DESIGN.md 2.5.
"""
import argparse
import importlib
import json
import os
import sys
import time
import traceback

sys.path.insert(0, os.path.dirname(os.path.abspath(__file__)))
import common as C  # noqa: E402


class Ctx:
    def __init__(self, prop, tier, seed):
        self.prop, self.tier, self.seed = prop, tier, seed
        self.t0 = time.time()
        self.known = C.load_known_findings()
        self.violations = []        # (Failure|None, replay_path, extra)
        self.known_hits = {}        # signature -> summary
        self.fixed_hits = {}
        self.notes = []
        self.shard = 0              # > 0: a worker process of a sharded thorough run (no corpus, derived seed)

    def quick(self):
        return self.tier == "quick"


def known_entry(ctx, signature):
    for f in ctx.known.get("findings", []):
        if f.get("property") == ctx.prop and f.get("signature") == signature:
            return f
    return None


def minimise(stream, case, obs, failure, max_evals=300):
    """Greedy delta-debugging under the oracle: keep a smaller case while the same signature fails."""
    evals = 0
    improved = True
    while improved and evals < max_evals:
        improved = False
        try:
            cands = list(stream.shrink(case))
        except Exception:
            break
        for cand in cands:
            evals += 1
            if evals > max_evals:
                break
            o, fails, err = run_case(stream, cand)
            if err is None:
                same = [f for f in fails if f.signature == failure.signature]
                if same:
                    case, obs, failure, improved = cand, o, same[0], True
                    break
    return case, obs, failure


def report_failure(ctx, stream, case, obs, failure, how):
    """An oracle failure on the real code: known finding or violation."""
    stream_name = stream.name
    ent = known_entry(ctx, failure.signature)
    if ent and ent.get("status") == "open":
        if failure.signature not in ctx.known_hits:
            ctx.known_hits[failure.signature] = ent.get("summary", failure.message)
        return
    if any(f is not None and f.signature == failure.signature for f, _, _ in ctx.violations):
        return      # one replay per failure class
    case, obs, failure = minimise(stream, case, obs, failure)
    payload = {
        "property": ctx.prop, "kind": "oracle-failure", "stream": stream_name, "seed": ctx.seed,
        "case": case, "observed": obs, "failure": failure.to_json(), "how_found": how,
        "how_to_rerun": f"/venv/bin/python harness/vcheck.py {ctx.prop} --replay <this file>",
    }
    path = C.write_replay(ctx.prop, payload)
    ctx.violations.append((failure, path, ""))


def report_unexplained(ctx, what, detail):
    """A proof obligation / correspondence that no longer checks and no failing input was found."""
    payload = {
        "property": ctx.prop, "kind": "no-failing-input-found", "seed": ctx.seed,
        "no_longer_checks": what, "detail": detail,
        "how_to_rerun": f"/venv/bin/python harness/vcheck.py {ctx.prop} --tier {ctx.tier}",
    }
    path = C.write_replay(ctx.prop, payload)
    ctx.violations.append((None, path, "no-failing-input-found"))


def run_case(stream, case):
    """-> (obs, failures, error_text)"""
    try:
        obs = stream.impl(case)
    except C.InfraError:
        raise
    except Exception:
        return None, [], traceback.format_exc()
    obs = C.jsonable(obs)
    try:
        fails = stream.oracle(case, obs)
    except Exception:
        return obs, [], "oracle crashed: " + traceback.format_exc()
    return obs, fails, None


def run_stream(ctx, mod, stream, driver, stats, budget_scale=1.0, oracle_only=False):
    n_target = int((stream.quick_cases if ctx.quick() else stream.thorough_cases) * budget_scale)
    t_budget = (stream.quick_seconds if ctx.quick() else stream.thorough_seconds) * budget_scale
    t_start = time.time()
    st = stats.setdefault(stream.name, {
        "evaluations": 0, "nontrivial_hashes": set(), "disagreements": [], "features": {}, "samples": [],
        "impl_errors": [], "corpus": 0,
    })
    cases = [] if ctx.shard else [("corpus", c) for c in stream.corpus]
    st["corpus"] = len(cases)
    i = 0
    done = False
    while not done:
        chunk = []
        while len(chunk) < stream.chunk:
            if cases:
                chunk.append(cases.pop(0))
            elif i < n_target and time.time() - t_start < t_budget:
                rng = C.rng_for(ctx.seed, stream.name, i)
                chunk.append((f"gen#{i}", stream.gen(rng, i)))
                i += 1
            else:
                done = True
                break
        if not chunk:
            break
        results = []
        for origin, case in chunk:
            obs, fails, err = run_case(stream, case)
            st["evaluations"] += 1
            if err is not None:
                st["impl_errors"].append({"origin": origin, "case": case, "error": err[-1500:]})
                continue
            for f in fails:
                report_failure(ctx, stream, case, obs, f, origin)
            try:
                if stream.nontrivial(case, obs):
                    st["nontrivial_hashes"].add(C.case_hash(case))
                for ft in stream.features(case, obs):
                    st["features"][ft] = st["features"].get(ft, 0) + 1
            except Exception:
                pass
            if len(st["samples"]) < 3:
                st["samples"].append({"origin": origin, "case": case, "obs": obs})
            results.append((origin, case, obs, fails))
        if driver is not None and not oracle_only:
            reqs, idx = [], []
            for k, (origin, case, obs, fails) in enumerate(results):
                r = stream.request(case, obs)
                if r is not None:
                    reqs.append(r)
                    idx.append(k)
            answers = driver.ask_many(reqs)
            for k, ans in zip(idx, answers):
                origin, case, obs, fails = results[k]
                d = stream.compare(case, obs, ans)
                if d is not None:
                    st["disagreements"].append(
                        {"origin": origin, "case": case, "obs": obs, "model": ans, "diff": d, "oracle_failed": bool(fails)}
                    )
        if len(ctx.violations) >= 5:
            break
    return st


def failing_input_search(ctx, mod, stream, driver, stats, disagreements):
    """Shrink each disagreeing case while it still disagrees, evaluating the oracle on every candidate;
    then a fresh ×4 batch in oracle-only mode.  Returns True if an oracle failure was reported."""
    before = len(ctx.violations) + len(ctx.known_hits)
    for d in disagreements[:5]:
        case = d["case"]
        frontier = [case]
        seen = 0
        while frontier and seen < 200:
            cur = frontier.pop(0)
            for cand in stream.shrink(cur):
                seen += 1
                obs, fails, err = run_case(stream, cand)
                if err is not None:
                    continue
                for f in fails:
                    report_failure(ctx, stream, cand, obs, f, "shrink-of-disagreement")
                if fails:
                    return True
                if driver is not None:
                    r = stream.request(cand, obs)
                    if r is not None and stream.compare(cand, obs, driver.ask(r)) is not None:
                        frontier.append(cand)
                        break
    if len(ctx.violations) + len(ctx.known_hits) > before:
        return True
    saved_seed = ctx.seed
    ctx.seed = saved_seed * 7919 + 13
    try:
        tmp = {}
        run_stream(ctx, mod, stream, None, tmp, budget_scale=4.0, oracle_only=True)
    finally:
        ctx.seed = saved_seed
    return len(ctx.violations) + len(ctx.known_hits) > before


def run_streams(ctx, mod, broken_obligation):
    """step 4 of a check: every correspondence stream + oracle of the property, in this process"""
    stats = {}
    drivers = {}

    def driver_for(stream):
        path = getattr(stream, "driver", None) or getattr(mod, "DRIVER", None)
        if not path:
            return None
        if path not in drivers:
            drivers[path] = C.LeanDriver(path)
        return drivers[path]
    streams = mod.streams(ctx)
    try:
        for s in streams:
            driver = driver_for(s)
            s.setup(ctx)
            try:
                st = run_stream(ctx, mod, s, driver, stats, budget_scale=4.0 if broken_obligation else 1.0)
                if st["disagreements"]:
                    # never silent, never by itself a property violation: search for a failing input first
                    if not ctx.violations:
                        failing_input_search(ctx, mod, s, driver, stats, st["disagreements"])
                    if not ctx.violations:
                        report_unexplained(ctx, f"correspondence stream {s.name}", st["disagreements"][:3])
                if st["impl_errors"] and not ctx.violations:
                    # the real code could not be observed on generated inputs (it crashed outside anything the
                    # stream classifies): the correspondence no longer checks
                    report_unexplained(ctx, f"correspondence stream {s.name} (implementation not observable)",
                                       st["impl_errors"][:3])
            finally:
                s.teardown(ctx)
        if broken_obligation and not ctx.violations:
            report_unexplained(ctx, broken_obligation[0], broken_obligation[1])
    finally:
        for d in drivers.values():
            d.close()
    return stats


def _shard_dump(ctx, stats, out):
    js = {}
    for name, st in stats.items():
        js[name] = dict(st, nontrivial_hashes=sorted(st["nontrivial_hashes"]), samples=[],
                        disagreements=[{"diff": d.get("diff")} for d in st["disagreements"][:3]], impl_errors=st["impl_errors"][:3])
    payload = {
        "stats": js, "known_hits": ctx.known_hits,
        "violations": [[f.to_json() if f is not None else None, str(p), tail] for f, p, tail in ctx.violations],
    }
    with open(out, "w") as fh:
        json.dump(payload, fh, default=str)


def shard_main(prop, tier, seed, k, out):
    """worker of a sharded thorough run: streams only (the parent built and audited the theorems)"""
    ctx = Ctx(prop, tier, seed * 1000003 + k)
    ctx.shard = k
    mod = importlib.import_module(f"props.{prop.lower()}")
    stats = run_streams(ctx, mod, None)
    _shard_dump(ctx, stats, out)
    return 0


def _merge_shard(ctx, stats, payload):
    for name, st in payload["stats"].items():
        cur = stats.setdefault(name, {"evaluations": 0, "nontrivial_hashes": set(), "disagreements": [], "features": {},
                                      "samples": [], "impl_errors": [], "corpus": 0})
        cur["evaluations"] += st["evaluations"]
        cur["nontrivial_hashes"] |= set(st["nontrivial_hashes"])
        for ft, n in st["features"].items():
            cur["features"][ft] = cur["features"].get(ft, 0) + n
        cur["disagreements"] += st["disagreements"]
        cur["impl_errors"] += st["impl_errors"]
    for sig, summary in payload["known_hits"].items():
        ctx.known_hits.setdefault(sig, summary)
    for fj, path, tail in payload["violations"]:
        f = C.Failure(fj["signature"], fj["message"], fj.get("details")) if fj else None
        if f is not None and any(g is not None and g.signature == f.signature for g, _, _ in ctx.violations):
            continue
        ctx.violations.append((f, path, tail))


def run_streams_sharded(ctx, mod, broken_obligation, nshards):
    """thorough tier: shard 0 (corpus + base seed) in this process, shards 1..n-1 as worker processes with derived
    seeds; everything they found is merged (evaluations add up, violations are deduplicated by signature)"""
    import subprocess
    import tempfile
    tmpd = tempfile.mkdtemp(prefix="lccverif-shards-")
    procs = []
    for k in range(1, nshards):
        out = os.path.join(tmpd, f"shard{k}.json")
        cmd = [sys.executable, os.path.abspath(__file__), ctx.prop, "--tier", ctx.tier, "--shard", str(k), "--shard-out", out]
        procs.append((k, out, subprocess.Popen(cmd, cwd=str(C.VERIF), stdout=subprocess.PIPE, stderr=subprocess.STDOUT, text=True)))
    try:
        stats = run_streams(ctx, mod, broken_obligation)
        for k, out, pr in procs:
            try:
                log, _ = pr.communicate(timeout=7200)
            except subprocess.TimeoutExpired:
                pr.kill()
                raise C.InfraError(f"shard {k} timed out")
            if pr.returncode != 0 or not os.path.exists(out):
                raise C.InfraError(f"shard {k} failed (exit {pr.returncode}):\n{(log or '')[-3000:]}")
            _merge_shard(ctx, stats, json.load(open(out)))
    finally:
        for _, _, pr in procs:
            if pr.poll() is None:
                pr.kill()
        import shutil
        shutil.rmtree(tmpd, ignore_errors=True)
    return stats


def check(prop, tier, seed):
    ctx = Ctx(prop, tier, seed)
    mod = importlib.import_module(f"props.{prop.lower()}")
    cov = {"streams": {}, "lean": {}}
    broken_obligation = None

    # ---- 1. tables regenerated from /repo ----------------------------------------------------
    table_info = []
    extra_targets = []
    if hasattr(mod, "tables"):
        tabs = mod.tables(ctx)
        C.write_tables(prop, tabs, opens=getattr(mod, "TABLE_OPENS", ()))
        extra_targets.append(f"LccModel.Generated.{prop}TablesCheck")
        table_info = [{"table": t.name, "rows": len(t.rows), "sample": t.rows[0][2] if t.rows else None} for t in tabs]

    # ---- 2. build theorems + table obligations ----------------------------------------------
    ok, out = C.lake_build(list(mod.LEAN_MODULES))
    if not ok:
        raise C.InfraError("property theorems do not build (this does not depend on /repo):\n" + out[-4000:])
    if extra_targets:
        ok, out = C.lake_build(extra_targets)
        if not ok:
            broken_obligation = ("table obligation " + ", ".join(extra_targets), out[-3000:])

    # ---- 3. hygiene + axiom audit ------------------------------------------------------------
    hits = C.forbidden_tokens(C.lean_sources())
    if hits:
        raise C.InfraError(f"forbidden tokens in Lean sources: {hits[:10]}")
    names = []
    for pf in mod.PROPS_FILES:
        names += C.theorem_names(pf, mod.NAMESPACES[pf])
    ax = C.audit_axioms(prop, list(mod.LEAN_MODULES), names)
    bad = {n: a for n, a in ax.items() if not set(a) <= C.STD_AXIOMS}
    if bad:
        raise C.InfraError(f"non-standard axioms: {bad}")
    leanchecker = None
    if tier == "thorough":
        # independent re-check of the compiled theorems by the toolchain's `leanchecker`
        import subprocess
        r = subprocess.run(["lake", "env", "leanchecker", *mod.LEAN_MODULES], cwd=C.LEAN_DIR, capture_output=True, text=True,
                           timeout=1800, env=C._env())
        if r.returncode != 0:
            raise C.InfraError("leanchecker rejected the compiled theorems:\n" + (r.stdout + r.stderr)[-3000:])
        leanchecker = "ok: " + " ".join(mod.LEAN_MODULES)
    obligations = len(names) + len(table_info)
    discharged = len(names) + (0 if broken_obligation else len(table_info))
    cov["lean"] = {"leanchecker": leanchecker, "theorems": names, "axioms_used": sorted({a for v in ax.values() for a in v}), "tables": table_info}

    # ---- 4. correspondence streams + oracles -------------------------------------------------
    nshards = int(os.environ.get("VERIF_SHARDS", "6" if tier == "thorough" else "1") or 1)
    if nshards > 1:
        stats = run_streams_sharded(ctx, mod, broken_obligation, nshards)
    else:
        stats = run_streams(ctx, mod, broken_obligation)

    # ---- 5. evidence ---------------------------------------------------------------------------
    evaluations = sum(s["evaluations"] for s in stats.values())
    nontrivial = sum(len(s["nontrivial_hashes"]) for s in stats.values())
    samples = []
    for name, s in stats.items():
        for smp in s["samples"][:2]:
            samples.append({"stream": name, **smp})
        cov["streams"][name] = {
            "evaluations": s["evaluations"], "distinct_nontrivial": len(s["nontrivial_hashes"]),
            "disagreements": len(s["disagreements"]), "features": s["features"], "corpus_cases": s["corpus"],
        }
    for n in names[:3]:
        samples.append({"obligation": n, "axioms": ax[n]})
    evidence = {
        "property_id": prop, "tier": tier, "seed": seed, "level": "proof",
        "coverage": {
            "obligations": obligations, "discharged": discharged,
            "checker_cmd": f"cd lean && lake build {' '.join(list(mod.LEAN_MODULES) + extra_targets)} && #print axioms on every property theorem",
            "trusted_base": list(mod.TRUSTED_BASE),
            "evaluations": max(evaluations, 1), "distinct_nontrivial": nontrivial,
            "rule": mod.RULE, "samples": samples[:8],
            "traces_validated_against_impl": evaluations,
            "known_findings_hit": sorted(ctx.known_hits), "detail": cov,
            "explanation": getattr(mod, "EXPLANATION", ""),
        },
        "assumptions": list(mod.ASSUMPTIONS),
        "wall_s": round(time.time() - ctx.t0, 2),
        "violations": len(ctx.violations),
    }
    C.EVIDENCE_DIR.mkdir(exist_ok=True)
    (C.EVIDENCE_DIR / f"{prop}.json").write_text(json.dumps(evidence, indent=1, default=str))

    # ---- 6. verdict --------------------------------------------------------------------------
    for sig, summary in sorted(ctx.known_hits.items()):
        print(f"KNOWN-FINDING: property={prop} {sig}: {summary}")
    # failing inputs first; a correspondence / obligation that no longer checks is only reported as such
    # (no-failing-input-found) when no failing input was found by any stream
    with_input = [v for v in ctx.violations if v[0] is not None]
    ctx.violations = with_input if with_input else ctx.violations
    for failure, path, tail in ctx.violations[:5]:
        rel = os.path.relpath(path, C.VERIF)
        print(f"VIOLATION property={prop} replay={rel}" + (f" {tail}" if tail else ""))
    print(f"[{prop}] tier={tier} seed={seed} obligations={discharged}/{obligations} evaluations={evaluations} "
          f"nontrivial={nontrivial} violations={len(ctx.violations)} wall={evidence['wall_s']}s")
    return 1 if ctx.violations else 0


def replay(prop, path):
    mod = importlib.import_module(f"props.{prop.lower()}")
    payload = json.loads(open(path).read())
    if payload.get("kind") != "oracle-failure":
        print(json.dumps(payload, indent=1)[:4000])
        print("replay: this file names an obligation/correspondence that no longer checks; re-run the check itself")
        return 1
    ctx = Ctx(prop, "quick", payload.get("seed", 0))
    for s in mod.streams(ctx):
        if s.name == payload["stream"]:
            s.setup(ctx)
            try:
                obs, fails, err = run_case(s, payload["case"])
            finally:
                s.teardown(ctx)
            print("observed:", json.dumps(obs)[:3000])
            if err:
                print("error:", err)
                return 2
            for f in fails:
                print(f"FAIL {f.signature}: {f.message}")
            print("replay: property", "VIOLATED" if fails else "holds", "on this case")
            return 1 if fails else 0
    print("unknown stream", payload["stream"])
    return 2


def main():
    ap = argparse.ArgumentParser()
    ap.add_argument("prop")
    ap.add_argument("--tier", default=os.environ.get("VERIF_TIER", "quick"), choices=["quick", "thorough"])
    ap.add_argument("--replay")
    ap.add_argument("--shard", type=int, default=0)
    ap.add_argument("--shard-out")
    a = ap.parse_args()
    seed = int(os.environ.get("VERIF_SEED", "0") or 0)
    os.environ[C.HOOK_GUARD] = "1"
    try:
        if a.replay:
            sys.exit(replay(a.prop, a.replay))
        if a.shard:
            sys.exit(shard_main(a.prop, a.tier, seed, a.shard, a.shard_out))
        sys.exit(check(a.prop, a.tier, seed))
    except C.InfraError as e:
        print(f"INFRA-ERROR [{a.prop}]: {e}", file=sys.stderr)
        sys.exit(2)
    except Exception:
        traceback.print_exc()
        sys.exit(2)


if __name__ == "__main__":
    main()

"""
run_project(): one run of the REAL runner on a generated project, under the recorder.

    obs = {
      "graph":   {"tasks": [{"kind", "path", "succ", "compl"}]}       from the REAL build_tasks (run_tasks wrapped); None if never reached
      "trace":   [record]                                            design.d/run-schema.md; one global order (every append under rec.lock);
                                                                     plus ["handler-exit"] when AsyncEventManager._handler_loop returns
      "outcome": {"returned": bool} | {"raised": cls, "text": str} | {"hang": true}
      "report":  gen.reports.canon_report(session.report) | None (+ "report_error")     insertion order, ranks kept
      "report_view": gen.reports.nf_report(session.report)           children through the real rank-sorted accessors (C05 oracle)
      "attachments": [[raw file name, size, content]]                listing of <report_dir>/attachments before it is removed
      "att_names":   [[trace index of the fire record, raw "attachments/%04d_name"]]   (the trace carries the un-prefixed name)
      "fire_raw":    [[event.time in ms, event.thread_id | None]]    k-th entry = k-th fire record, before canonicalisation
      "results": [[result class, reason|None]] per task              task.result after the run ("success"|"failure"|"skipped"|"exception"|"none")
      "threads": {"<int>": {"kind": "main|worker|lcc|other", "parent": int|None}}      0 = the caller of run_suites
      "fx_tokens": {"<trace index of a fixture enter record>": token}
      "injected": [[test path, {injected fixture name: token|None}]]  what bodies read from their suite object
      "pending_failure_at": trace length when AsyncEventManager._pending_failure was set | None
      "thread_deaths": [[thread int|None, cls, text]]                 exceptions that escaped a thread (threading.excepthook)
      "api_errors", "released" (gate release order), "gate_watchdog", "watchdog", "dump", "nb_events"
    }

Seams (no /repo edit): Session.create(RecEM.load(), [RecBackend()], …); lemoncheesecake.task.{Pool,Queue,handle_task,
skip_task,run_task} via obs.schedrec.patched; lemoncheesecake.runner.{run_tasks,RunContext} replaced for the duration of
the run by a graph-capturing wrapper / a recording subclass.
"""
import os
import random
import re
import shutil
import sys
import tempfile
import threading
import traceback

import common as C  # noqa: F401  (puts $LCC_REPO in front of sys.path)
import lemoncheesecake.runner as LR
import lemoncheesecake.task as LT
from gen import reports as R
from lemoncheesecake.events import AsyncEventManager, EventManager
from lemoncheesecake.reporting.backend import ReportingBackend, ReportingSession, ReportingSessionBuilderMixin
import lemoncheesecake.reporting.backends.console as CON
from lemoncheesecake.session import Session
from obs import schedrec

from run import build as B
from run.interp import Interp, ThreadNamer

_ATT = re.compile(r"^(attachments/)\d{4}_")

KINDS = {"TestSessionSetupTask": "sessSetup", "TestSessionTeardownTask": "sessTeardown", "SuiteBeginningTask": "begin",
         "SuiteInitializationTask": "init", "TestTask": "test", "SuiteTeardownTask": "teardown", "SuiteEndingTask": "end"}


class CustomBackendError(Exception):
    """a user-defined exception class with the usual one-string constructor"""


class _Response:
    def __init__(self, status, reason):
        self.status, self.reason = status, reason


class ResponseBackendError(Exception):
    """built from a response object (as HTTP client libraries do): the constructor fails with AttributeError on a str"""

    def __init__(self, response):
        super().__init__("%d %s" % (response.status, response.reason))
        self.response = response


class StrictBackendError(Exception):
    """validates its argument: the constructor fails with ValueError on anything but a mapping"""

    def __init__(self, fields):
        if not isinstance(fields, dict):
            raise ValueError("fields must be a mapping")
        super().__init__(", ".join("%s=%s" % kv for kv in sorted(fields.items())))


class TwoArgBackendError(Exception):
    """needs two positional arguments: the constructor fails with TypeError on a single message"""

    def __init__(self, code, message):
        super().__init__("[%s] %s" % (code, message))


def make_fault(cls, text):
    if cls == "Exception":
        return Exception(text)
    if cls == "KeyError":
        return KeyError(text)
    if cls == "OSError":
        return OSError(5, text)
    if cls == "UnicodeEncodeError":
        return UnicodeEncodeError("ascii", "\xe9", 0, 1, text)
    if cls == "Custom":
        return CustomBackendError(text)
    if cls == "Response":
        return ResponseBackendError(_Response(503, text))
    if cls == "Strict":
        return StrictBackendError({"why": text})
    if cls == "TwoArg":
        return TwoArgBackendError(7, text)
    if cls in PROTOCOL_FAULTS:
        return PROTOCOL_FAULTS[cls](text)
    raise ValueError(cls)


# exception classes that iteration / generator / interpreter protocols treat specially (a bare `next(it)` on an exhausted
# iterator in backend code, `await anext(..)`, a generator closed under the handler, `sys.exit()` / Ctrl-C semantics).
# The first two are ordinary `Exception`s; the last three are BaseExceptions that are no Exception.
PROTOCOL_FAULTS = {"StopIteration": StopIteration, "StopAsyncIteration": StopAsyncIteration, "GeneratorExit": GeneratorExit,
                   "SystemExit": SystemExit, "KeyboardInterrupt": KeyboardInterrupt}

# the constructors of Response / Strict / TwoArg cannot be called with one message: AttributeError, ValueError, TypeError
FAULT_CLASSES = ["Exception", "KeyError", "OSError", "UnicodeEncodeError", "Custom", "Response", "Strict", "TwoArg",
                 "StopIteration", "StopAsyncIteration"]
# ... and the BaseExceptions that are no Exception (D42, repaired; only used by streams that ask for them: `RunStream.p_base_fault`)
BASE_FAULT_CLASSES = ["GeneratorExit", "SystemExit", "KeyboardInterrupt"]


def canon_for_model(e):
    """fire-record event -> what the Lean model generates: payload texts blanked, reasons blanked (null stays null),
    md reduced to name/rank; loc, step description, tid, level, ok kept; t = 0"""
    d = dict(e)
    d["t"] = 0
    for k in ("msg", "details", "url", "file"):
        if k in d and d[k] is not None:
            d[k] = ""
    if d["e"] in ("check", "att", "url"):
        d["desc"] = ""
    if "reason" in d and d["reason"] is not None:
        d["reason"] = ""
    if "md" in d and d["md"] is not None:
        d["md"] = {"name": d["md"]["name"], "desc": "", "tags": [], "props": [], "links": [], "rank": d["md"]["rank"]}
    return d


class _Ctx:
    pass


class RecEM(AsyncEventManager):
    """fire = append ["fire", thread, event] and enqueue, both under the recorder's lock (so the k-th fire record is the
    k-th event the handler thread sees)"""
    ctx = None

    def fire(self, event):
        ctx = self.ctx
        with ctx.rec.cv:
            e = R.canon_event(event)
            # what the writer will actually receive: the event's own time (ms) and thread_id, un-canonicalised (C05.sched)
            ctx.fire_raw.append([e["t"], e.get("tid")])
            ctx.fire_names.append(event.__class__.get_name())
            e["t"] = 0
            th = ctx.namer("other")
            if "tid" in e:
                e["tid"] = th
            if e["e"] == "att":
                raw = e["file"]
                e["file"] = _ATT.sub(r"\1", raw)
                ctx.att_names.append([len(ctx.rec.trace), raw])
            event._lccverif_k = ctx.nfired
            ctx.nfired += 1
            ctx.rec.rec("fire", th, e)
            AsyncEventManager.fire(self, event)

    def _handler_loop(self):
        try:
            return AsyncEventManager._handler_loop(self)
        finally:
            # from here on a pending backend failure is definitely visible to every reader
            self.ctx.rec.rec("handler-exit")

    @property
    def _pending_failure(self):
        return self.__dict__.get("_pf", (None, None))

    @_pending_failure.setter
    def _pending_failure(self, v):
        ctx = self.ctx
        if ctx is None:
            self.__dict__["_pf"] = v
            return
        with ctx.rec.cv:
            self.__dict__["_pf"] = v
            if v[0] is not None and ctx.pending_failure_at is None:
                ctx.pending_failure_at = len(ctx.rec.trace)


class RecSession(ReportingSession):
    def __init__(self, ctx):
        self._ctx = ctx
        self._count = 0
        for ec in EventManager._get_event_classes():
            setattr(self, "on_" + ec.get_name(), self._handle)

    def _handle(self, event):
        ctx = self._ctx
        k = getattr(event, "_lccverif_k", None)
        if k != self._count:
            ctx.order_errors.append([self._count, k])
        self._count += 1
        f = ctx.fault
        if f is not None and f["k"] == k:
            ctx.rec.rec("backend-raise", k, f["cls"])
            raise make_fault(f["cls"], f["text"])
        ctx.rec.rec("handled", k)


class RecBackend(ReportingBackend, ReportingSessionBuilderMixin):
    def __init__(self, ctx):
        self._ctx = ctx

    def get_name(self):
        return "lccverif-recorder"

    def create_reporting_session(self, report_dir, report, parallel, report_saving_strategy):
        return RecSession(self._ctx)


class SubsetSession(ReportingSession):
    """a reporting session whose `on_<event>` handlers are set PER INSTANCE (as a backend session does when it enables its
    handlers according to its configuration): ONE class for every instance of every run of the process, different subsets
    of the event names per instance.  `got` = [event index, event name] of every call, in call order (handler thread)"""

    def __init__(self, names):
        self.names, self.got = list(names), []
        for n in names:
            setattr(self, "on_" + n, self._handle)

    def _handle(self, event):
        self.got.append([getattr(event, "_lccverif_k", None), event.__class__.get_name()])


class SubsetBackend(ReportingBackend, ReportingSessionBuilderMixin):
    def __init__(self, names):
        self.session = SubsetSession(names)

    def get_name(self):
        return "lccverif-subset"

    def create_reporting_session(self, report_dir, report, parallel, report_saving_strategy):
        return self.session


def event_names():
    """names of the event classes of the tree under test, in the order `add_listener` walks them"""
    return [ec.get_name() for ec in EventManager._get_event_classes()]


# per-instance handler sets by name: "starts" < "starts+ends" < "all"; the steps and records only; the results only
def listener_events(shape):
    names = event_names()
    if shape == "all":
        return names
    if shape == "starts":
        return [n for n in names if n.endswith("_start")]
    if shape == "starts+ends":
        return [n for n in names if n.endswith("_start") or n.endswith("_end")]
    if shape == "records":
        return [n for n in names if n.startswith("log") or n.startswith("check") or n.startswith("step")]
    if shape == "tests":
        return [n for n in names if n.startswith("test_") and "session" not in n]
    raise ValueError(shape)


LISTENER_SHAPES = ["all", "starts", "starts+ends", "records", "tests"]


def _file_backend(name):
    if name == "json":
        from lemoncheesecake.reporting.backends.json_ import JsonBackend
        return JsonBackend()
    if name == "xml":
        from lemoncheesecake.reporting.backends.xml import XmlBackend
        return XmlBackend()
    if name == "junit":
        from lemoncheesecake.reporting.backends.junit import JunitBackend
        return JunitBackend()
    raise ValueError(name)


_SAVED_FILES = {"json": "report.js", "xml": "report.xml", "junit": "report-junit.xml"}


def _read_saved(name, report_dir):
    """the saved file as its readers see it: json / xml through the REAL `load_report` (then the rank-sorted accessors);
    junit: the (name, failures / errors / skipped) of every <testcase>, in file order"""
    path = os.path.join(report_dir, _SAVED_FILES[name])
    out = {"exists": os.path.exists(path), "view": None, "error": None}
    if not out["exists"]:
        return out
    try:
        if name == "junit":
            import xml.etree.ElementTree as ET
            root = ET.parse(path).getroot()
            out["view"] = [[ts.get("name"), [[tc.get("name"), sorted(c.tag for c in tc)] for tc in ts.iter("testcase")]]
                           for ts in root.iter("testsuite")]
        else:
            from lemoncheesecake.reporting import load_report
            out["view"] = R.nf_report(load_report(path))
    except Exception as e:
        out["error"] = "%s: %s" % (type(e).__name__, str(e)[:300])
    return out


def extract_graph(tasks):
    idx = {id(t): i for i, t in enumerate(tasks)}
    out = []
    for t in tasks:
        node = getattr(t, "test", None) or getattr(t, "suite", None)
        out.append({"kind": KINDS.get(type(t).__name__, type(t).__name__),
                    "path": [n.name for n in node.hierarchy] if node is not None else None,
                    "succ": [idx.get(id(d), -1) for d in t.get_on_success_dependencies()],
                    "compl": [idx.get(id(d), -1) for d in t.get_on_completion_dependencies()]})
    return {"tasks": out}


def _result_of(task):
    r = task.result
    if r is None:
        return ["none", None]
    return [type(r).__name__.replace("TaskResult", "").lower(), getattr(r, "reason", None)]


def _dump(ctx, nb=40):
    out = ["--- last records ---"] + [repr(r)[:300] for r in ctx.rec.trace[-nb:]]
    out.append("--- waiters: %r inflight=%d finished=%d received=%d main_in_get=%s" % (
        [w[0] for w in ctx.rec.waiters], ctx.rec.inflight, ctx.rec.finished, ctx.rec.received, ctx.rec.main_in_get))
    frames = sys._current_frames()
    for th in threading.enumerate():
        fr = frames.get(th.ident)
        if fr is not None:
            out.append("--- thread %s daemon=%s ---" % (th.name, th.daemon))
            out += [ln.rstrip() for ln in traceback.format_stack(fr)[-6:]]
    return "\n".join(out)


class _NullOut:
    """where the real console backend writes during a recorded run"""

    def write(self, s):
        return len(s)

    def flush(self):
        pass

    def isatty(self):
        return False


class _ConsoleSys:
    """stands in for the `sys` module global of reporting/backends/console.py (it only uses `sys.stdout`)"""
    stdout = _NullOut()


PROJECT_HOOK_KINDS = ("none", "pass", "user", "other", "user-if-failed", "other-if-failed")
PRE_RUN_TEXT = "pre_run: the environment is not ready"
POST_RUN_TEXT = "post_run: cannot publish the results"


def _run_through_project(hooks, em, side, ctx, suites, registry, backends, report_dir, saving_strategy, force_disabled, stop_on_failure, n):
    """the run as `lcc run` starts it: PreparedProject(project, suites, registry, cli_args).run(backends, report_dir, strategy, …);
    the event manager the real code asks for (`AsyncEventManager.load()`) is the recording one, `run_suites` is recorded"""
    import lemoncheesecake.project as LP
    from lemoncheesecake.exceptions import UserError
    calls = side["project_calls"] = []

    def failed():
        # "the run did not complete": what a post_run hook publishing the backend's output would find out
        return ctx.pending_failure_at is not None or em.get_pending_failure()[0] is not None

    def hook(name, kind, text):
        def call(self, cli_args, report_dir):
            k = kind
            if k.endswith("-if-failed"):
                k = k[:-len("-if-failed")] if failed() else "pass"
            if k == "user":
                calls.append(name + ":UserError")
                raise UserError(text)
            if k == "other":
                calls.append(name + ":RuntimeError")
                raise RuntimeError(text)
            calls.append(name + ":ok")
        return call
    ns = {}
    if hooks.get("pre", "none") != "none":
        ns["pre_run"] = hook("pre_run", hooks["pre"], PRE_RUN_TEXT)
    if hooks.get("post", "none") != "none":
        ns["post_run"] = hook("post_run", hooks["post"], POST_RUN_TEXT)
    proj = type("LccverifProject", (LP.Project,), ns)(report_dir)

    class _EMLoader:
        @staticmethod
        def load():
            return em

    def run_suites(*a, **k):
        calls.append("run_suites")
        side["session"] = a[2]
        return LR.run_suites(*a, **k)
    saved = (LP.AsyncEventManager, LP.run_suites)
    LP.AsyncEventManager, LP.run_suites = _EMLoader, run_suites
    try:
        report = LP.PreparedProject(proj, suites, registry, ()).run(
            backends, report_dir, saving_strategy, force_disabled=force_disabled, stop_on_failure=stop_on_failure, nb_threads=n)
        return report.is_successful()
    finally:
        LP.AsyncEventManager, LP.run_suites = saved


def run_project(project, strategy="off", gate_seed=0, interrupt_at=None, backend_fault=None, watchdog=30.0,
                gate_watchdog=10.0, stall=8.0, builder=None, console=True, listeners=None, file_backends=None,
                saving=None, start_gates=False, project_hooks=None):
    """
    project_hooks None (the run is started with `runner.run_suites`) | {"pre": kind, "post": kind}: the run is started through the
                  PROJECT-LEVEL entry point `PreparedProject.run` (what `lcc run` calls) of a `Project` subclass whose pre_run / post_run
                  hooks are of the given kinds (PROJECT_HOOK_KINDS: "none" = not overridden, "pass", "user" = raises lcc.UserError,
                  "other" = raises RuntimeError, "user-if-failed" / "other-if-failed" = raises only when the run did not complete,
                  i.e. a reporting backend failed); obs["project_calls"] = ["pre_run:ok" | "pre_run:UserError" | "pre_run:RuntimeError",
                  "run_suites", "post_run:…"] in call order; obs["outcome"] is what the caller of PreparedProject.run saw
                  (seams: module globals AsyncEventManager / run_suites of lemoncheesecake.project)
    strategy      "off" | "fifo" | "lifo" | "random"   gate controller (obs.schedrec)
    start_gates   every task (of ANY kind: suite beginning / setup / test / teardown / end …) is held at a gate by the worker that took
                  it, BEFORE anything of it runs: the gate strategy then chooses the order in which tasks dispatched in one batch
                  start (e.g. "lifo": the one dispatched last starts first) — two tasks that the graph does not order really run in
                  both orders, so a dependency edge missing from the graph shows as a failing run; needs a gate strategy
    interrupt_at  None | ["get", k]                    KeyboardInterrupt instead of the k-th blocking completed-queue get
                  | ["quiescent", k]                   KeyboardInterrupt at the k-th quiescent point of the gate controller (all
                                                       in-flight tasks held at gates, dispatcher waiting); needs a gate strategy
    backend_fault None | {"k": int, "cls": one of FAULT_CLASSES, "text": str}   the recording backend raises on the k-th (0-based) event
    watchdog      seconds for the WHOLE run; beyond it the case is aborted (state dumped, gates released) with outcome {"hang": true}
    builder       None (run/build.py: objects built directly) | callable (project, interp) -> (suites, fixture registry), e.g. the
                  declared route of props/_declrun.py (source + decorators + the real class loader)
    listeners     None | list of shapes (LISTENER_SHAPES): further reporting sessions, all of ONE class (`SubsetSession`) whose
                  `on_<event>` handlers are set per instance, attached after the recording backend in the given order;
                  obs["listeners"] = [{"shape", "events", "got": [[event index, event name]]}], obs["fire_names"]
    file_backends None | list of "json" / "xml" / "junit": the REAL file backends, attached after the recording backend (and the
                  extra listeners) as `lcc run --reporting json junit` does, writing into the run's scratch report directory
    saving        None | "at_each_test" | "at_each_failed_test" | "at_each_log" | "at_each_suite" | "at_end_of_tests": the
                  `--save-report` expression, turned into a strategy by the real `make_report_saving_strategy`
                  obs["saved"] = {backend: {"view": nf_report(load_report(file)) | None, "error": str | None, "exists": bool}}
                  — the file as the real `load_report` reads it back, before the scratch directory is removed
    console       attach the REAL console backend too (as `lcc run` does by default), after the recording backend: its handlers run
                  on the same event-handling thread as the report writer's — sequential flavour with 1 worker thread, parallel
                  flavour otherwise; what it prints is discarded (module globals `sys` / `print` of console.py replaced for the run)
    """
    n = project["nb_threads"]
    ctx = _Ctx()
    rec = schedrec.Recorder(n, strategy=strategy, rng=random.Random(gate_seed),
                            interrupt_at=tuple(interrupt_at) if interrupt_at else None, watchdog=gate_watchdog)
    rec.verbose = True
    # generated user code never waits for anything but a gate: several seconds without a single record, with tasks in
    # flight and nobody held at a gate, is a worker that is stuck (a hang is then reported after `stall`, not after
    # the whole-run watchdog)
    rec.stall_seconds = stall
    if start_gates and strategy != "off":
        rec.start_gate = lambda task: ["task-start", rec.tid(task)]
    namer = ThreadNamer(rec.lock)
    rec.thread_namer = lambda: namer("worker")
    ctx.rec, ctx.namer, ctx.fault = rec, namer, backend_fault
    ctx.att_names, ctx.nfired, ctx.order_errors, ctx.pending_failure_at = [], 0, [], None
    ctx.fire_raw = []
    ctx.fire_names = []
    interp = Interp(rec, namer)
    side = {"graph": None, "tasks": None, "outcome": None, "session": None, "deaths": [], "listeners": []}

    def run_tasks_wrapper(tasks, context, nb_threads=1):
        with rec.cv:
            side["tasks"] = list(tasks)           # keeps the objects alive: id() stays unique
            for i, t in enumerate(tasks):
                rec.ids[id(t)] = i
                rec.names[i] = str(t)
            side["graph"] = extract_graph(tasks)
        return LT.run_tasks(tasks, context, nb_threads)

    BaseRunContext = LR.RunContext

    class RecRunContext(BaseRunContext):
        # the abort flag is set and recorded, and the context is read and recorded, under the recorder's lock: the
        # order of the `interrupt` and `ctx` records is then the order of the effects (without it a worker could read
        # the flag between the `interrupt` record and the assignment, and the trace would show a task run "after" the
        # interrupt — seen once in 96 000 runs of a thorough tier)
        def is_task_to_be_skipped(self, task):
            with rec.cv:
                r = BaseRunContext.is_task_to_be_skipped(self, task)
                rec.rec("ctx", rec.tid(task), r if r else None)
            return r

        def enable_task_abort(self):
            with rec.cv:
                rec.rec("interrupt")
                return BaseRunContext.enable_task_abort(self)

    class EM(RecEM):
        pass
    EM.ctx = ctx

    tmp = tempfile.mkdtemp(prefix="lccverif-run-")
    old_instance = Session._instance
    old_hook = threading.excepthook
    saved = (LR.run_tasks, LR.RunContext)

    def hook(args):
        th = args.thread
        with rec.cv:
            side["deaths"].append([namer.ids.get(th), args.exc_type.__name__, str(args.exc_value)[:300]])

    def body():
        namer.register_main()
        interp.main_thread = threading.current_thread()
        try:
            suites, registry = (builder or B.build_project)(project, interp)
            registry.check_dependencies()
            registry.check_fixtures_in_suites(suites)
        except Exception as e:
            side["outcome"] = {"invalid": type(e).__name__, "text": str(e)}
            return
        em = EM.load()
        side["em"] = em
        backends = [RecBackend(ctx)]
        for shape in listeners or []:
            b = SubsetBackend(listener_events(shape))
            side["listeners"].append((shape, b.session))
            backends.append(b)
        for name in file_backends or []:
            backends.append(_file_backend(name))
        if console:
            backends.append(CON.ConsoleBackend())
        strategy = None
        if saving:
            from lemoncheesecake.reporting.savingstrategy import make_report_saving_strategy
            strategy = make_report_saving_strategy(saving)
        if project_hooks is None:
            session = Session.create(em, backends, tmp, strategy, nb_threads=n)
            side["session"] = session
        try:
            if project_hooks is not None:
                ret = _run_through_project(project_hooks, em, side, ctx, suites, registry, backends, tmp, strategy,
                                           project["force_disabled"], project["stop_on_failure"], n)
            else:
                ret = LR.run_suites(suites, registry, session, force_disabled=project["force_disabled"],
                                    stop_on_failure=project["stop_on_failure"], nb_threads=n)
            side["outcome"] = {"returned": bool(ret)}
        except schedrec.HangDetected:
            side["outcome"] = {"hang": True}
        except BaseException as e:  # classified, never propagated: the observation says what the caller saw
            side["outcome"] = {"raised": type(e).__name__, "text": str(e)}

    obs = {"watchdog": False, "dump": None, "fault": backend_fault, "interrupt": list(interrupt_at) if interrupt_at else None,
           "strategy": strategy, "gate_seed": gate_seed}
    con_saved = (CON.__dict__.get("sys"), CON.__dict__.get("print"))
    try:
        threading.excepthook = hook
        if console:
            CON.sys, CON.print = _ConsoleSys, (lambda *a, **k: None)
        with schedrec.patched(rec):
            LR.run_tasks, LR.RunContext = run_tasks_wrapper, RecRunContext
            try:
                th = threading.Thread(target=body, daemon=True, name="lccverif-run")
                th.start()
                th.join(watchdog)
                if th.is_alive():
                    obs["watchdog"] = True
                    obs["dump"] = _dump(ctx)
                    rec.stop_controller()                    # releases every gate, later gates do not block
                    th.join(3.0)
                    if th.is_alive():
                        q = getattr(side.get("em"), "_queue", None)
                        if q is not None:
                            q.put(None)                      # lets the (non-daemon) handler thread end
                    side["outcome"] = {"hang": True}
            finally:
                LR.run_tasks, LR.RunContext = saved
        with rec.cv:
            trace = list(rec.trace)
        obs.update({
            "graph": side["graph"], "trace": trace, "outcome": side["outcome"] or {"hang": True},
            "results": [_result_of(t) for t in side["tasks"]] if side["tasks"] else [],
            "threads": {str(k): v for k, v in namer.info.items()},
            "fx_tokens": {str(k): v for k, v in interp.fx_tokens.items()},
            "injected": list(interp.injected_seen), "api_errors": list(interp.api_errors),
            "att_names": list(ctx.att_names), "fire_raw": list(ctx.fire_raw), "pending_failure_at": ctx.pending_failure_at,
            "thread_deaths": list(side["deaths"]), "released": [list(x) if isinstance(x, (list, tuple)) else x for x in rec.released],
            "gate_watchdog": rec.watchdog_fired, "order_errors": list(ctx.order_errors), "nb_events": ctx.nfired,
        })
        if project_hooks is not None:
            obs["project_hooks"] = dict(project_hooks)
            obs["project_calls"] = list(side.get("project_calls") or [])
        if listeners:
            obs["fire_names"] = list(ctx.fire_names)
            obs["listeners"] = [{"shape": shape, "events": list(ls.names), "got": list(ls.got)} for shape, ls in side["listeners"]]
        session = side["session"]
        obs["report"] = None
        if session is not None:
            try:
                obs["report"] = R.canon_report(session.report)
                obs["report_view"] = R.nf_report(session.report)     # what every reader sees: rank-sorted REAL accessors
            except Exception as e:
                obs["report_error"] = "%s: %s" % (type(e).__name__, e)
        if file_backends:
            obs["saved"] = {name: _read_saved(name, tmp) for name in file_backends}
        att = []
        adir = os.path.join(tmp, "attachments")
        if os.path.isdir(adir):
            for name in sorted(os.listdir(adir)):
                p = os.path.join(adir, name)
                try:
                    with open(p, "r", errors="replace") as fh:
                        content = fh.read(4096)
                except OSError as e:
                    content = "<unreadable %s>" % e
                att.append([name, os.path.getsize(p), content])
        obs["attachments"] = att
        return C.jsonable(obs)
    finally:
        rec.stop_controller()
        if console:
            CON.sys = con_saved[0]
            if con_saved[1] is None:
                CON.__dict__.pop("print", None)
            else:
                CON.print = con_saved[1]
        threading.excepthook = old_hook
        Session._instance = old_instance
        shutil.rmtree(tmp, ignore_errors=True)


def handled_events(obs):
    """the stream the recording backend received: fire-record events in handled order"""
    fires = [r[2] for r in obs["trace"] if r[0] == "fire"]
    return [fires[r[1]] for r in obs["trace"] if r[0] == "handled"]

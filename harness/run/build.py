"""
Project description -> REAL lemoncheesecake objects: `(suites, fixture_registry)`.

Fixture functions, hooks and test callbacks are real Python functions built with `exec` so that they carry the
right parameter NAMES (what `helpers.introspection.get_callable_args` = `inspect.getfullargspec` reads); fixtures
go through the public `@lcc.fixture(...)` decorator and `load_fixtures_from_func` (one `Fixture` object per
registered name), suites are `lemoncheesecake.suite.core.Suite` objects whose `obj` is an instance of a generated
class carrying `lcc.inject_fixture(...)` attributes, dependencies are dotted-path strings resolved with
`resolve_tests_dependencies(suites, suites)` exactly as the CLI path does.
"""
import re

import lemoncheesecake.api as lcc
from lemoncheesecake.fixture import FixtureRegistry, load_fixtures_from_func
from lemoncheesecake.suite.core import Suite, Test, resolve_tests_dependencies

from run import gen as G


def ident(name):
    """a Python identifier for a node NAME (names may contain dots or other characters: `@lcc.test(name="v1.2")`,
    parametrized naming schemes; the function / class behind the node is named differently then)"""
    out = re.sub(r"\W", "_", str(name))
    return out if out.isidentifier() else "n_" + out


def make_func(name, params, impl):
    """def <name>(<params>): return impl({<param>: <param>, ...})"""
    for p in [name] + list(params):
        if not str(p).isidentifier():
            raise ValueError("not an identifier: %r" % (p,))
    src = "def %s(%s):\n    return _impl({%s})\n" % (
        name, ", ".join(params), ", ".join("%r: %s" % (p, p) for p in params))
    ns = {"_impl": impl}
    exec(src, ns)
    return ns[name]


def build_fixture_registry(project, interp):
    registry = FixtureRegistry()
    for fx in project["fixtures"]:
        func = make_func(fx["name"], fx["params"], interp.fixture_impl(fx))
        func = lcc.fixture(names=list(fx["names"]) if fx.get("names") else None, scope=fx["scope"],
                           per_thread=fx["per_thread"])(func)
        registry.add_fixtures(load_fixtures_from_func(func))
    return registry


def _build_suite(s, prefix, interp):
    path = prefix + [s["name"]]
    obj = None
    if s["injected"]:
        cls = type("Suite_" + ident(s["name"]), (), {n: lcc.inject_fixture(n) for n in s["injected"]})
        obj = cls()
    suite = Suite(obj, s["name"], "suite " + s["name"])
    suite.rank = s["rank"]
    suite.disabled = s["disabled"]
    if s["setup_suite"] is not None:
        script = s["setup_suite"]["script"]
        unit = ["hook", path, "setup_suite", None]
        suite.add_hook("setup_suite", make_func(
            "setup_suite", s["setup_suite"]["params"], lambda kw, unit=unit, script=script: interp.run_unit(unit, script, kw)))
    if s["teardown_suite"] is not None:
        unit = ["hook", path, "teardown_suite", None]
        suite.add_hook("teardown_suite", make_func(
            "teardown_suite", [], lambda kw, unit=unit, script=s["teardown_suite"]: interp.run_unit(unit, script, {})))
    if s["setup_test"] is not None:
        def setup_test_impl(kw, script=s["setup_test"]):
            interp.run_unit(["hook", path, "setup_test", [n.name for n in kw["test"].hierarchy]], script, {})
        suite.add_hook("setup_test", make_func("setup_test", ["test"], setup_test_impl))
    if s["teardown_test"] is not None:
        def teardown_test_impl(kw, script=s["teardown_test"]):
            interp.run_unit(["hook", path, "teardown_test", [n.name for n in kw["test"].hierarchy]], script, {})
        suite.add_hook("teardown_test", make_func("teardown_test", ["test", "status"], teardown_test_impl))
    for t in s["tests"]:
        tpath = path + [t["name"]]

        def body(kw, tpath=tpath, script=t["script"]):
            if obj is not None:
                seen = {n: getattr(obj, n, None) for n in s["injected"]}
                seen = {n: (v if isinstance(v, str) else None) for n, v in seen.items()}
                with interp.rec.cv:
                    interp.injected_seen.append([tpath, seen])
            interp.run_unit(["body", tpath], script, kw)
        test = Test(t["name"], "test " + t["name"], make_func(ident(t["name"]), t["fixtures"], body))
        test.rank = t["rank"]
        test.disabled = t["disabled"]
        test.dependencies = [".".join(d) for d in t["deps"]]
        suite.add_test(test)
    for sub in s["suites"]:
        suite.add_suite(_build_suite(sub, path, interp))
    return suite


def build_project(project, interp, resolve=True):
    """-> (suites, fixture_registry); `interp` is a run.interp.Interp (or anything with fixture_impl/run_unit/rec)"""
    registry = build_fixture_registry(project, interp)
    suites = [_build_suite(s, [], interp) for s in project["suites"]]
    if resolve:
        resolve_tests_dependencies(suites, suites)
    return suites, registry


def validate_with_real_code(project):
    """the real validation (what PreparedProject.create runs); raises the real ValidationError"""
    class _NoInterp:
        rec = None

        def fixture_impl(self, fx):
            return (lambda kw: iter(())) if fx["gen"] else (lambda kw: None)

        def run_unit(self, *a, **k):
            pass
    suites, registry = build_project(project, _NoInterp(), resolve=False)
    registry.check_dependencies()
    registry.check_fixtures_in_suites(suites)
    resolve_tests_dependencies(suites, suites)
    # what the built objects look like to the real introspection (guards the exec-built signatures)
    byname = G.fixtures_by_name(project)
    for n, fx in byname.items():
        f = registry.get_fixture(n)
        assert list(f.params) == list(fx["params"]) and f.scope == fx["scope"] and f.per_thread == fx["per_thread"], n
    from lemoncheesecake.testtree import flatten_suites
    real = {tuple(x.name for x in s.hierarchy): s for s in flatten_suites(suites)}
    for sp, s, dis in G.iter_suites(project):
        rs = real[tuple(sp)]
        assert list(rs.get_fixtures()) == G.suite_uses(s), (sp, list(rs.get_fixtures()))
        assert bool(rs.is_disabled()) == dis
        for t in s["tests"]:
            rt = rs.get_test_by_name(t["name"])
            assert rt.get_fixtures() == t["fixtures"]
            assert sorted(d.path for d in rt.resolved_dependencies) == sorted(".".join(d) for d in t["deps"])
    return True

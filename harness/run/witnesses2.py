"""
Hand-written corpus cases added after the seeded-change campaign (they run first in the streams that list them).
Kept apart from selftest.WITNESSES (which documents the known defects): these are CONTROLS — no failure is
expected on a correct tree — built to put the run in a situation where a whole class of regressions shows.
"""
from run.selftest import _p, _s, _t, _f, _cfg, _LOG, _GATE

_ERR = {"a": "log", "level": "error"}


def _case(project, cfg):
    return {"project": dict(project, nb_threads=cfg["n"]), "strategy": cfg["strategy"], "gseed": cfg["gseed"],
            "interrupt": cfg["interrupt"], "fault": cfg["fault"]}


def _named_thread(script, name="worker"):
    return {"a": "thread", "name": name, "script": script}


# two tests running at the same time, each with an lcc.Thread carrying the SAME explicit name, each thread held
# between two of its logs: whatever identifies "the emitting thread" by its name mixes the two tests up
SAME_NAMED_THREADS = _case(
    _p([_s("s0", [_t("t0", [], [_named_thread([_LOG, _GATE, _ERR])]),
                  _t("t1", [], [_named_thread([_LOG, _GATE, _LOG])], rank=2)])]),
    _cfg(2, "fifo"))

# the second thread stays silent after the gate (a mix-up then stays silent too: no writer assertion)
SAME_NAMED_THREADS_QUIET = _case(
    _p([_s("s0", [_t("t0", [], [_named_thread([_LOG, _GATE, _ERR])]),
                  _t("t1", [], [_named_thread([_LOG, _GATE])], rank=2)])]),
    _cfg(2, "fifo"))
SAME_NAMED_THREADS_QUIET2 = _case(
    _p([_s("s0", [_t("t0", [], [_named_thread([_LOG, _GATE])]),
                  _t("t1", [], [_named_thread([_LOG, _GATE, _ERR])], rank=2)])]),
    _cfg(2, "lifo"))

# the same with a step change in one of the threads
SAME_NAMED_THREADS_STEPS = _case(
    _p([_s("s0", [_t("t0", [], [_named_thread([_LOG, _GATE, {"a": "step", "d": "second"}, _LOG])]),
                  _t("t1", [], [_named_thread([_LOG, _GATE, _ERR], name="worker")], rank=2),
                  _t("t2", [], [_named_thread([_GATE, _LOG], name="worker")], rank=3)])]),
    _cfg(3, "lifo"))

# same-named sub-suites under different parents, open at the same time
SAME_NAMED_SUBSUITES = _case(
    _p([_s("a", [_t("t", [], [_GATE, _LOG])], suites=[_s("sub", [_t("x", [], [_GATE, _LOG]), _t("y", [], [_LOG], rank=2)])]),
        _s("b", [_t("t", [], [_GATE, _ERR])], suites=[_s("sub", [_t("x", [], [_GATE, _LOG]), _t("y", [], [_ERR], rank=2)])], rank=2)]),
    _cfg(4, "lifo"))

# (the quiet variants depend on which thread reaches its gate first: run them more than once)
# a reporting backend raising an exception WITHOUT message on an early event (D32, fixed by b5d635d): the remaining
# test bodies must not be started
EMPTY_BACKEND_ERROR = dict(_case(
    _p([_s("s0", [_t("t0", [], [_LOG]), _t("t1", [], [_LOG], rank=2), _t("t2", [], [_LOG], rank=3)])]), _cfg(1)),
    fault={"k": 3, "cls": "Exception", "text": ""})

CONTROLS = [SAME_NAMED_THREADS, SAME_NAMED_THREADS_QUIET, SAME_NAMED_THREADS_QUIET2, SAME_NAMED_THREADS_QUIET, SAME_NAMED_THREADS_QUIET2, SAME_NAMED_THREADS_STEPS, SAME_NAMED_SUBSUITES]

"""
Hand-written corpus cases added after the seeded-change campaign (they run first in the streams that list them).
Kept apart from selftest.WITNESSES (which documents the known defects): these are CONTROLS — no failure is
expected on a correct tree — built to put the run in a situation where a whole class of regressions shows.
"""
from run.selftest import _p, _s, _t, _f, _cfg, _LOG, _GATE

_ERR = {"a": "log", "level": "error"}


def _case(project, cfg):
    return {"project": dict(project, nb_threads=cfg["n"]), "strategy": cfg["strategy"], "gseed": cfg["gseed"],
            "interrupt": cfg["interrupt"], "fault": cfg["fault"]}


def _named_thread(script, name="worker"):
    return {"a": "thread", "name": name, "script": script}


# two tests running at the same time, each with an lcc.Thread carrying the SAME explicit name, each thread held
# between two of its logs: whatever identifies "the emitting thread" by its name mixes the two tests up
SAME_NAMED_THREADS = _case(
    _p([_s("s0", [_t("t0", [], [_named_thread([_LOG, _GATE, _ERR])]),
                  _t("t1", [], [_named_thread([_LOG, _GATE, _LOG])], rank=2)])]),
    _cfg(2, "fifo"))

# the second thread stays silent after the gate (a mix-up then stays silent too: no writer assertion)
SAME_NAMED_THREADS_QUIET = _case(
    _p([_s("s0", [_t("t0", [], [_named_thread([_LOG, _GATE, _ERR])]),
                  _t("t1", [], [_named_thread([_LOG, _GATE])], rank=2)])]),
    _cfg(2, "fifo"))
SAME_NAMED_THREADS_QUIET2 = _case(
    _p([_s("s0", [_t("t0", [], [_named_thread([_LOG, _GATE])]),
                  _t("t1", [], [_named_thread([_LOG, _GATE, _ERR])], rank=2)])]),
    _cfg(2, "lifo"))

# ... and a variant whose verdict does not depend on which thread is first: both threads log, both are held, both then
# log an error and are held again until the other one has logged its error too (fifo: the thread still at its first
# gate is released before the one that reached its second gate).  Whichever thread opened its step last, the OTHER
# one's error must still land in its own test.
SAME_NAMED_THREADS_BOTH_FAIL = _case(
    _p([_s("s0", [_t("t0", [], [_named_thread([_LOG, _GATE, _ERR, _GATE])]),
                  _t("t1", [], [_named_thread([_LOG, _GATE, _ERR, _GATE])], rank=2)])]),
    _cfg(2, "fifo"))

# the same with a step change in one of the threads
SAME_NAMED_THREADS_STEPS = _case(
    _p([_s("s0", [_t("t0", [], [_named_thread([_LOG, _GATE, {"a": "step", "d": "second"}, _LOG])]),
                  _t("t1", [], [_named_thread([_LOG, _GATE, _ERR], name="worker")], rank=2),
                  _t("t2", [], [_named_thread([_GATE, _LOG], name="worker")], rank=3)])]),
    _cfg(3, "lifo"))

# same-named sub-suites under different parents, open at the same time
SAME_NAMED_SUBSUITES = _case(
    _p([_s("a", [_t("t", [], [_GATE, _LOG])], suites=[_s("sub", [_t("x", [], [_GATE, _LOG]), _t("y", [], [_LOG], rank=2)])]),
        _s("b", [_t("t", [], [_GATE, _ERR])], suites=[_s("sub", [_t("x", [], [_GATE, _LOG]), _t("y", [], [_ERR], rank=2)])], rank=2)]),
    _cfg(4, "lifo"))

# (the quiet variants depend on which thread reaches its gate first: run them more than once)
# a reporting backend raising an exception WITHOUT message on an early event (D32, fixed by b5d635d): the remaining
# test bodies must not be started
EMPTY_BACKEND_ERROR = dict(_case(
    _p([_s("s0", [_t("t0", [], [_LOG]), _t("t1", [], [_LOG], rank=2), _t("t2", [], [_LOG], rank=3)])]), _cfg(1)),
    fault={"k": 3, "cls": "Exception", "text": ""})

# ---- second seeded campaign: input classes no generated project reached -----------------------------------------

def _blk(script):
    return {"a": "attachw", "script": list(script)}


_STEP = lambda d: {"a": "step", "d": d}      # noqa: E731
_ATT = {"a": "attach"}

# node NAMES containing dots (`@lcc.test(name="v1.2")`, parametrized naming schemes fed with versions / addresses,
# `@lcc.suite(name="api.v2")`): a path is a list of names, never the dotted string split again
DOTTED_NAMES = _case(
    _p([_s("compat", [_t("first", [], [_LOG]), _t("check_1.2", [], [_LOG, _STEP("more"), _ATT], rank=2)],
           suites=[_s("api.v2", [_t("ping_10.0.0.1", [], [_LOG])], setup_suite={"params": [], "script": [_LOG]},
                      teardown_suite=[_LOG])]),
        _s("pkg.mod", [_t("t", [], [_LOG])], rank=2)]),
    _cfg(1))
DOTTED_NAMES_THREADS = dict(DOTTED_NAMES, project=dict(DOTTED_NAMES["project"], nb_threads=3))

# `with lcc.prepare_attachment(..):` blocks whose body logs further attachments from the same thread (a nested block, a
# save_attachment), changes the step, starts and joins an lcc.Thread that saves an attachment itself; in a test body,
# a hook and a fixture.  Nothing may wait for the block to be left.
ATTACH_BLOCKS = _case(
    _p([_s("s0", [_t("t0", ["f0"], [_LOG, _blk([_ATT, _STEP("inside"), _blk([_LOG, _ATT]), _LOG]), _LOG]),
                  _t("t1", [], [_blk([{"a": "thread", "script": [_ATT, _blk([_LOG])]}]), _ATT], rank=2)],
           setup_test=[_blk([_ATT])])],
       [_f("f0", "test", [_blk([_blk([_ATT])])], teardown=[_blk([_ATT])])]),
    _cfg(2))
# ... and a block left by an exception (raised by its body; by a nested block): no attachment event, the failure is the
# test's, the blocks around it are left too
ATTACH_BLOCK_RAISES = _case(
    _p([_s("s0", [_t("t0", [], [_blk([_LOG, _blk([{"a": "raise", "kind": "exc"}]), _LOG]), _LOG]),
                  _t("t1", [], [_blk([{"a": "raise", "kind": "AbortSuite", "sub": True}])], rank=2),
                  _t("t2", [], [_LOG], rank=3)])]),
    _cfg(1))

# an lcc.Thread whose target raises lcc.AbortTest / AbortSuite / AbortAllTests itself, with nothing else failing in the
# test / the setup phase that started it: `Thread.run` logs it, the location is failed, nothing is aborted
ABORT_IN_THREAD = _case(
    _p([_s("workers", [_t("gives_up", [], [_LOG, {"a": "thread", "script": [_LOG, {"a": "raise", "kind": "AbortTest"}]}, _LOG]),
                       _t("suite_abort", [], [{"a": "thread", "script": [{"a": "raise", "kind": "AbortSuite"}]}], rank=2),
                       _t("all_good", [], [_LOG], rank=3)]),
        _s("downloads", [_t("download", [], [_LOG])], rank=2,
           setup_suite={"params": [], "script": [{"a": "thread", "script": [{"a": "raise", "kind": "AbortAllTests", "sub": True}]}]})]),
    _cfg(1))

# --stop-on-failure with 2 workers: s1.t1 is held in the setup_test hook of its suite while s0.t0 fails; the body of
# t1 then runs (it was started before the failure) — or t1 is not reported passed
STOP_ON_FAILURE_IN_SETUP = _case(
    _p([_s("s0", [_t("t0", [], [_GATE, _ERR])]),
        _s("s1", [_t("t1", [], [_LOG])], rank=2, setup_test=[_GATE, _GATE])], stop=True),
    _cfg(2, "fifo"))
STOP_ON_FAILURE_IN_FIXTURE = _case(
    _p([_s("s0", [_t("t0", [], [_GATE, _ERR])]),
        _s("s1", [_t("t1", ["f0"], [_LOG])], rank=2)],
       [_f("f0", "test", [_GATE, _GATE, _LOG], teardown=[_LOG])], stop=True),
    _cfg(2, "fifo"))

# one test depending on two SAME-NAMED tests of different suites (users.prepare + orders.prepare); the second one
# fails / is slow: the dependent test waits for both and is skipped
SAME_NAMED_DEPENDENCIES = _case(
    _p([_s("users", [_t("prepare", [], [_LOG])]),
        _s("orders", [_t("prepare", [], [_GATE, _ERR])], rank=2),
        _s("checkout", [_t("pay", [], [_LOG], deps=[["users", "prepare"], ["orders", "prepare"]]),
                        _t("refund", [], [_LOG], deps=[["checkout", "pay"]], rank=2)], rank=3)]),
    _cfg(3, "fifo"))
SAME_NAMED_DEPENDENCIES_SEQ = dict(SAME_NAMED_DEPENDENCIES, project=dict(SAME_NAMED_DEPENDENCIES["project"], nb_threads=1), strategy="off")

# set_step called again with the description of the step that is current (a polling loop), records after each call:
# in the test's thread, in an lcc.Thread, and with the description the runner itself has just set
SAME_STEP_AGAIN = _case(
    _p([_s("s0", [_t("t0", [], [_STEP("poll"), _LOG, _STEP("poll"), _LOG, _STEP("poll"), _ATT,
                                {"a": "thread", "script": [_STEP("poll"), _LOG, _STEP("poll"), _LOG]}]),
                  _t("t1", [], [_STEP("test t1"), _LOG], rank=2)])]),
    _cfg(1))

# abort raised through PROJECT-DEFINED SUBCLASSES of AbortSuite / AbortAllTests (body, setup_test hook)
SUBCLASS_ABORT_ALL = _case(
    _p([_s("a", [_t("a1", [], [_LOG, {"a": "raise", "kind": "AbortAllTests", "sub": True}]), _t("a2", [], [_LOG], rank=2)],
           suites=[_s("sub", [_t("s1", [], [_LOG])])], teardown_suite=[_LOG]),
        _s("b", [_t("b1", [], [_LOG])], rank=2)]),
    _cfg(1))
SUBCLASS_ABORT_SUITE = _case(
    _p([_s("a", [_t("a1", [], [{"a": "raise", "kind": "AbortSuite", "sub": True}]), _t("a2", [], [_LOG], rank=2)],
           suites=[_s("sub", [_t("s1", [], [_LOG])])]),
        _s("b", [_t("b1", [], [_LOG])], rank=2, setup_test=[{"a": "raise", "kind": "AbortSuite", "sub": True}])]),
    _cfg(1))

CONTROLS2 = [DOTTED_NAMES, DOTTED_NAMES_THREADS, ATTACH_BLOCKS, ATTACH_BLOCK_RAISES, ABORT_IN_THREAD, STOP_ON_FAILURE_IN_SETUP,
             STOP_ON_FAILURE_IN_FIXTURE, SAME_NAMED_DEPENDENCIES, SAME_NAMED_DEPENDENCIES_SEQ, SAME_STEP_AGAIN,
             SUBCLASS_ABORT_ALL, SUBCLASS_ABORT_SUITE]

CONTROLS = [SAME_NAMED_THREADS, SAME_NAMED_THREADS_BOTH_FAIL, SAME_NAMED_THREADS_QUIET, SAME_NAMED_THREADS_QUIET2, SAME_NAMED_THREADS_QUIET, SAME_NAMED_THREADS_QUIET2, SAME_NAMED_THREADS_STEPS, SAME_NAMED_SUBSUITES]


# ---- round 3 -------------------------------------------------------------------------------------------------------
_SYS_EXIT = {"a": "raise", "kind": "exc", "base": "SystemExit"}
_PANIC = {"a": "raise", "kind": "exc", "base": "CustomBase"}

# an lcc.Thread whose target has logged and then does not return — sys.exit(), the regular way of ending a thread from
# the inside — in a test body, in a setup_suite hook and in a fixture teardown: `Thread.run` ends the thread's step in
# its `finally`, nothing is logged, the test goes on, logs and ends
THREAD_ENDS_WITH_SYSTEM_EXIT = _case(
    _p([_s("s0", [_t("t0", ["fx"], [_LOG, {"a": "thread", "script": [_LOG, {"a": "step", "d": "second"}, _LOG, _SYS_EXIT]}, _LOG]),
                  _t("t1", [], [_LOG], rank=2)],
           setup_suite={"params": [], "script": [{"a": "thread", "script": [_LOG, _SYS_EXIT]}, _LOG]})],
       fixtures=[_f("fx", "test", [_LOG], teardown=[{"a": "thread", "script": [_LOG, _SYS_EXIT]}])]),
    _cfg(1))
# ... and with two tests doing so at the same time (named threads, held between their log and their exit)
THREADS_END_WITH_SYSTEM_EXIT_PARALLEL = _case(
    _p([_s("s0", [_t("t0", [], [_named_thread([_LOG, _GATE, _SYS_EXIT]), _LOG]),
                  _t("t1", [], [_named_thread([_LOG, _GATE, _SYS_EXIT]), _LOG], rank=2)])]),
    _cfg(2, "fifo"))

# Abort* constructed with something else than one message string: the exception that was caught, a number, no argument,
# a message and a code — from a body, a setup_test hook, a test fixture and a suite fixture; the reason only shapes a text
def _abort(kind, args, **kw):
    return dict({"a": "raise", "kind": kind, "args": args}, **kw)


ABORT_ARGUMENTS = _case(
    _p([_s("s0", [_t("t0", [], [_LOG, _abort("AbortTest", "exc")]),
                  _t("t1", ["fx"], [_LOG], rank=2),
                  _t("t2", [], [_LOG, _abort("AbortTest", "two")], rank=3),
                  _t("t3", [], [_LOG, _abort("AbortTest", "none", sub=True)], rank=4)],
           teardown_test=[_LOG]),
        _s("s1", [_t("t0", [], [_LOG, _abort("AbortSuite", "int")]), _t("t1", [], [_LOG], rank=2)], rank=2),
        _s("s2", [_t("t0", [], [_LOG]), _t("t1", [], [_LOG], rank=2)], rank=3, setup_test=[_abort("AbortSuite", "exc")]),
        _s("s3", [_t("t0", [], [_LOG, _abort("AbortAllTests", "exc")]), _t("t1", [], [_LOG], rank=2)], rank=4)],
       fixtures=[_f("fx", "test", [_LOG, _abort("AbortTest", "int")], teardown=[])]),
    _cfg(1))

# Abort* raised by the setup of a PER-THREAD fixture: evaluated at its first use by a worker, inside the test task
# (`_prepare_test_args`), while tests that do not use the fixture are still to start
PERTHREAD_FIXTURE_ABORTS_SUITE = _case(
    _p([_s("s0", [_t("t0", ["pt"], [_LOG]), _t("t1", [], [_LOG], rank=2), _t("t2", [], [_LOG], rank=3)],
           suites=[_s("sub", [_t("t3", [], [_LOG])])]),
        _s("s1", [_t("t4", [], [_LOG])], rank=2)],
       fixtures=[_f("pt", "session", [_LOG, {"a": "raise", "kind": "AbortSuite"}], teardown=[], per_thread=True)]),
    _cfg(1))
PERTHREAD_FIXTURE_ABORTS_ALL = _case(
    _p([_s("s0", [_t("t0", ["pt"], [_LOG]), _t("t1", [], [_LOG], rank=2)],
           suites=[_s("sub", [_t("t3", [], [_LOG])])]),
        _s("s1", [_t("t4", [], [_LOG])], rank=2)],
       fixtures=[_f("pt", "suite", [{"a": "raise", "kind": "AbortAllTests", "sub": True}], per_thread=True)]),
    _cfg(1))

# a reporting backend raises AND the run is interrupted: the failure first, then Ctrl-C — and the other way round
_THREE = _p([_s("s0", [_t("t0", [], [_LOG]), _t("t1", [], [_LOG], rank=2), _t("t2", [], [_LOG], rank=3)],
                teardown_suite=[_LOG])])
FAULT_THEN_INTERRUPT = _case(_THREE, _cfg(1, interrupt=["get", 3], fault={"k": 1, "cls": "OSError", "text": "backend boom \u00e9 #42"}))
INTERRUPT_THEN_FAULT = _case(_THREE, _cfg(1, interrupt=["get", 1], fault={"k": 9, "cls": "Custom", "text": "backend boom \u00e9 #42"}))

# a top-level suite named like a sub-suite of an earlier top-level suite, same-named tests in the same-named suites,
# running at the same time (alpha, alpha.beta, beta, beta.alpha)
NAMES_ACROSS_LEVELS = _case(
    _p([_s("alpha", [_t("exchange", [], [_GATE, _LOG, _ERR])],
           suites=[_s("beta", [_t("exchange", [], [_GATE, _LOG, {"a": "step", "d": "inner"}, _LOG])])]),
        _s("beta", [_t("exchange", [], [_GATE, _LOG, _LOG])],
           suites=[_s("alpha", [_t("exchange", [], [_GATE, _ERR])])], rank=2)]),
    _cfg(4, "lifo"))

# step descriptions the API accepts like any other: blank, with line breaks, long — in a test thread and an lcc.Thread
ODD_STEP_DESCRIPTIONS = _case(
    _p([_s("s0", [_t("t0", [], [{"a": "step", "d": " "}, _LOG, {"a": "step", "d": "two\nlines"}, _LOG,
                               {"a": "thread", "script": [{"a": "step", "d": "\t"}, _LOG, {"a": "step", "d": "x" * 300}, _LOG]},
                               {"a": "step", "d": "trailing\n"}, _LOG]),
                  _t("t1", [], [_LOG], rank=2)])]),
    _cfg(1))

CONTROLS3 = [THREAD_ENDS_WITH_SYSTEM_EXIT, THREADS_END_WITH_SYSTEM_EXIT_PARALLEL, ABORT_ARGUMENTS, NAMES_ACROSS_LEVELS,
             ODD_STEP_DESCRIPTIONS]

# the untitled step: `lcc.set_step("")` followed by records, then another step; in an lcc.Thread too.  D39 (C07, repaired): session.py
# tested the description's truth value and never ended that step (in a thread: AssertionError in Thread.run's finally).
EMPTY_STEP_DESCRIPTION = dict(_case(
    _p([_s("s0", [_t("t0", [], [{"a": "step", "d": ""}, _LOG, {"a": "step", "d": "next"}, _LOG]),
                  _t("t1", [], [_LOG], rank=2)])]),
    _cfg(1)))
# the deprecated `with lcc.detached_step(d): pass` followed by records WITHOUT another set_step — in the test, in an lcc.Thread,
# in a suite hook — then an ordinary step (minimised shape of seeded C07-11: the block "closed" its step, the next log was fired
# outside any step, ReportWriter asserted, every backend got a truncated stream)
DETACHED_STEP_THEN_LOG = dict(_case(
    _p([_s("s0", [_t("t0", [], [{"a": "detached", "d": "detached"}, _LOG]),
                  _t("t1", [], [_LOG, {"a": "detached", "d": "d1"}, _LOG, {"a": "check", "ok": True},
                                {"a": "thread", "script": [{"a": "detached", "d": "in thread"}, _LOG]},
                                {"a": "detached", "d": "d2"}, {"a": "detached", "d": "d3"}, {"a": "attach"},
                                {"a": "step", "d": "plain"}, _LOG], rank=2)])]),
    _cfg(2)))
EMPTY_STEP_IN_THREAD = dict(_case(
    _p([_s("s0", [_t("t0", [], [_LOG, {"a": "thread", "script": [{"a": "step", "d": ""}, _LOG]}, _LOG]),
                  _t("t1", [], [_LOG], rank=2)])]),
    _cfg(1)))

# an lcc.Thread ended by a project's own BaseException (not SystemExit): an uncaught exception of user code — the test is
# FAILED (D40, C02, repaired: `Thread.run` only had `except Exception`, recorded nothing and the test was reported passed)
THREAD_ENDS_WITH_PANIC = _case(
    _p([_s("s0", [_t("t0", [], [_LOG, {"a": "thread", "script": [_LOG, _PANIC]}, _LOG]), _t("t1", [], [_LOG], rank=2)])]),
    _cfg(1))


# ---- round 4 -------------------------------------------------------------------------------------------------------
# a TEST and a SUB-SUITE of one suite with the same name (the loader checks the two kinds of names separately): their
# locations differ by the node KIND only.  The test fails — after the sub-suite's setup, tests and teardown have run (it is
# held at a gate while the other worker goes through the sub-suite) in the first case, before them (1 worker) in the second:
# the sub-suite's phases and tests pass either way.  In the third case the sub-suite's setup fails while the test is held
# between two hooks: the test's body runs and the test passes, the sub-suite's own test is skipped.
HOMONYMOUS_TEST_AND_SUBSUITE = _case(
    _p([_s("a", [_t("login", [], [_GATE, _ERR])],
           suites=[_s("login", [_t("t", [], [_LOG])], setup_suite={"params": [], "script": [_LOG, _LOG]}, teardown_suite=[_LOG])])]),
    _cfg(2, "fifo"))
HOMONYMOUS_TEST_AND_SUBSUITE_SEQ = dict(HOMONYMOUS_TEST_AND_SUBSUITE, strategy="off",
                                        project=dict(HOMONYMOUS_TEST_AND_SUBSUITE["project"], nb_threads=1))
HOMONYMOUS_SUBSUITE_SETUP_FAILS = _case(
    _p([_s("a", [_t("login", [], [_LOG])], setup_test=[_GATE],
           suites=[_s("login", [_t("t", [], [_LOG])], setup_suite={"params": [], "script": [_ERR]}, teardown_suite=[_LOG])])]),
    _cfg(2, "fifo"))
CONTROLS4 = [HOMONYMOUS_TEST_AND_SUBSUITE, HOMONYMOUS_TEST_AND_SUBSUITE_SEQ, HOMONYMOUS_SUBSUITE_SETUP_FAILS]

# a reporting backend handler that ends with an exception class the iteration / generator / interpreter protocols treat
# specially: a bare `next(it)` on an exhausted iterator (StopIteration), its async twin, a generator closed under the
# handler (GeneratorExit), `sys.exit()`, a KeyboardInterrupt raised on the event-handling thread.  The first two are
# ordinary Exceptions for `_handler_loop`; the last three were not caught by its `except Exception` (finding D42, repaired:
# `except BaseException`): all five are recorded, skip what has not started and reach the caller with their text.
PROTOCOL_FAULTS = [dict(EMPTY_BACKEND_ERROR, fault={"k": 3, "cls": c, "text": "backend boom"})
                   for c in ("StopIteration", "StopAsyncIteration", "GeneratorExit", "SystemExit", "KeyboardInterrupt")]

# several `pre_run` fixtures depending on one another, a LATER one failing in its setup: `db` (generator) <- `schema`
# (generator) <- `data` (setup raises).  The session is not run; `schema` then `db` — already set up — are torn down once.
_RAISE_EXC = {"a": "raise", "kind": "exc"}
PRE_RUN_CHAIN_LATER_SETUP_FAILS = _case(
    _p([_s("s0", [_t("t0", ["f2"], [_LOG]), _t("t1", [], [_LOG], rank=2)])],
       [_f("f0", "pre_run", [], teardown=[]), _f("f1", "pre_run", [], teardown=[], params=["f0"]),
        _f("f2", "pre_run", [_RAISE_EXC], teardown=[], params=["f1"])]),
    _cfg(1))
# ... the same with two independent fixtures used by different tests, and an earlier teardown that raises as well
PRE_RUN_SECOND_SETUP_FAILS = _case(
    _p([_s("s0", [_t("t0", ["f0"], [_LOG]), _t("t1", ["f1"], [_LOG], rank=2)])],
       [_f("f0", "pre_run", [], teardown=[_RAISE_EXC]), _f("f1", "pre_run", [_RAISE_EXC])]),
    _cfg(2))
PRE_RUN_CONTROLS = [PRE_RUN_CHAIN_LATER_SETUP_FAILS, PRE_RUN_SECOND_SETUP_FAILS]

# reporting sessions of ONE class whose on_<event> handlers are set per instance: the one that only listens to the starts is
# registered before the complete one (and, in the second run of the process, before the one listening to starts and ends)
LISTENERS_PARTIAL_FIRST = dict(_case(
    _p([_s("s0", [_t("t0", [], [_LOG, {"a": "step", "d": "second"}, _LOG]), _t("t1", [], [_ERR], rank=2)],
           setup_suite={"params": [], "script": [_LOG]})]), _cfg(1)), listeners=["starts", "all"])
LISTENERS_PARTIAL_FIRST_2 = dict(LISTENERS_PARTIAL_FIRST, listeners=["records", "starts+ends", "all"],
                                 project=dict(LISTENERS_PARTIAL_FIRST["project"], nb_threads=2))
LISTENER_CONTROLS = [LISTENERS_PARTIAL_FIRST, LISTENERS_PARTIAL_FIRST_2]

# the SAVED report: suite b = [x1 depends on a.s, x2 depends on a.f (x2 fails)]; with 2 workers a.s is held until b.x2 has
# ended, so x2 starts, fails — the report is saved (at_each_failed_test / at_each_test) — before x1 starts.  The file saved
# at the end must list x1 before x2, as the file of the 1-thread run does.
SAVED_ORDER = dict(_case(
    _p([_s("a", [_t("s", [], [_GATE, _LOG]), _t("f", [], [_LOG], rank=2)]),
        _s("b", [_t("x1", [], [_LOG], deps=[["a", "s"]]), _t("x2", [], [_ERR], deps=[["a", "f"]], rank=2)], rank=2)]),
    _cfg(2, "fifo")), files={"backends": ["json"], "saving": "at_each_test"})

# the real json + junit backends saving the report at each test (the junit backend walks the whole report at every save):
# the failure comes AFTER the first save, in the same top-level suite; no session teardown.  The run's verdict (return
# value, report success flag) must see it.
LATE_FAILURE_WITH_FILE_BACKENDS = dict(_case(
    _p([_s("s0", [_t("t0", [], [_LOG]), _t("t1", [], [_LOG], rank=2), _t("t2", [], [_ERR], rank=3)])]), _cfg(1)),
    files={"backends": ["json", "junit"], "saving": "at_each_test"})
LATE_TEARDOWN_FAILURE_WITH_FILE_BACKENDS = dict(_case(
    _p([_s("s0", [_t("t0", [], [_LOG]), _t("t1", [], [_LOG], rank=2)], teardown_suite=[_ERR])]), _cfg(2)),
    files={"backends": ["json", "junit"], "saving": "at_each_log"})
FILE_BACKEND_CONTROLS = [LATE_FAILURE_WITH_FILE_BACKENDS, LATE_TEARDOWN_FAILURE_WITH_FILE_BACKENDS]


# ---- several runs of ONE built project in one process (props/_multirun.py; acts guarded with `only_in_run`) -----------------
def _only(act, r):
    return dict(act, only_in_run=r)


def _again(project, runs=2, n=1, **kw):
    return dict({"project": dict(project, nb_threads=n), "strategy": "off", "gseed": 1, "interrupt": None, "fault": None,
                 "runs": runs, "event_run": 1}, **kw)


# the environment is down during the first run only: the second test of s0 raises AbortSuite in run 1; in run 2 nothing aborts
AGAIN_ABORT_SUITE_THEN_CLEAN = _again(_p([
    _s("s0", [_t("t0", script=[_LOG]), _t("t1", script=[_only({"a": "raise", "kind": "AbortSuite"}, 1)], rank=2), _t("t2", script=[_LOG], rank=3)]),
    _s("s1", [_t("t3", script=[_LOG])], rank=2)]))
# AbortAllTests in a setup_suite hook of the first of three runs, a failing check in the second, nothing in the third
AGAIN_ABORT_ALL_THEN_FAILURE_THEN_CLEAN = _again(_p([
    _s("s0", [_t("t0", script=[_LOG]), _t("t1", script=[_only({"a": "check", "ok": False}, 2)], rank=2)],
       setup_suite={"params": [], "script": [_only({"a": "raise", "kind": "AbortAllTests"}, 1)]}, teardown_suite=[_LOG]),
    _s("s1", [_t("t2", script=[_LOG])], rank=2)]), runs=3, n=2)
# the abort comes in the SECOND run (from an lcc.Thread of a test with a test-scoped fixture), the first and third are clean
AGAIN_CLEAN_ABORT_CLEAN = _again(_p([
    _s("s0", [_t("t0", ["f0"], [{"a": "thread", "script": [_only({"a": "raise", "kind": "AbortSuite", "sub": True}, 2)]}, _LOG]),
              _t("t1", script=[_LOG], rank=2)], suites=[_s("sub", [_t("u", script=[_LOG])])])],
    [_f("f0", "test", [_LOG])]), runs=3)
# interrupted first run, ordinary second run
AGAIN_INTERRUPT_THEN_CLEAN = _again(_p([_s("s0", [_t("t0", script=[_LOG]), _t("t1", script=[_LOG], rank=2), _t("t2", script=[_LOG], rank=3)])]),
                                    interrupt=["get", 2])
AGAIN_CORPUS = [AGAIN_ABORT_SUITE_THEN_CLEAN, AGAIN_ABORT_ALL_THEN_FAILURE_THEN_CLEAN, AGAIN_CLEAN_ABORT_CLEAN, AGAIN_INTERRUPT_THEN_CLEAN]


# ---- an exception raised while an attachment is being prepared, BEFORE the attachment file exists ---------------------------
def _c1(project, n=1):
    return _case(project, _cfg(n))


def _blk_late(*script):
    return {"a": "attachw", "write": "late", "script": list(script)}


_SAVE_MISSING = {"a": "attachw", "via": "save_file", "script": [{"a": "raise", "kind": "exc"}]}
_EXC = {"a": "raise", "kind": "exc"}
# the content producer of a `with lcc.prepare_attachment(..)` block raises before the file is written: test body, then a log
UNWRITTEN_BLOCK_RAISES_IN_BODY = _c1(_p([_s("s0", [_t("t0", script=[_LOG, _blk_late(_LOG, _EXC), _LOG]), _t("t1", script=[_LOG], rank=2)])]))
# lcc.save_attachment_file on a source file that does not exist: test body / setup_suite hook / teardown_test hook / fixture / lcc.Thread
SAVE_MISSING_IN_BODY = _c1(_p([_s("s0", [_t("t0", script=[_LOG, dict(_SAVE_MISSING), _LOG]), _t("t1", script=[_LOG], rank=2)])]))
SAVE_MISSING_IN_SETUP_SUITE = _c1(_p([_s("s0", [_t("t0", script=[_LOG])], setup_suite={"params": [], "script": [dict(_SAVE_MISSING), _LOG]},
                                            teardown_suite=[_blk_late(_EXC)])]))
SAVE_MISSING_IN_TEST_HOOKS_AND_FIXTURE = _c1(_p([_s("s0", [_t("t0", ["f0"], [_LOG]), _t("t1", script=[_LOG], rank=2)],
                                                      teardown_test=[dict(_SAVE_MISSING)])],
                                                  [_f("f0", "test", [_blk_late(_EXC), _LOG], teardown=[_LOG])]), n=2)
UNWRITTEN_BLOCK_RAISES_IN_THREAD = _c1(_p([_s("s0", [_t("t0", script=[{"a": "thread", "script": [_LOG, _blk_late(_EXC), _LOG]}, _LOG]),
                                                      _t("t1", script=[{"a": "thread", "script": [dict(_SAVE_MISSING)]}], rank=2)])]))
# Abort* classes leaving an unwritten block
UNWRITTEN_BLOCK_ABORTS = _c1(_p([_s("s0", [_t("t0", script=[_blk_late({"a": "raise", "kind": "AbortTest"}), _LOG]),
                                            _t("t1", script=[_blk_late(_blk_late({"a": "raise", "kind": "AbortSuite"}))], rank=2),
                                            _t("t2", script=[_LOG], rank=3)])]))
UNWRITTEN_ATTACHMENTS = [UNWRITTEN_BLOCK_RAISES_IN_BODY, SAVE_MISSING_IN_BODY, SAVE_MISSING_IN_SETUP_SUITE, SAVE_MISSING_IN_TEST_HOOKS_AND_FIXTURE,
                         UNWRITTEN_BLOCK_RAISES_IN_THREAD, UNWRITTEN_BLOCK_ABORTS]


# ---- suites with a setup phase whose OWN tests are all disabled, under --force-disabled (they do run, and need that setup) ------
_SETUP = {"params": [], "script": [_LOG]}
# a NESTED suite with setup_suite / teardown_suite hooks, each of its tests disabled; a test of another suite depends on one of them
FORCED_NESTED_ALL_DISABLED = _c1(_p([
    _s("s0", [_t("t0", script=[_LOG])],
       suites=[_s("sub", [_t("u0", script=[_LOG], disabled=True), _t("u1", script=[_LOG], rank=2, disabled="not ready")],
                  setup_suite=dict(_SETUP), teardown_suite=[_LOG])]),
    _s("s1", [_t("t1", script=[_LOG], deps=[["s0", "sub", "u0"]])], rank=2)], force=True), n=2)
# the nested suite itself is disabled (two levels down), its setup comes from a suite-scoped fixture
FORCED_NESTED_DISABLED_SUITE = _c1(_p([
    _s("s0", [_t("t0", script=[_LOG])],
       suites=[_s("mid", [], suites=[dict(_s("deep", [_t("v0", ["f0"], [_LOG]), _t("v1", script=[_LOG], rank=2)], setup_suite=dict(_SETUP)),
                                          disabled=True)])])],
    [_f("f0", "suite", [_LOG], teardown=[_LOG])], force=True))
# the same without the option: nothing of the suite runs, no setup either
NESTED_ALL_DISABLED_NOT_FORCED = _c1(_p([
    _s("s0", [_t("t0", script=[_LOG])],
       suites=[_s("sub", [_t("u0", script=[_LOG], disabled=True)], setup_suite=dict(_SETUP), teardown_suite=[_LOG])])]))
ALL_DISABLED_SUITES = [FORCED_NESTED_ALL_DISABLED, FORCED_NESTED_DISABLED_SUITE, NESTED_ALL_DISABLED_NOT_FORCED]

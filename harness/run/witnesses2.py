"""
Hand-written corpus cases added after the seeded-change campaign (they run first in the streams that list them).
Kept apart from selftest.WITNESSES (which documents the known defects): these are CONTROLS — no failure is
expected on a correct tree — built to put the run in a situation where a whole class of regressions shows.
"""
from run.selftest import _p, _s, _t, _f, _cfg, _LOG, _GATE

_ERR = {"a": "log", "level": "error"}


def _case(project, cfg):
    return {"project": dict(project, nb_threads=cfg["n"]), "strategy": cfg["strategy"], "gseed": cfg["gseed"],
            "interrupt": cfg["interrupt"], "fault": cfg["fault"]}


def _named_thread(script, name="worker"):
    return {"a": "thread", "name": name, "script": script}


# two tests running at the same time, each with an lcc.Thread carrying the SAME explicit name, each thread held
# between two of its logs: whatever identifies "the emitting thread" by its name mixes the two tests up
SAME_NAMED_THREADS = _case(
    _p([_s("s0", [_t("t0", [], [_named_thread([_LOG, _GATE, _ERR])]),
                  _t("t1", [], [_named_thread([_LOG, _GATE, _LOG])], rank=2)])]),
    _cfg(2, "fifo"))

# the second thread stays silent after the gate (a mix-up then stays silent too: no writer assertion)
SAME_NAMED_THREADS_QUIET = _case(
    _p([_s("s0", [_t("t0", [], [_named_thread([_LOG, _GATE, _ERR])]),
                  _t("t1", [], [_named_thread([_LOG, _GATE])], rank=2)])]),
    _cfg(2, "fifo"))
SAME_NAMED_THREADS_QUIET2 = _case(
    _p([_s("s0", [_t("t0", [], [_named_thread([_LOG, _GATE])]),
                  _t("t1", [], [_named_thread([_LOG, _GATE, _ERR])], rank=2)])]),
    _cfg(2, "lifo"))

# ... and a variant whose verdict does not depend on which thread is first: both threads log, both are held, both then
# log an error and are held again until the other one has logged its error too (fifo: the thread still at its first
# gate is released before the one that reached its second gate).  Whichever thread opened its step last, the OTHER
# one's error must still land in its own test.
SAME_NAMED_THREADS_BOTH_FAIL = _case(
    _p([_s("s0", [_t("t0", [], [_named_thread([_LOG, _GATE, _ERR, _GATE])]),
                  _t("t1", [], [_named_thread([_LOG, _GATE, _ERR, _GATE])], rank=2)])]),
    _cfg(2, "fifo"))

# the same with a step change in one of the threads
SAME_NAMED_THREADS_STEPS = _case(
    _p([_s("s0", [_t("t0", [], [_named_thread([_LOG, _GATE, {"a": "step", "d": "second"}, _LOG])]),
                  _t("t1", [], [_named_thread([_LOG, _GATE, _ERR], name="worker")], rank=2),
                  _t("t2", [], [_named_thread([_GATE, _LOG], name="worker")], rank=3)])]),
    _cfg(3, "lifo"))

# same-named sub-suites under different parents, open at the same time
SAME_NAMED_SUBSUITES = _case(
    _p([_s("a", [_t("t", [], [_GATE, _LOG])], suites=[_s("sub", [_t("x", [], [_GATE, _LOG]), _t("y", [], [_LOG], rank=2)])]),
        _s("b", [_t("t", [], [_GATE, _ERR])], suites=[_s("sub", [_t("x", [], [_GATE, _LOG]), _t("y", [], [_ERR], rank=2)])], rank=2)]),
    _cfg(4, "lifo"))

# (the quiet variants depend on which thread reaches its gate first: run them more than once)
# a reporting backend raising an exception WITHOUT message on an early event (D32, fixed by b5d635d): the remaining
# test bodies must not be started
EMPTY_BACKEND_ERROR = dict(_case(
    _p([_s("s0", [_t("t0", [], [_LOG]), _t("t1", [], [_LOG], rank=2), _t("t2", [], [_LOG], rank=3)])]), _cfg(1)),
    fault={"k": 3, "cls": "Exception", "text": ""})

# ---- second seeded campaign: input classes no generated project reached -----------------------------------------

def _blk(script):
    return {"a": "attachw", "script": list(script)}


_STEP = lambda d: {"a": "step", "d": d}      # noqa: E731
_ATT = {"a": "attach"}

# node NAMES containing dots (`@lcc.test(name="v1.2")`, parametrized naming schemes fed with versions / addresses,
# `@lcc.suite(name="api.v2")`): a path is a list of names, never the dotted string split again
DOTTED_NAMES = _case(
    _p([_s("compat", [_t("first", [], [_LOG]), _t("check_1.2", [], [_LOG, _STEP("more"), _ATT], rank=2)],
           suites=[_s("api.v2", [_t("ping_10.0.0.1", [], [_LOG])], setup_suite={"params": [], "script": [_LOG]},
                      teardown_suite=[_LOG])]),
        _s("pkg.mod", [_t("t", [], [_LOG])], rank=2)]),
    _cfg(1))
DOTTED_NAMES_THREADS = dict(DOTTED_NAMES, project=dict(DOTTED_NAMES["project"], nb_threads=3))

# `with lcc.prepare_attachment(..):` blocks whose body logs further attachments from the same thread (a nested block, a
# save_attachment), changes the step, starts and joins an lcc.Thread that saves an attachment itself; in a test body,
# a hook and a fixture.  Nothing may wait for the block to be left.
ATTACH_BLOCKS = _case(
    _p([_s("s0", [_t("t0", ["f0"], [_LOG, _blk([_ATT, _STEP("inside"), _blk([_LOG, _ATT]), _LOG]), _LOG]),
                  _t("t1", [], [_blk([{"a": "thread", "script": [_ATT, _blk([_LOG])]}]), _ATT], rank=2)],
           setup_test=[_blk([_ATT])])],
       [_f("f0", "test", [_blk([_blk([_ATT])])], teardown=[_blk([_ATT])])]),
    _cfg(2))
# ... and a block left by an exception (raised by its body; by a nested block): no attachment event, the failure is the
# test's, the blocks around it are left too
ATTACH_BLOCK_RAISES = _case(
    _p([_s("s0", [_t("t0", [], [_blk([_LOG, _blk([{"a": "raise", "kind": "exc"}]), _LOG]), _LOG]),
                  _t("t1", [], [_blk([{"a": "raise", "kind": "AbortSuite", "sub": True}])], rank=2),
                  _t("t2", [], [_LOG], rank=3)])]),
    _cfg(1))

# an lcc.Thread whose target raises lcc.AbortTest / AbortSuite / AbortAllTests itself, with nothing else failing in the
# test / the setup phase that started it: `Thread.run` logs it, the location is failed, nothing is aborted
ABORT_IN_THREAD = _case(
    _p([_s("workers", [_t("gives_up", [], [_LOG, {"a": "thread", "script": [_LOG, {"a": "raise", "kind": "AbortTest"}]}, _LOG]),
                       _t("suite_abort", [], [{"a": "thread", "script": [{"a": "raise", "kind": "AbortSuite"}]}], rank=2),
                       _t("all_good", [], [_LOG], rank=3)]),
        _s("downloads", [_t("download", [], [_LOG])], rank=2,
           setup_suite={"params": [], "script": [{"a": "thread", "script": [{"a": "raise", "kind": "AbortAllTests", "sub": True}]}]})]),
    _cfg(1))

# --stop-on-failure with 2 workers: s1.t1 is held in the setup_test hook of its suite while s0.t0 fails; the body of
# t1 then runs (it was started before the failure) — or t1 is not reported passed
STOP_ON_FAILURE_IN_SETUP = _case(
    _p([_s("s0", [_t("t0", [], [_GATE, _ERR])]),
        _s("s1", [_t("t1", [], [_LOG])], rank=2, setup_test=[_GATE, _GATE])], stop=True),
    _cfg(2, "fifo"))
STOP_ON_FAILURE_IN_FIXTURE = _case(
    _p([_s("s0", [_t("t0", [], [_GATE, _ERR])]),
        _s("s1", [_t("t1", ["f0"], [_LOG])], rank=2)],
       [_f("f0", "test", [_GATE, _GATE, _LOG], teardown=[_LOG])], stop=True),
    _cfg(2, "fifo"))

# one test depending on two SAME-NAMED tests of different suites (users.prepare + orders.prepare); the second one
# fails / is slow: the dependent test waits for both and is skipped
SAME_NAMED_DEPENDENCIES = _case(
    _p([_s("users", [_t("prepare", [], [_LOG])]),
        _s("orders", [_t("prepare", [], [_GATE, _ERR])], rank=2),
        _s("checkout", [_t("pay", [], [_LOG], deps=[["users", "prepare"], ["orders", "prepare"]]),
                        _t("refund", [], [_LOG], deps=[["checkout", "pay"]], rank=2)], rank=3)]),
    _cfg(3, "fifo"))
SAME_NAMED_DEPENDENCIES_SEQ = dict(SAME_NAMED_DEPENDENCIES, project=dict(SAME_NAMED_DEPENDENCIES["project"], nb_threads=1), strategy="off")

# set_step called again with the description of the step that is current (a polling loop), records after each call:
# in the test's thread, in an lcc.Thread, and with the description the runner itself has just set
SAME_STEP_AGAIN = _case(
    _p([_s("s0", [_t("t0", [], [_STEP("poll"), _LOG, _STEP("poll"), _LOG, _STEP("poll"), _ATT,
                                {"a": "thread", "script": [_STEP("poll"), _LOG, _STEP("poll"), _LOG]}]),
                  _t("t1", [], [_STEP("test t1"), _LOG], rank=2)])]),
    _cfg(1))

# abort raised through PROJECT-DEFINED SUBCLASSES of AbortSuite / AbortAllTests (body, setup_test hook)
SUBCLASS_ABORT_ALL = _case(
    _p([_s("a", [_t("a1", [], [_LOG, {"a": "raise", "kind": "AbortAllTests", "sub": True}]), _t("a2", [], [_LOG], rank=2)],
           suites=[_s("sub", [_t("s1", [], [_LOG])])], teardown_suite=[_LOG]),
        _s("b", [_t("b1", [], [_LOG])], rank=2)]),
    _cfg(1))
SUBCLASS_ABORT_SUITE = _case(
    _p([_s("a", [_t("a1", [], [{"a": "raise", "kind": "AbortSuite", "sub": True}]), _t("a2", [], [_LOG], rank=2)],
           suites=[_s("sub", [_t("s1", [], [_LOG])])]),
        _s("b", [_t("b1", [], [_LOG])], rank=2, setup_test=[{"a": "raise", "kind": "AbortSuite", "sub": True}])]),
    _cfg(1))

CONTROLS2 = [DOTTED_NAMES, DOTTED_NAMES_THREADS, ATTACH_BLOCKS, ATTACH_BLOCK_RAISES, ABORT_IN_THREAD, STOP_ON_FAILURE_IN_SETUP,
             STOP_ON_FAILURE_IN_FIXTURE, SAME_NAMED_DEPENDENCIES, SAME_NAMED_DEPENDENCIES_SEQ, SAME_STEP_AGAIN,
             SUBCLASS_ABORT_ALL, SUBCLASS_ABORT_SUITE]

CONTROLS = [SAME_NAMED_THREADS, SAME_NAMED_THREADS_BOTH_FAIL, SAME_NAMED_THREADS_QUIET, SAME_NAMED_THREADS_QUIET2, SAME_NAMED_THREADS_QUIET, SAME_NAMED_THREADS_QUIET2, SAME_NAMED_THREADS_STEPS, SAME_NAMED_SUBSUITES]

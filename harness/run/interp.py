"""
Script interpreter: runs INSIDE generated user code (test bodies, hooks, fixture functions) and performs every
act through the public api `lemoncheesecake.api`, so the `_interruptible` wrappers are exercised.

User records (one global list, appended under the recorder's lock):

    ["user", thread, unit, "enter", {name: value token}]   when the unit's code starts ({} for non-consumers)
    ["user", thread, unit, "act:<i>", null]                BEFORE act i (0-based index in that script) executes
    ["user", thread, unit, "raise:<kind>", null|{"base": cls}]   a `raise` act (after its act:<i>); kind exc|AbortTest|AbortSuite|AbortAllTests;
                                                           {"base": "SystemExit"|"GeneratorExit"|"CustomBase"}: the object is a BaseException that is no Exception
    ["user", thread, unit, "raise:interrupted", null]      a public-api act raised by itself (AbortTest of `_interruptible`)
    ["user", thread, unit, "exit", null]                   the script completed normally

unit = ["fx", primary name, "setup"|"teardown"] | ["hook", suite path, hook, test path|null] | ["body", test path],
and for the script of a `thread` act at index i of unit U: U + ["th", i] (recorded under the child's thread int);
for the inner script of an `attachw` act (`with lcc.prepare_attachment(..):`) at index i of unit U: U + ["blk", i],
recorded by the SAME thread, nested inside U's records (enter … exit|raise:<kind> of the block, then U goes on — or,
when the block was left by an exception, U's own "raise:<kind>" record follows: the exception leaves U too).

Fixture value tokens: "<primary name>@<serial>" where serial counts the evaluations of that fixture FUNCTION over
the run (1-based, allocated together with the `enter` record of the setup unit, so the n-th setup-enter record of
a function carries serial n); per-thread fixtures: "<name>@<serial>@w<thread int>".  The side table `fx_tokens`
maps the trace index of every fixture setup/teardown `enter` record to the token it is about.

Payloads are self-describing: message = "<unit>#<i>" (e.g. "body:s0.t1#2", "fx:f0:setup#0", "body:s0.t1:th:3#0").
"""
import os
import tempfile
import threading

import lemoncheesecake.api as lcc

from run.gen import effective_act as _effective_act

_RAISES = {"exc": Exception, "AbortTest": lcc.AbortTest, "AbortSuite": lcc.AbortSuite, "AbortAllTests": lcc.AbortAllTests}


# project-defined exception types derived from the framework's (a `raise` act with "sub": true)
class TestGivesUp(lcc.AbortTest):
    pass


class SuiteUnusable(lcc.AbortSuite):
    pass


class EnvironmentDown(lcc.AbortAllTests):
    pass


class ProjectPanic(BaseException):
    """a project's own exception type that is not an `Exception`"""


_BASE_RAISES = {"SystemExit": SystemExit, "GeneratorExit": GeneratorExit, "CustomBase": ProjectPanic}
_SUB_RAISES = {"AbortTest": TestGivesUp, "AbortSuite": SuiteUnusable, "AbortAllTests": EnvironmentDown}


def abort_args(shape, msg):
    """constructor arguments of an Abort* exception (`"args"` of a raise act, run.gen.ABORT_ARGS): a message string
    (default), nothing, the exception that was caught (`raise lcc.AbortTest(e)`), a number, a message and a code, two
    strings"""
    if not shape:
        return (msg,)
    return {"none": (), "exc": (ValueError(msg),), "int": (404,), "two": (msg, 7), "twostr": (msg, "giving up")}[shape]


def unit_str(unit):
    out = []
    for x in unit:
        if x is None:
            continue
        out.append(".".join(x) if isinstance(x, list) else str(x))
    return ":".join(out)


class ThreadNamer:
    """thread OBJECT -> small int by first appearance at record time (OS idents are reused, objects are kept alive
    here so their identity is not).  0 is the thread that called run_suites ("main")."""

    def __init__(self, lock):
        self.lock = lock
        self.ids = {}
        self.info = {}

    def register_main(self, th=None):
        th = th or threading.current_thread()
        with self.lock:
            self.ids[th] = 0
            self.info[0] = {"kind": "main", "parent": None}

    def __call__(self, kind="worker"):
        th = threading.current_thread()
        with self.lock:
            k = self.ids.get(th)
            if k is None:
                k = len(self.ids)
                self.ids[th] = k
                parent = getattr(th, "_lccverif_parent", None)
                self.info[k] = {"kind": "lcc" if parent is not None else kind, "parent": parent}
            return k

    def known(self, th=None):
        return (th or threading.current_thread()) in self.ids


class Interp:
    def __init__(self, rec, namer):
        self.rec = rec              # schedrec.Recorder
        self.namer = namer
        self.serial = {}            # primary fixture name -> evaluations so far
        self.fx_tokens = {}         # trace index of a fixture enter record -> token
        self.injected_seen = []     # [test path, {fixture name: token}] read from the suite object at body enter
        self.api_errors = []        # unexpected exceptions out of api calls (generator bug or defect): [unit, i, cls, text]
        self.main_thread = None

    # ---- records -------------------------------------------------------------------------------
    def user(self, unit, what, extra=None):
        return self.rec.rec("user", self.namer("other"), unit, what, extra)

    def run_unit(self, unit, script, extra=None):
        self.user(unit, "enter", dict(extra or {}))
        self.run_acts(unit, script)
        self.user(unit, "exit", None)

    def run_acts(self, unit, script):
        for i, act in enumerate(script):
            if "only_in_run" in act:        # guarded act (gen.effective_act): depends on which run of the process this is
                act = _effective_act(act, getattr(self, "run_index", 1))
            self.user(unit, "act:%d" % i, None)
            self.do_act(unit, i, act)

    # ---- acts ----------------------------------------------------------------------------------
    def do_act(self, unit, i, act):
        a = act["a"]
        msg = "%s#%d" % (unit_str(unit), i)
        if a == "raise":
            # (the record of a BaseException that is not an Exception says which class: `lcc.Thread.run` treats it
            # differently from an `Exception`)
            self.user(unit, "raise:" + act["kind"], {"base": act["base"]} if act.get("base") else None)
            cls = (_SUB_RAISES if act.get("sub") else _RAISES)[act["kind"]]
            exc = cls(*abort_args(act.get("args"), "boom " + msg))
            if act.get("base"):
                exc = _BASE_RAISES[act["base"]]("boom " + msg)
                exc._lccverif_base = act["base"]
            exc._lccverif_kind = act["kind"]
            raise exc
        if a == "gate":
            # the caller of run_suites is never held: the controller's quiescence test needs it in the dispatch loop
            if threading.current_thread() is not self.main_thread:
                self.rec.gate(unit)
            return
        if a == "thread":
            child_unit = list(unit) + ["th", i]
            inner = act["script"]

            def target():
                self.run_unit(child_unit, inner, {})
            th = lcc.Thread(target=target, name=act["name"]) if act.get("name") else lcc.Thread(target=target)
            th._lccverif_parent = self.namer("other")
            th.start()
            th.join()
            return
        if a == "attachw":
            # `with lcc.prepare_attachment(..) as path:` around an inner script run by this very thread
            child_unit = list(unit) + ["blk", i]
            if act.get("via") == "save_file":
                # `lcc.save_attachment_file(src, ..)` with a source that does not exist: the block is the framework's own
                # (`with self.prepare_attachment(..) as path: shutil.copy(src, path)`), its body raises FileNotFoundError
                missing = os.path.join(tempfile.gettempdir(), "lccverif-no-such-file-%d-%d.txt" % (os.getpid(), i))
                try:
                    lcc.save_attachment_file(missing, "a%d.txt" % i, msg)
                except lcc.AbortTest as e:          # `_interruptible`: refused at the entry of the api call, no block entered
                    e._lccverif_kind = "interrupted"
                    self.user(unit, "raise:interrupted", None)
                    raise
                except BaseException as e:
                    self.user(child_unit, "enter", {})
                    self.user(child_unit, "act:0", None)
                    self.user(child_unit, "raise:exc", None)
                    if not isinstance(e, FileNotFoundError):
                        self.api_errors.append([unit, i, type(e).__name__, str(e)])
                    e._lccverif_kind = "exc"
                    self.user(unit, "raise:exc", None)
                    raise
                # the call RETURNED although the copy inside its block raised: recorded as what happened (the block was left by
                # an exception), the script goes on as the real caller's code would
                self.user(child_unit, "enter", {})
                self.user(child_unit, "act:0", None)
                self.user(child_unit, "raise:exc", None)
                return
            late = act.get("write") == "late"
            try:
                cm = lcc.prepare_attachment("a%d.txt" % i, msg)     # public api: `_interruptible`
            except lcc.AbortTest as e:
                e._lccverif_kind = "interrupted"
                self.user(unit, "raise:interrupted", None)
                raise
            try:
                with cm as path:
                    if not late:
                        with open(path, "w") as fh:
                            fh.write("content of " + msg)
                    self.run_unit(child_unit, act["script"], {})
                    if late:        # the content is produced first, the file written as the block's last statement
                        with open(path, "w") as fh:
                            fh.write("content of " + msg)
            except BaseException as e:
                kind = getattr(e, "_lccverif_kind", None)
                if kind is None:
                    # not raised by a `raise` act / an interrupted api act of the inner script: the context manager
                    # (or the file system) raised by itself
                    self.api_errors.append([unit, i, type(e).__name__, str(e)])
                    kind = "interrupted"
                base = getattr(e, "_lccverif_base", None)
                self.user(unit, "raise:" + kind, {"base": base} if base else None)
                raise
            return
        try:
            if a == "log":
                {"debug": lcc.log_debug, "info": lcc.log_info, "warn": lcc.log_warning, "error": lcc.log_error}[act["level"]](msg)
            elif a == "check":
                lcc.log_check(msg, bool(act["ok"]), None)
            elif a == "step":
                lcc.set_step(act["d"])
            elif a == "detached":
                # the deprecated public context manager around an empty body (its DeprecationWarning is left to the default
                # filters: the filter list is process-wide, not to be touched from worker threads)
                with lcc.detached_step(act["d"]):
                    pass
            elif a == "url":
                lcc.log_url("http://example.test/" + msg.replace("#", "/"), msg)
            elif a == "attach":
                lcc.save_attachment_content("content of " + msg, "a%d.txt" % i, msg)
            else:
                raise ValueError("unknown act " + a)
        except lcc.AbortTest as e:
            e._lccverif_kind = "interrupted"
            self.user(unit, "raise:interrupted", None)
            raise
        except Exception as e:
            e._lccverif_kind = "interrupted"
            self.api_errors.append([unit, i, type(e).__name__, str(e)])
            self.user(unit, "raise:interrupted", None)
            raise

    # ---- fixtures ------------------------------------------------------------------------------
    def fixture_impl(self, fx):
        """the implementation behind the generated fixture function (plain function or generator function)"""
        name = fx["name"]
        su, tu = ["fx", name, "setup"], ["fx", name, "teardown"]

        def setup(kwargs):
            with self.rec.cv:
                n = self.serial[name] = self.serial.get(name, 0) + 1
                token = "%s@%d" % (name, n)
                if fx["per_thread"]:
                    token += "@w%d" % self.namer("other")
                idx = self.user(su, "enter", dict(kwargs))
                self.fx_tokens[idx] = token
            self.run_acts(su, fx["setup"])
            self.user(su, "exit", None)
            return token

        if not fx["gen"]:
            return setup

        def gen(kwargs):
            token = setup(kwargs)
            yield token
            with self.rec.cv:
                idx = self.user(tu, "enter", {})
                self.fx_tokens[idx] = token
            self.run_acts(tu, fx["teardown"])
            self.user(tu, "exit", None)
        return gen

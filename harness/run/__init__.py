"""
Run-level correspondence, Python half (contract: design.d/run-schema.md + the coordinator's clarifications).

  gen.py       gen_project(rng, profile) / check_valid / shrink_project / features / walkers
  build.py     build_project(project, interp) -> (suites, fixture_registry) of REAL objects; validate_with_real_code
  interp.py    Interp: executes Scripts through the public api, emits the `user` records; ThreadNamer
  observe.py   run_project(project, strategy, gate_seed, interrupt_at, backend_fault, watchdog) -> obs; canon_for_model
  oracles.py   c01 c02 c03 c04 c07 c08 c11 (project, obs) -> [Failure]; c05_compare / normal_form; recognise (C07 grammar)
  selftest.py  generator / recorder / oracle self-check, witnesses of the known defects (no Lean side needed)
  ../props/_run.py   RunStream(common.Stream): gen / impl / oracle / request (what drivers/Run.lean receives) / shrink

Where the implementation is more specific than design.d/run-schema.md
  * thread ints: 0 = the caller of run_suites (registered up front), pool workers and lcc.Threads get 1, 2, … by first
    appearance at record time, keyed by thread OBJECT (OS idents are reused); obs["threads"][int] = {kind, parent};
  * `user` records: extra is a dict on `enter` ({} for non-consumers) and null elsewhere; a fixture's own token is not in
    the trace: obs["fx_tokens"][trace index of the fixture setup/teardown enter record] = token ("<primary>@<serial>",
    per-thread "<primary>@<serial>@w<thread int>"; the n-th setup-enter of a function has serial n);
  * `raise:interrupted` when a public-api act raises by itself; a `thread` act at index i of unit U runs as unit U+["th", i];
  * injected fixture values are read from the suite object at body enter: obs["injected"] = [[test path, {name: token}]];
  * `handled k` / `backend-raise k cls`: k is the 0-based index among the `fire` records (fire and enqueue happen under one lock);
  * extra record ["handler-exit"] when AsyncEventManager._handler_loop returns; obs["pending_failure_at"] = trace length
    when the pending failure was stored; schedrec's ["hang"] record when the dispatcher waits with nothing in flight;
  * interrupts: ["get", k] (instead of the k-th blocking get) or ["quiescent", k] (k-th quiescent point of the gate controller);
  * obs["report"] = canon_report (insertion order, ranks); obs["report_view"] = nf_report (real rank-sorted accessors).
"""

#!/venv/bin/python
"""
selftest.py [N] [--seed S] [--profiles a,b] [--jobs J] [--no-shrink] [--json FILE]

Self-check of the Python half of the run-level correspondence (no Lean side needed):

  * N generated projects per profile; each is validated by the REAL validation code and run with
    nb_threads in {1,2,3,8} x gate strategy in {off,fifo,lifo,random}; a subset is re-run with an injected keyboard
    interrupt and with a failing reporting backend (every exception class);
  * recorder invariants on every observation (attribution of records to known threads, graph/trace consistency,
    handled order = fire order, no watchdog, no leaked non-daemon thread);
  * all property oracles; C05 normal forms of schedule-independent projects compared with their 1-thread run;
  * summary: input distribution, throughput, every oracle failure grouped by signature with one minimised example.

Oracle failures on the unchanged tree are EXPECTED for the open known defects (DESIGN.md section 6); they are listed, never hidden.
(D11 — teardowns under running tests after a keyboard interrupt with >= 2 workers — is fixed: its witness is a control now.)
Exit code: 0 unless a recorder invariant / generator validity check failed.
"""
import argparse
import json
import multiprocessing
import os
import sys
import threading
import time

sys.path.insert(0, os.path.dirname(os.path.dirname(os.path.abspath(__file__))))
import common as C  # noqa: E402

from run import build as B  # noqa: E402
from run import gen as G  # noqa: E402
from run import observe as O  # noqa: E402
from run import oracles as X  # noqa: E402

THREADS = [1, 2, 3, 8]
STRATEGIES = ["off", "fifo", "lifo", "random"]
FAULT_TEXT = "backend boom é #42"


# ------------------------------------------------------------------------------------------------
# recorder invariants
# ------------------------------------------------------------------------------------------------

def invariants(project, obs):
    bad = []
    oc = obs["outcome"]
    if "invalid" in oc:
        return ["generated project rejected by the real validation: %r" % oc]
    if obs.get("watchdog"):
        bad.append("global watchdog fired")
    if obs.get("gate_watchdog"):
        bad.append("gate controller watchdog fired (no progress with tasks held at gates)")
    if obs.get("order_errors"):
        bad.append("handled order differs from fire order: %r" % obs["order_errors"][:3])
    if obs.get("api_errors"):
        bad.append("unexpected exception out of a public-api act: %r" % obs["api_errors"][:2])
    threads = {int(k): v for k, v in obs["threads"].items()}
    tr = obs["trace"]
    graph = obs.get("graph")
    nt = len(graph["tasks"]) if graph else 0
    count = {}
    spans = {}
    open_ = {}
    for i, r in enumerate(tr):
        k = r[0]
        if k in ("fire", "user"):
            th = r[1]
            if th not in threads or threads[th]["kind"] not in ("main", "worker", "lcc"):
                bad.append("record %d %r attributed to unknown thread %r" % (i, r[:3], threads.get(th)))
                break
        if k in ("dispatch", "start", "finish", "receive"):
            if not (0 <= r[1] < nt):
                bad.append("record %d refers to task %r outside the graph" % (i, r[1]))
                break
            count[(k, r[1])] = count.get((k, r[1]), 0) + 1
            if k == "start":
                if threads.get(r[2], {}).get("kind") != "worker":
                    bad.append("task %d started by non-worker thread %r" % (r[1], r[2]))
                open_[r[1]] = [r[2], i, None]
                spans.setdefault(r[2], []).append(open_[r[1]])
            if k == "finish" and r[1] in open_:
                open_[r[1]][2] = i
    hang = bool(oc.get("hang"))
    if graph and not hang:
        for t in range(nt):
            c = [count.get((k, t), 0) for k in ("dispatch", "start", "finish", "receive")]
            if c != [1, 1, 1, 1]:
                bad.append("task %d: dispatch/start/finish/receive counts %r" % (t, c))
                break
        for t, g in enumerate(graph["tasks"]):
            if any(not (0 <= d < nt) for d in g["succ"] + g["compl"]):
                bad.append("task %d depends on a task outside the list" % t)
    # user records of workers lie inside a task span; per thread they form enter (act)* (exit|raise)
    cur = {}
    for i, r in enumerate(tr):
        if r[0] != "user":
            continue
        th = r[1]
        root = th
        while threads.get(root, {}).get("parent") is not None:
            root = threads[root]["parent"]
        if threads.get(root, {}).get("kind") == "worker":
            if not any(a < i and (b is None or i < b) for _, a, b in spans.get(root, [])):
                bad.append("user record %d of worker %d outside any task span" % (i, root))
                break
        key = json.dumps(r[2])
        stack = cur.setdefault(th, [])          # a `blk` unit (body of an attachment block) nests inside its parent's records
        if r[3] == "enter":
            nested = len(r[2]) >= 2 and r[2][-2] == "blk"
            if stack and not (nested and stack[-1] == json.dumps(r[2][:-2])):
                bad.append("record %d: unit %s entered while %s is open on thread %d" % (i, key, stack[-1], th))
                break
            stack.append(key)
        else:
            if not stack or stack[-1] != key:
                bad.append("record %d: %s of unit %s but open unit of thread %d is %r" % (i, r[3], key, th, stack[-1] if stack else None))
                break
            if r[3] == "exit" or r[3].startswith("raise:"):
                stack.pop()
    ks = [r[1] for r in tr if r[0] == "handled"]
    if ks != list(range(len(ks))):
        bad.append("handled indices are not 0..n-1: %r" % ks[:10])
    raw = {n for n, _, _ in obs.get("attachments", [])}
    for _, name in obs.get("att_names", []):
        if name.split("/", 1)[-1] not in raw:
            bad.append("attachment event %r without a file" % name)
    return bad


# ------------------------------------------------------------------------------------------------
# one project: all configurations
# ------------------------------------------------------------------------------------------------

def configs_for(project, profile, i, seed, full=True):
    out = []
    for n in THREADS:
        for s in STRATEGIES:
            out.append({"n": n, "strategy": s, "gseed": (seed * 1000003 + i * 31 + n) & 0xFFFFFF, "interrupt": None, "fault": None})
    return out


def run_cfg(project, cfg, watchdog=30.0):
    p = dict(project, nb_threads=cfg["n"])
    return p, O.run_project(p, strategy=cfg["strategy"], gate_seed=cfg["gseed"], interrupt_at=cfg["interrupt"],
                            backend_fault=cfg["fault"], watchdog=watchdog)


def check(p, obs):
    """-> (invariant failures, [(signature, message)])"""
    inv = invariants(p, obs)
    fails = []
    for name, fs in X.run_all(p, obs).items():
        fails += [(f.signature, f.message) for f in fs]
    return inv, fails


def job(args):
    profile, i, seed = args
    rng = C.rng_for(seed, "run-selftest-" + profile, i)
    project = G.gen_project(rng, profile)
    res = {"profile": profile, "i": i, "features": G.features(project), "size": G.size(project), "runs": [], "errors": [],
           "ntests": sum(1 for _ in G.iter_tests(project))}
    try:
        B.validate_with_real_code(project)
    except Exception as e:
        res["errors"].append("real validation rejects the generated project: %s: %s" % (type(e).__name__, e))
        return res
    for q in list(G.shrink_project(project))[:3]:
        try:
            B.validate_with_real_code(q)
        except Exception as e:
            res["errors"].append("real validation rejects a SHRUNK project: %s: %s" % (type(e).__name__, e))
    base = None
    nb_events = 0
    ngets = 0
    nquiet = 0
    for cfg in configs_for(project, profile, i, seed):
        t0 = time.time()
        p, obs = run_cfg(project, cfg)
        dt = time.time() - t0
        inv, fails = check(p, obs)
        if cfg["n"] == 1 and cfg["strategy"] == "off":
            base = obs
            nb_events = obs["nb_events"]
            ngets = sum(1 for r in obs["trace"] if r[0] == "receive")
        elif profile == "independent" and base is not None:
            fails += [(f.signature, f.message) for f in X.c05_compare(p, base, obs)]
        if cfg["n"] == 2 and cfg["strategy"] == "fifo":
            nquiet = len(obs["released"])
        res["runs"].append({"cfg": cfg, "dt": dt, "outcome": sorted(obs["outcome"])[0] + (":" + obs["outcome"].get("raised", "") if "raised" in obs["outcome"] else ""),
                            "inv": inv, "fails": fails, "events": obs["nb_events"], "records": len(obs["trace"])})
    # interrupts and backend faults on a subset
    if profile in ("basic", "perthread") and i % 2 == 0 and ngets >= 1:
        for j, n in enumerate([1, 2, 3, 2, 3]):
            k = 1 + rng.randrange(ngets)
            cfg = {"n": n, "strategy": ["off", "fifo", "random"][(i // 2 + j) % 3], "gseed": i, "interrupt": ["get", k], "fault": None}
            if j >= 3:
                # at a quiescent point of the gate controller: a stable, chosen set of tasks is in flight
                if not nquiet:
                    continue
                cfg = {"n": n, "strategy": ["fifo", "lifo", "random"][(i // 2 + j) % 3], "gseed": i,
                       "interrupt": ["quiescent", 1 + rng.randrange(nquiet)], "fault": None}
            p, obs = run_cfg(project, cfg)
            inv, fails = check(p, obs)
            res["runs"].append({"cfg": cfg, "dt": 0, "outcome": sorted(obs["outcome"])[0], "inv": inv, "fails": fails,
                                "events": obs["nb_events"], "records": len(obs["trace"]),
                                "delivered": any(r[0] == "interrupt" for r in obs["trace"])})
    if profile in ("basic", "valid-clean") and i % 2 == 1 and nb_events >= 1:
        for j, n in enumerate([1, 2, 3]):
            k = rng.randrange(nb_events)
            cls = O.FAULT_CLASSES[(i // 2 + j) % len(O.FAULT_CLASSES)]
            cfg = {"n": n, "strategy": ["off", "lifo", "random"][(i // 2 + j) % 3], "gseed": i, "interrupt": None,
                   "fault": {"k": k, "cls": cls, "text": FAULT_TEXT}}
            p, obs = run_cfg(project, cfg)
            inv, fails = check(p, obs)
            res["runs"].append({"cfg": cfg, "dt": 0, "outcome": sorted(obs["outcome"])[0], "inv": inv, "fails": fails,
                                "events": obs["nb_events"], "records": len(obs["trace"]),
                                "fault_fired": any(r[0] == "backend-raise" for r in obs["trace"])})
    return res


# ------------------------------------------------------------------------------------------------
# minimisation of one example per signature
# ------------------------------------------------------------------------------------------------

def signature_hits(project, cfg, sig, tries, base_project=None):
    for _ in range(tries):
        p, obs = run_cfg(project, cfg, watchdog=20.0)
        fs = [s for s, _ in check(p, obs)[1]]
        if sig.startswith("C05/"):
            p1, o1 = run_cfg(project, dict(cfg, n=1, strategy="off", interrupt=None, fault=None))
            fs += [f.signature for f in X.c05_compare(p, o1, obs)]
        if sig in fs:
            return True
    return False


def minimise(project, cfg, sig, budget=120, tries=2):
    evals = 0
    improved = True
    while improved and evals < budget:
        improved = False
        for q in G.shrink_project(project):
            evals += 1
            if evals > budget:
                break
            c = dict(cfg)
            if c["n"] > q["nb_threads"]:
                pass
            if signature_hits(q, c, sig, tries):
                project, improved = q, True
                break
        # fewer threads
        for n in (1, 2, 3):
            if n < cfg["n"] and signature_hits(project, dict(cfg, n=n), sig, tries):
                cfg = dict(cfg, n=n)
                improved = True
                break
    return project, cfg


def compact(project):
    """one-line rendering of a project for the summary"""
    def script(sc):
        out = []
        for a in sc:
            k = a["a"]
            if k == "log":
                out.append("log-" + a["level"])
            elif k == "check":
                out.append("check-" + ("ok" if a["ok"] else "FAILED"))
            elif k == "raise":
                out.append("RAISE-" + a["kind"] + ("(subclass)" if a.get("sub") else ""))
            elif k == "thread":
                out.append("thread[%s]" % script(a["script"]))
            elif k == "attachw":
                out.append("with-attachment[%s]" % script(a["script"]))
            else:
                out.append(k)
        return ",".join(out)

    def suite(s):
        bits = []
        if s["disabled"]:
            bits.append("DISABLED")
        if s["injected"]:
            bits.append("inject=%s" % ",".join(s["injected"]))
        if s["setup_suite"]:
            bits.append("setup_suite(%s){%s}" % (",".join(s["setup_suite"]["params"]), script(s["setup_suite"]["script"])))
        for h in G.HOOKS[1:]:
            if s[h] is not None:
                bits.append("%s{%s}" % (h, script(s[h])))
        for t in s["tests"]:
            b = "%s(%s)" % (t["name"], ",".join(t["fixtures"]))
            if t["disabled"]:
                b += " disabled=%r" % (t["disabled"],)
            if t["deps"]:
                b += " deps=" + "+".join(".".join(d) for d in t["deps"])
            b += " rank=%d {%s}" % (t["rank"], script(t["script"]))
            bits.append(b)
        for x in s["suites"]:
            bits.append(suite(x))
        return "%s[rank=%d: %s]" % (s["name"], s["rank"], "; ".join(bits))
    fxs = []
    for fx in project["fixtures"]:
        fxs.append("%s%s:%s%s%s(%s){%s}%s" % (
            fx["name"], "/" + "/".join(fx["names"][1:]) if fx["names"] else "", fx["scope"], "/per_thread" if fx["per_thread"] else "",
            "/gen" if fx["gen"] else "", ",".join(fx["params"]), script(fx["setup"]),
            "->{%s}" % script(fx["teardown"]) if fx["gen"] else ""))
    flags = [k for k in ("force_disabled", "stop_on_failure") if project[k]]
    return "fixtures: %s | suites: %s | %s" % (" ".join(fxs) or "-", " ".join(suite(s) for s in project["suites"]), " ".join(flags) or "no flags")


# which known defect (DESIGN.md section 6) a failure signature belongs to, judged on the MINIMISED example
def classify(sig, project, cfg):
    feats = set(G.features(project))
    scripts = list(G.scripts_of(project))
    empties = any(f.startswith("empty-suite") for f in feats)
    pt_fail = any(fx["per_thread"] and any(G.act_fails(a) for a in G.iter_acts(fx["setup"])) for fx in project["fixtures"])
    if "interrupted-in-lcc-thread" in sig:
        return "new N1 (abort of an lcc.Thread after Ctrl-C is recorded nowhere)"
    if project["force_disabled"] and empties and ("teardown-missing" in sig or "teardown-order" in sig) and not cfg.get("interrupt"):
        return "new N2 (suite teardown task does not depend on the suite initialisation task; suite without tests under --force-disabled)"
    if project["force_disabled"] and empties and "unneeded-fixture-evaluated" in sig:
        return "new N3 (fixtures of a suite without tests are evaluated under --force-disabled)"
    if cfg.get("fault"):
        if sig.startswith("C11/teardowns/teardown-missing/pre_run"):
            return "D17"
        if sig.startswith("C11/original-text-lost/UnicodeEncodeError"):
            return "D10"
    if sig.endswith("teardown-missing/pre_run"):
        return "D17"
    if cfg.get("interrupt") and cfg["n"] >= 2 and ("teardown" in sig or "enclosing-scope" in sig or sig.startswith("C07/")
                                                  or sig.startswith("C02/failed-without-failure")):
        # e.g. an in-flight test fails with "Cannot get fixture ... result" after the early teardown
        return "D11 REGRESSION? (fixed: skip_all_tasks releases the remaining tasks in dependency order)"
    if cfg.get("interrupt") and any(fx["per_thread"] and fx["setup"] for fx in project["fixtures"]):
        return "D3 (per-thread fixture setup aborted by the interrupt, outside the guarded region)"
    if sig.startswith("C05/order-depends-on-schedule/equal-ranks"):
        return "D5"
    if sig.startswith("C08/abort-suite/") and sig.rsplit("/", 1)[-1] in ("setup_test", "teardown_test", "fixture-setup", "fixture-teardown"):
        return "D2" if not pt_fail else "D2/D3"
    if pt_fail:
        return "D3"
    if empties and cfg["n"] >= 2 and sig.split("/")[0] in ("C01", "C07", "C05", "C08", "C04"):
        return "D1"
    if sig.endswith("teardown-missing/pre_run") and any(fx["scope"] == "pre_run" and fx["gen"] for fx in project["fixtures"]):
        return "D17"
    return "new?"


# ------------------------------------------------------------------------------------------------
# hand-written minimal witnesses of the known defects (DESIGN.md section 6) and of the ones found here
# ------------------------------------------------------------------------------------------------

def _t(name, fixtures=(), script=(), deps=(), rank=1, disabled=False):
    return {"name": name, "rank": rank, "disabled": disabled, "deps": [list(d) for d in deps], "fixtures": list(fixtures), "script": list(script)}


def _s(name, tests=(), suites=(), rank=1, **kw):
    s = {"name": name, "rank": rank, "disabled": False, "setup_suite": None, "teardown_suite": None, "setup_test": None,
         "teardown_test": None, "injected": [], "tests": list(tests), "suites": list(suites)}
    s.update(kw)
    return s


def _f(name, scope, setup=(), teardown=None, params=(), per_thread=False, names=None):
    return {"name": name, "names": names, "scope": scope, "per_thread": per_thread, "params": list(params), "gen": teardown is not None,
            "setup": list(setup), "teardown": list(teardown or [])}


def _p(suites, fixtures=(), n=1, force=False, stop=False):
    return {"fixtures": list(fixtures), "suites": list(suites), "nb_threads": n, "force_disabled": force, "stop_on_failure": stop}


_LOG, _GATE = {"a": "log", "level": "info"}, {"a": "gate"}


def _raise(kind):
    return {"a": "raise", "kind": kind}


def _cfg(n, strategy="off", interrupt=None, fault=None):
    return {"n": n, "strategy": strategy, "gseed": 1, "interrupt": interrupt, "fault": fault}


WITNESSES = [
    ("D1 suite without tests, 2 threads: SuiteEnd before SuiteStart", "C01/suite-closed-before-opened",
     _p([_s("s0", [_t("t0")], [_s("s1")])]), _cfg(2)),
    ("D19 suite without tests, --force-disabled, 2 threads: suite teardown task runs before the initialisation task", "C03/teardown-missing/teardown_suite",
     _p([_s("s0", [_t("t0", script=[_GATE, _LOG])], [_s("s1", teardown_suite=[_LOG])])], force=True), _cfg(2)),
    ("D2 AbortSuite raised in setup_test", "C08/abort-suite/not-skipped-after-abort/setup_test",
     _p([_s("s0", [_t("t0"), _t("t1", rank=2)], setup_test=[_raise("AbortSuite")])]), _cfg(1)),
    ("D2 AbortSuite raised in teardown_test", "C08/abort-suite/body-entered-after-abort/teardown_test",
     _p([_s("s0", [_t("t0"), _t("t1", rank=2)], teardown_test=[_raise("AbortSuite")])]), _cfg(1)),
    ("D2 AbortSuite raised in a test-scoped fixture", "C08/abort-suite/body-entered-after-abort/fixture-setup",
     _p([_s("s0", [_t("t0", ["f0"]), _t("t1", rank=2)])], [_f("f0", "test", [_raise("AbortSuite")])]), _cfg(1)),
    ("(control) AbortSuite raised in a test body skips the rest of the suite", None,
     _p([_s("s0", [_t("t0", script=[_raise("AbortSuite")]), _t("t1", rank=2)])]), _cfg(1)),
    ("D3 per-thread fixture whose setup raises", "C01/test-without-terminal-status",
     _p([_s("s0", [_t("t0", ["f0"])])], [_f("f0", "suite", [_raise("exc")], per_thread=True)]), _cfg(1)),
    ("D3' per-thread fixture whose setup logs an error: the body still runs", "C03/consumer-ran-after-failed-setup/test",
     _p([_s("s0", [_t("t0", ["f0"], [_LOG])])], [_f("f0", "suite", [{"a": "log", "level": "error"}], per_thread=True)]), _cfg(1)),
    ("D5 equal ranks: report order follows completion order", "C05/order-depends-on-schedule/equal-ranks",
     _p([_s("s0", [_t("ta", deps=[["s1", "x"]], rank=0), _t("tb", deps=[["s1", "y"]], rank=0)]),
         _s("s1", [_t("x", script=[_GATE]), _t("y", script=[_GATE], rank=2)], rank=2)]), _cfg(2, "lifo")),
    ("(control) distinct ranks: report order is the declaration order whatever the completion order", None,
     _p([_s("s0", [_t("ta", deps=[["s1", "x"]], rank=1), _t("tb", deps=[["s1", "y"]], rank=2)]),
         _s("s1", [_t("x", script=[_GATE]), _t("y", script=[_GATE], rank=2)], rank=2)]), _cfg(2, "lifo")),
    # D11 (fixed): before the repair of skip_all_tasks this input gave C03/teardown-before-last-use/session (the session
    # teardown task was handed to the pool at the interrupt, while t0 / t1 were still running); now a CONTROL
    ("D11 (control, fixed) interrupt with 3 workers, two tests in flight: the session fixture is torn down only after they ended", None,
     _p([_s("s0", [_t("t0", ["f0"], [_GATE, _GATE]), _t("t1", [], [_GATE, _GATE], rank=2)])], [_f("f0", "session", [], [_LOG])]),
     _cfg(3, "fifo", interrupt=["quiescent", 1])),
    ("D17 pre_run generator fixture + failing backend: never torn down", "C11/teardowns/teardown-missing/pre_run",
     _p([_s("s0", [_t("t0", ["f0"])])], [_f("f0", "pre_run", [], [])]), _cfg(1, fault={"k": 1, "cls": "Exception", "text": FAULT_TEXT})),
    ("D10 backend raises UnicodeEncodeError: original text lost", "C11/original-text-lost/UnicodeEncodeError",
     _p([_s("s0", [_t("t0")])]), _cfg(1, fault={"k": 1, "cls": "UnicodeEncodeError", "text": FAULT_TEXT})),
    ("N1 lcc.Thread aborted after Ctrl-C: nothing recorded, test passed", "C02/passed-despite-failure/test/interrupted-in-lcc-thread",
     _p([_s("s0", [_t("t0", [], [_GATE, {"a": "thread", "script": [_LOG]}]), _t("t1", [], [_GATE], rank=2)])]),
     _cfg(2, "fifo", interrupt=["quiescent", 1])),
    ("N3 --force-disabled: fixture of a suite without tests is evaluated", "C03/unneeded-fixture-evaluated/suite/force-disabled",
     _p([_s("s0", [_t("t0")]), _s("s1", injected=["f0"], rank=2)], [_f("f0", "suite")], force=True), _cfg(1)),
]


def run_witnesses():
    print("\n== witnesses of known defects (expected signature -> observed on this tree)")
    ok = True
    for title, sig, project, cfg in WITNESSES:
        G.check_valid(project)
        B.validate_with_real_code(project)
        sigs = set()
        for _ in range(3):
            p, obs = run_cfg(project, cfg)
            inv, fails = check(p, obs)
            if inv:
                ok = False
                print("   INVARIANT BROKEN on witness %r: %s" % (title, inv[:2]))
            sigs |= {s for s, _ in fails}
            if (sig and sig.startswith("C05/")) or "ranks" in title:
                p1, o1 = run_cfg(project, dict(cfg, n=1, strategy="off"))
                sigs |= {f.signature for f in X.c05_compare(p, o1, obs)}
            if sig is None or sig in sigs:
                break
        if sig is None:
            if sigs:
                ok = False
            print("   %-100s %s" % (title, "no failure (as expected)" if not sigs else "UNEXPECTED: %s" % sorted(sigs)))
        else:
            print("   %-100s %s" % (title, "REPRODUCED  " + sig if sig in sigs else "not reproduced (fixed on this tree?)  other: %s" % (sorted(sigs)[:4] or "-")))
    return ok


# ------------------------------------------------------------------------------------------------
# main
# ------------------------------------------------------------------------------------------------

def throughput(seed, n=120):
    projs = []
    for i in range(n):
        p = G.gen_project(C.rng_for(seed, "run-selftest-throughput", i), "basic")
        if sum(1 for _ in G.iter_tests(p)) <= 4:
            projs.append(p)
    t0 = time.time()
    for p in projs:
        O.run_project(dict(p, nb_threads=2), strategy="off")
    dt = time.time() - t0
    return len(projs), dt


def main(argv=None):
    ap = argparse.ArgumentParser()
    ap.add_argument("n", nargs="?", type=int, default=50)
    ap.add_argument("--seed", type=int, default=int(os.environ.get("VERIF_SEED", "0")))
    ap.add_argument("--profiles", default="basic,independent,perthread,valid-clean")
    ap.add_argument("--jobs", type=int, default=min(12, os.cpu_count() or 2))
    ap.add_argument("--no-shrink", action="store_true")
    ap.add_argument("--json", default=None)
    a = ap.parse_args(argv)
    t_start = time.time()
    profiles = a.profiles.split(",")
    jobs = [(pf, i, a.seed) for pf in profiles for i in range(a.n)]
    if a.jobs > 1:
        with multiprocessing.get_context("fork").Pool(a.jobs) as pool:
            results = list(pool.imap_unordered(job, jobs, chunksize=2))
    else:
        results = [job(j) for j in jobs]
    results.sort(key=lambda r: (r["profile"], r["i"]))
    t_sweep = time.time() - t_start

    # ---- distribution
    print("== run-level self-test: %d projects/profile x %s, seed %d, %d runs in %.1f s (%d processes)" % (
        a.n, profiles, a.seed, sum(len(r["runs"]) for r in results), t_sweep, a.jobs))
    hard = []
    for pf in profiles:
        rs = [r for r in results if r["profile"] == pf]
        hist = {}
        for r in rs:
            for f in r["features"]:
                hist[f] = hist.get(f, 0) + 1
            hard += ["%s#%d: %s" % (pf, r["i"], e) for e in r["errors"]]
        sizes = sorted(r["size"] for r in rs)
        nts = sorted(r["ntests"] for r in rs)
        outcomes = {}
        ev = []
        for r in rs:
            for run in r["runs"]:
                outcomes[run["outcome"]] = outcomes.get(run["outcome"], 0) + 1
                ev.append(run["events"])
        print("\n-- profile %s: %d projects; size min/med/max %d/%d/%d; tests min/med/max %d/%d/%d; events/run med %d max %d" % (
            pf, len(rs), sizes[0], sizes[len(sizes) // 2], sizes[-1], nts[0], nts[len(nts) // 2], nts[-1],
            sorted(ev)[len(ev) // 2], max(ev)))
        print("   outcomes: " + ", ".join("%s=%d" % kv for kv in sorted(outcomes.items())))
        print("   features: " + ", ".join("%s=%d" % kv for kv in sorted(hist.items())))
        intr = [run for r in rs for run in r["runs"] if run["cfg"]["interrupt"]]
        flt = [run for r in rs for run in r["runs"] if run["cfg"]["fault"]]
        if intr:
            print("   interrupt runs: %d (delivered %d)" % (len(intr), sum(1 for x in intr if x.get("delivered"))))
        if flt:
            print("   backend-fault runs: %d (fault reached %d)" % (len(flt), sum(1 for x in flt if x.get("fault_fired"))))
    # per-strategy speed
    speed = {}
    for r in results:
        for run in r["runs"]:
            if run["dt"]:
                k = run["cfg"]["strategy"]
                speed.setdefault(k, []).append(run["dt"])
    print("\n-- mean run time per strategy (inside the sweep, %d processes): " % a.jobs + ", ".join(
        "%s %.1f ms" % (k, 1000 * sum(v) / len(v)) for k, v in sorted(speed.items())))
    n_tp, dt_tp = throughput(a.seed)
    print("-- throughput, single process, small projects (<= 4 tests), 2 threads, strategy off: %d projects in %.2f s = %.0f projects/s" % (
        n_tp, dt_tp, n_tp / dt_tp))

    # ---- invariants
    inv = {}
    for r in results:
        for run in r["runs"]:
            for m in run["inv"]:
                inv.setdefault(m.split(":")[0][:80], []).append((r["profile"], r["i"], run["cfg"]))
    print("\n== recorder invariants: %s" % ("all hold" if not inv and not hard else "BROKEN"))
    for m, xs in inv.items():
        print("   %s  x%d  e.g. %s#%d %r" % (m, len(xs), xs[0][0], xs[0][1], xs[0][2]))
    for e in hard:
        print("   " + e)

    # ---- oracle failures
    groups = {}
    for r in results:
        for run in r["runs"]:
            for sig, msg in run["fails"]:
                g = groups.setdefault(sig, {"count": 0, "projects": set(), "best": None})
                g["count"] += 1
                g["projects"].add((r["profile"], r["i"]))
                if g["best"] is None or r["size"] < g["best"][0]:
                    g["best"] = (r["size"], r["profile"], r["i"], run["cfg"], msg)
    print("\n== oracle failures on this tree: %d signatures" % len(groups))
    summary = []
    for sig in sorted(groups):
        g = groups[sig]
        size, pf, i, cfg, msg = g["best"]
        project = G.gen_project(C.rng_for(a.seed, "run-selftest-" + pf, i), pf)
        mcfg = cfg
        if not a.no_shrink:
            try:
                if signature_hits(project, cfg, sig, 3):
                    project, mcfg = minimise(project, cfg, sig)
            except Exception as e:   # never lose the summary because of the minimiser
                print("   (minimiser error: %s)" % e)
        cls = classify(sig, project, mcfg)
        summary.append({"signature": sig, "runs": g["count"], "projects": len(g["projects"]), "class": cls, "cfg": mcfg,
                        "project": project, "message": msg})
        print("\n  %-62s %5d runs / %3d projects   [%s]" % (sig, g["count"], len(g["projects"]), cls))
        print("     e.g. %s#%d: %s" % (pf, i, " ".join(msg.split())[:300]))
        print("     minimal: threads=%d strategy=%s%s%s" % (
            mcfg["n"], mcfg["strategy"], " interrupt=%r" % mcfg["interrupt"] if mcfg["interrupt"] else "",
            " fault=%r" % {k: mcfg["fault"][k] for k in ("k", "cls")} if mcfg["fault"] else ""))
        print("       " + compact(project))
    wit_ok = run_witnesses()
    if a.json:
        with open(a.json, "w") as fh:
            json.dump({"seed": a.seed, "n": a.n, "failures": summary}, fh, indent=1, default=list)
    # ---- leaked threads
    time.sleep(0.5)
    leaked = [t for t in threading.enumerate() if t is not threading.main_thread() and not t.daemon and t.is_alive()]
    if leaked:
        print("\n== LEAKED non-daemon threads: %r" % leaked)
    print("\n== total %.1f s" % (time.time() - t_start))
    code = 1 if (inv or hard or leaked or not wit_ok) else 0
    sys.stdout.flush()
    os._exit(code) if leaked else sys.exit(code)


if __name__ == "__main__":
    main()

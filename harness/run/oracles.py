"""
Model-independent property oracles over (project, obs) — written from the property statements (properties.jsonl) and
the observation of the REAL run only (obs = run.observe.run_project(...)).  They never consult a model.

Every oracle returns a list of common.Failure with stable signatures "C0x/<what>[/<where>]".

How the evidence is read
  * An act executed iff its `act:<i>` user record exists; a unit "fails" iff one of its executed acts is an error log,
    a failed check, a raise (`raise:*` record, `raise:interrupted` included) — or the same inside the script of one of
    its `thread` acts (the child unit U+["th",i], run by the lcc.Thread) or of one of its `attachw` acts (the child
    unit U+["blk",i], the body of a `with lcc.prepare_attachment(..)` block run by the same thread, nested inside
    U's records).
  * A user record belongs to the task whose [start t w … finish t] span of worker w contains it (lcc.Thread children
    are mapped to their creating thread through obs["threads"][*]["parent"]); records of thread 0 outside any span
    are the pre_run fixtures.
  * The report location of a task: test -> the test; init -> suite setup; teardown -> suite teardown; sessSetup /
    sessTeardown -> session setup / teardown.
"""
import copy
import json
import re

import common as C

from run import gen as G

F = C.Failure
TERMINAL = ("passed", "failed", "skipped", "disabled")


def _k(x):
    return json.dumps(x, separators=(",", ":"))


def unit_suffix(unit):
    """the nesting markers of a unit id: [] for a fixture / hook / body unit itself, then one "th" (script of an
    lcc.Thread) or "blk" (body of a `with prepare_attachment` block) per level"""
    n = {"fx": 3, "hook": 4, "body": 2}.get(unit[0], len(unit))
    return [unit[k] for k in range(n, len(unit), 2)]


def is_block(unit):
    return len(unit) >= 2 and unit[-2] == "blk"


def in_side_thread(unit):
    return "th" in unit_suffix(unit)


def is_nested(unit):
    return bool(unit_suffix(unit))


class Exec:
    """one execution of a unit by one thread"""
    __slots__ = ("unit", "thread", "enter", "end", "end_kind", "acts", "extra", "task", "root", "children", "key", "end_extra")

    def __repr__(self):
        return "<Exec %s th=%s [%s..%s] %s task=%s>" % (_k(self.unit), self.thread, self.enter, self.end, self.end_kind, self.task)


class View:
    def __init__(self, project, obs):
        self.p, self.o = project, obs
        self.trace = obs["trace"]
        self.tasks = (obs.get("graph") or {"tasks": []})["tasks"]
        self.byname = G.fixtures_by_name(project)
        self.byprim = {fx["name"]: fx for fx in project["fixtures"]}
        self.force = project["force_disabled"]
        self.tests, self.suites = {}, {}
        for sp, s, dis in G.iter_suites(project):
            self.suites[tuple(sp)] = (s, dis)
        for tp, t, sp, s, dis in G.iter_tests(project):
            self.tests[tuple(tp)] = {"t": t, "sp": tuple(sp), "s": s, "disabled": dis, "path": tuple(tp)}
        self.threads = {int(k): v for k, v in obs.get("threads", {}).items()}
        self.fx_tokens = {int(k): v for k, v in obs.get("fx_tokens", {}).items()}
        self.hang = bool(obs["outcome"].get("hang"))
        # ---- scheduler records
        self.pos = {}      # (kind, task) -> [indices]
        self.spans = {}    # worker -> [(start idx, finish idx|inf, task)]
        self.interrupt_at = None
        self.fires, self.handled, self.backend_raise = [], [], None
        open_span = {}
        for i, r in enumerate(self.trace):
            k = r[0]
            if k in ("dispatch", "start", "ctx", "mode", "finish", "receive"):
                self.pos.setdefault((k, r[1]), []).append(i)
                if k == "start":
                    w = r[2]
                    open_span[r[1]] = [i, float("inf"), r[1]]
                    self.spans.setdefault(w, []).append(open_span[r[1]])
                elif k == "finish" and r[1] in open_span:
                    open_span[r[1]][1] = i
            elif k == "interrupt" and self.interrupt_at is None:
                self.interrupt_at = i
            elif k == "fire":
                self.fires.append((i, r[1], r[2]))
            elif k == "handled":
                self.handled.append((i, r[1]))
            elif k == "backend-raise":
                self.backend_raise = (i, r[1], r[2])
        self.task_of_path = {}
        for ti, t in enumerate(self.tasks):
            self.task_of_path[(t["kind"], tuple(t["path"]) if t["path"] is not None else None)] = ti
        # ---- unit executions
        self.execs = []
        cur = {}           # thread -> stack of open executions (a `blk` unit is nested inside its parent's records)
        for i, r in enumerate(self.trace):
            if r[0] != "user":
                continue
            _, th, unit, what, extra = r
            stack = cur.setdefault(th, [])
            if what == "enter":
                e = Exec()
                e.unit, e.thread, e.enter, e.end, e.end_kind, e.acts, e.extra = unit, th, i, None, None, [], extra or {}
                e.end_extra = None
                e.root = self.root_thread(th)
                e.task = self.task_at(e.root, i)
                e.children, e.key = [], _k(unit)
                if is_block(unit):
                    if stack and stack[-1].key == _k(unit[:-2]):
                        stack[-1].children.append(e)
                    stack.append(e)
                else:
                    cur[th] = [e]
                self.execs.append(e)
            else:
                e = stack[-1] if stack else None
                if e is None or e.key != _k(unit):
                    continue      # reported by the recorder invariants
                if what.startswith("act:"):
                    e.acts.append((i, int(what[4:])))
                else:
                    e.end, e.end_kind, e.end_extra = i, what, extra
                    if len(stack) > 1:
                        stack.pop()
        by_unit_thread = {}
        for e in self.execs:
            if len(e.unit) >= 2 and e.unit[-2] == "th":
                # parent = the exec of unit[:-2] by the creating thread that was open when the child started
                par = self.threads.get(e.thread, {}).get("parent")
                pk = _k(e.unit[:-2])
                for q in by_unit_thread.get((pk, par), [])[::-1]:
                    if q.enter < e.enter:
                        q.children.append(e)
                        break
            by_unit_thread.setdefault((e.key, e.thread), []).append(e)

    # ---- helpers -------------------------------------------------------------------------------
    def root_thread(self, th):
        seen = 0
        while self.threads.get(th, {}).get("parent") is not None and seen < 10:
            th = self.threads[th]["parent"]
            seen += 1
        return th

    def task_at(self, worker, i):
        for a, b, t in self.spans.get(worker, []):
            if a < i < b:
                return t
        return None

    def first(self, kind, task):
        v = self.pos.get((kind, task))
        return v[0] if v else None

    def script_of(self, unit):
        base, path = unit, []
        while len(base) >= 2 and base[-2] in ("th", "blk"):
            path.insert(0, base[-1])
            base = base[:-2]
        sc = None
        if base[0] == "fx":
            fx = self.byprim.get(base[1])
            sc = fx and fx[base[2]]
        elif base[0] == "hook":
            s = self.suites.get(tuple(base[1]))
            if s:
                h = s[0][base[2]]
                sc = h["script"] if base[2] == "setup_suite" and h else h
        elif base[0] == "body":
            t = self.tests.get(tuple(base[1]))
            sc = t and t["t"]["script"]
        for i in path:
            sc = sc[i]["script"]
        return sc or []

    def thread_base_end(self, e):
        """the class name when this execution — the script of an lcc.Thread, or a block inside one — was left by a
        BaseException that is not an Exception (sys.exit() in the thread, GeneratorExit, a project's own BaseException)"""
        if in_side_thread(e.unit) and e.end_kind == "raise:exc" and isinstance(e.end_extra, dict):
            return e.end_extra.get("base")
        return None

    def silent_thread_end(self, e):
        """sys.exit() in an lcc.Thread is the regular way of ending a thread from the inside: `threading` ignores the
        SystemExit, nothing is to be recorded — the thread has ended, that is all.  Any OTHER BaseException that ends the
        target is an uncaught exception of the test like an Exception (fix D40: `Thread.run` logs it as an error)."""
        return "SystemExit" if self.thread_base_end(e) == "SystemExit" else None

    def exec_failed(self, e, ignore_interrupted_threads=False):
        """did this execution record a failure (error log / failed check / raise), child threads included"""
        is_child = in_side_thread(e.unit)
        silent = self.silent_thread_end(e)
        if e.end_kind and e.end_kind.startswith("raise") and not silent:
            if not (ignore_interrupted_threads and is_child and e.end_kind == "raise:interrupted"):
                return True
        sc = self.script_of(e.unit)
        for _, i in e.acts:
            if i < len(sc) and G.act_fails(sc[i]):
                if silent and sc[i]["a"] == "raise" and sc[i].get("base"):
                    continue        # the act that ended the thread
                return True
        return any(self.exec_failed(c, ignore_interrupted_threads) for c in e.children)

    def lazy_params_failed(self, e):
        """The runner's unit of setup is the whole call `_setup_fixture(name)`: parameter resolution first, then the
        function.  Resolving a parameter that is a per-thread fixture evaluates that fixture right there (first use
        by the thread), BEFORE the `enter` record of `e`; a failure it records belongs to `e`'s setup call."""
        if e.unit[0] != "fx" or e.unit[2] != "setup" or len(e.unit) != 3:
            return False
        fx = self.byprim.get(e.unit[1])
        if not fx:
            return False
        params = set(fx.get("params") or [])
        for q in reversed([x for x in self.execs if x.thread == e.thread and x.enter < e.enter and x.task == e.task
                           and not is_nested(x.unit)]):     # (blocks / threads of a fixture's script belong to that fixture's exec)
            if q.end is None or q.end > e.enter or q.unit[0] != "fx" or q.unit[2] != "setup" or len(q.unit) != 3:
                break
            qfx = self.byprim.get(q.unit[1])
            if not qfx or not qfx.get("per_thread"):
                break
            names = set(qfx.get("names") or [qfx["name"]])
            if names & params and (q.end_kind != "exit" or self.exec_failed(q)):
                return True
        return False

    def clean(self, e):
        return e.end_kind == "exit" and not self.exec_failed(e) and not self.lazy_params_failed(e)

    def location_of_task(self, t):
        if t is None:
            return ("pre_run",)
        g = self.tasks[t]
        m = {"test": "test", "init": "setup", "teardown": "teardown", "sessSetup": "ssetup", "sessTeardown": "steardown"}
        k = m.get(g["kind"])
        if k is None:
            return ("none",)
        return (k,) if g["path"] is None else (k, tuple(g["path"]))

    def report_test_entries(self, path):
        rep = self.o.get("report")
        if not rep:
            return []
        level = [rep]
        key = "suites"
        for name in path[:-1]:
            nxt = []
            for node in level:
                nxt += [s for s in node["suites"] if s["md"]["name"] == name]
            level = nxt
        return [t for node in level if node is not rep for t in node["tests"] if t["md"]["name"] == path[-1]]

    def report_suite_entries(self, path):
        rep = self.o.get("report")
        if not rep:
            return []
        level = [rep]
        for name in path:
            nxt = []
            for node in level:
                nxt += [s for s in node["suites"] if s["md"]["name"] == name]
            level = nxt
        return level

    def status(self, path):
        es = self.report_test_entries(list(path))
        return es[0]["res"]["status"] if len(es) == 1 else None

    def details(self, path):
        es = self.report_test_entries(list(path))
        return es[0]["res"]["details"] if len(es) == 1 else None

    def body_exec(self, path):
        k = _k(["body", list(path)])
        return [e for e in self.execs if e.key == k]

    def deps_closure(self, path):
        out, todo = [], [tuple(d) for d in self.tests[tuple(path)]["t"]["deps"]]
        while todo:
            d = todo.pop()
            if d not in out:
                out.append(d)
                todo += [tuple(x) for x in self.tests[d]["t"]["deps"]]
        return out

    def prerun_failed(self):
        return any(e.task is None and e.unit[0] == "fx" and e.unit[2] == "setup" and self.byprim[e.unit[1]]["scope"] == "pre_run"
                   and not self.clean(e) for e in self.execs)

    def prerun_teardown_failed(self):
        """a pre_run fixture's teardown (user code) raised: run_suites reports it by raising after the session"""
        return any(e.task is None and e.unit[0] == "fx" and e.unit[2] == "teardown" and self.byprim[e.unit[1]]["scope"] == "pre_run"
                   and not self.clean(e) for e in self.execs)

    def fault_fired(self):
        return self.backend_raise is not None

    def handler_died(self):
        """the event handler thread stopped (a listener raised): the report and the backend stream are truncated"""
        return self.o.get("pending_failure_at") is not None

    def counted(self, tinfo):
        return self.force or not tinfo["disabled"]


def _view(project, obs, view):
    return view if view is not None else View(project, obs)


# ================================================================================================
# C01
# ================================================================================================

def c01(project, obs, view=None):
    v = _view(project, obs, view)
    out = []
    if v.hang or obs.get("watchdog"):
        return [F("C01/hang", "the run did not terminate (hang detected / watchdog)", obs.get("dump"))]
    oc = obs["outcome"]
    if "invalid" in oc:
        return [F("RUN/invalid-project", "the real validation rejected a generated project: %s" % oc)]
    # body at most once, disabled bodies only under force_disabled (independent of how the run ended)
    for tp, info in v.tests.items():
        n = len(v.body_exec(tp))
        if n > 1:
            out.append(F("C01/body-executed-twice", "body of %s entered %d times" % (".".join(tp), n)))
        if n and info["disabled"] and not v.force:
            out.append(F("C01/disabled-body-executed", "disabled test %s was executed without --force-disabled" % ".".join(tp)))
    if v.prerun_failed() or v.fault_fired():
        return out      # the session did not take place / the report writer's event loop was stopped on purpose
    if "raised" in oc and not (v.prerun_teardown_failed() and "fixture teardown (scope 'pre_run')" in oc.get("text", "")):
        out.append(F("C01/run-raised/" + oc["raised"], "run_suites raised %s on a valid project: %s" % (oc["raised"], oc["text"][:300])))
    for tp, info in v.tests.items():
        es = v.report_test_entries(list(tp))
        if len(es) == 0:
            out.append(F("C01/test-missing-from-report", "%s is not in the report" % ".".join(tp)))
        elif len(es) > 1:
            out.append(F("C01/test-reported-twice", "%s appears %d times in the report" % (".".join(tp), len(es))))
        elif es[0]["res"]["status"] not in TERMINAL:
            out.append(F("C01/test-without-terminal-status", "%s has status %r" % (".".join(tp), es[0]["res"]["status"])))
        nev = [e["e"] for _, _, e in v.fires if e["e"] in ("testStart", "testSkipped", "testDisabled") and tuple(e["path"]) == tp]
        if len(nev) > 1:
            out.append(F("C01/test-accounted-twice", "%s got %s" % (".".join(tp), nev)))
    for sp in v.suites:
        starts = [i for i, _, e in v.fires if e["e"] == "suiteStart" and tuple(e["path"]) == sp]
        ends = [i for i, _, e in v.fires if e["e"] == "suiteEnd" and tuple(e["path"]) == sp]
        if len(starts) != 1 or len(ends) != 1:
            out.append(F("C01/suite-not-opened-and-closed-once", "suite %s: %d start(s), %d end(s)" % (".".join(sp), len(starts), len(ends))))
        elif starts[0] > ends[0]:
            out.append(F("C01/suite-closed-before-opened", "suite %s: SuiteEnd fired before SuiteStart" % ".".join(sp)))
        es = v.report_suite_entries(list(sp))
        if len(es) != 1:
            out.append(F("C01/suite-not-once-in-report", "suite %s appears %d times in the report" % (".".join(sp), len(es))))
        elif es[0]["start"] is None or es[0]["end"] is None:
            out.append(F("C01/suite-not-closed-in-report", "suite %s start/end = %r/%r" % (".".join(sp), es[0]["start"], es[0]["end"])))
    return out


# ================================================================================================
# C02
# ================================================================================================

def _result_at(v, loc):
    rep = v.o.get("report")
    if not rep:
        return None
    if loc[0] == "ssetup":
        return rep["setup"]
    if loc[0] == "steardown":
        return rep["teardown"]
    if loc[0] == "test":
        es = v.report_test_entries(list(loc[1]))
        return es[0]["res"] if len(es) == 1 else None
    es = v.report_suite_entries(list(loc[1]))
    if len(es) != 1:
        return None
    return es[0]["setup"] if loc[0] == "setup" else es[0]["teardown"]


def _all_results(rep):
    if rep["setup"]:
        yield ("ssetup",), rep["setup"]
    if rep["teardown"]:
        yield ("steardown",), rep["teardown"]

    def walk(ss, prefix):
        for s in ss:
            p = prefix + (s["md"]["name"],)
            if s["setup"]:
                yield ("setup", p), s["setup"]
            if s["teardown"]:
                yield ("teardown", p), s["teardown"]
            for t in s["tests"]:
                yield ("test", p + (t["md"]["name"],)), t["res"]
            yield from walk(s["suites"], p)
    yield from walk(rep["suites"], ())


def c02(project, obs, view=None):
    v = _view(project, obs, view)
    out = []
    oc = obs["outcome"]
    if v.hang or "invalid" in oc or v.handler_died() or not obs.get("report"):
        return out          # a truncated report says nothing about verdicts (C01 / C11 report the truncation)
    failed_locs, hard_failed = {}, set()
    for e in v.execs:
        loc = v.location_of_task(e.task)
        if v.exec_failed(e):
            failed_locs.setdefault(loc, e)
            if v.exec_failed(e, ignore_interrupted_threads=True):
                hard_failed.add(loc)
    if v.prerun_failed():
        if "raised" not in oc:
            out.append(F("C02/pre_run-failure-not-raised", "a pre_run fixture failed but run_suites returned %r" % oc))
        return out
    rep = obs["report"]
    for loc, res in _all_results(rep):
        st = res["status"]
        where = loc[0]
        if st in ("skipped", "disabled", None):
            continue
        bad = loc in failed_locs
        if st == "passed" and bad:
            # after a keyboard interrupt an api call inside an lcc.Thread raises AbortTest; Thread.run's handler logs
            # through the interruptible log_error, which raises again: the abort of the side thread is recorded nowhere
            sig = "C02/passed-despite-failure/" + where + ("" if loc in hard_failed else "/interrupted-in-lcc-thread")
            out.append(F(sig, "%s is passed although %r recorded a failure" % (loc, failed_locs[loc])))
        if st == "failed" and not bad:
            out.append(F("C02/failed-without-failure/" + where, "%s is failed but no executed act of its units fails" % (loc,)))
    # "passed" also says: it ran to completion.  A test reported passed entered its body once and left it normally,
    # the hooks its suite defines around tests ran to their end, and every unit of user code started in it (fixture
    # setups / teardowns, threads, attachment blocks) ended normally; a phase reported passed ran its hook to the end.
    for loc, res in _all_results(rep):
        if res["status"] != "passed":
            continue
        why = None
        if loc[0] == "test":
            info = v.tests.get(tuple(loc[1]))
            if info is None:
                continue
            bodies = v.body_exec(loc[1])
            if not bodies:
                why = "its body was never entered"
            elif bodies[0].end_kind != "exit":
                why = "its body was left by %r" % (bodies[0].end_kind,)
            else:
                for h in ("setup_test", "teardown_test"):
                    if info["s"][h] is None:
                        continue
                    hs = [e for e in v.execs if e.unit[0] == "hook" and len(e.unit) == 4 and e.unit[2] == h
                          and tuple(e.unit[1]) == info["sp"] and e.unit[3] and tuple(e.unit[3]) == tuple(loc[1])]
                    if not hs or hs[0].end_kind != "exit":
                        why = "%s of its suite %s" % (h, "did not run" if not hs else "was left by %r" % (hs[0].end_kind,))
                        break
                ti = v.task_of_path.get(("test", tuple(loc[1])))
                if why is None and ti is not None:
                    for e in v.execs:
                        if e.task == ti and e.end_kind != "exit" and not v.silent_thread_end(e):
                            why = "%r did not run to its end (%r)" % (e, e.end_kind)
                            break
        elif loc[0] in ("setup", "teardown"):
            # (the teardown phase only runs the teardowns of the setups that completed: a teardown_suite hook that did
            # not run says nothing; one that ran must have ended normally)
            s_ = v.suites.get(tuple(loc[1]))
            hook = "setup_suite" if loc[0] == "setup" else "teardown_suite"
            if s_ is not None and s_[0][hook] is not None:
                hs = [e for e in v.execs if e.unit[0] == "hook" and len(e.unit) == 4 and e.unit[2] == hook and tuple(e.unit[1]) == tuple(loc[1])]
                if (not hs and loc[0] == "setup") or (hs and hs[0].end_kind != "exit"):
                    why = "%s %s" % (hook, "did not run" if not hs else "was left by %r" % (hs[0].end_kind,))
        if why:
            out.append(F("C02/passed-without-running-to-completion/" + loc[0], "%s is reported passed but %s" % (loc, why)))
    # an lcc.Thread whose target ends with a BaseException that is not an Exception: sys.exit() is the regular way of
    # ending a thread from the inside (nothing to report); any other class is an uncaught exception of user code
    # (D40, repaired: `Thread.run` used to let it pass unrecorded)
    for e in v.execs:
        base = v.thread_base_end(e)
        if base and base != "SystemExit" and not is_block(e.unit):
            loc = v.location_of_task(e.task)
            res = _result_at(v, loc) if loc[0] not in ("pre_run", "none") else None
            if res is not None and res["status"] == "passed":
                out.append(F("C02/passed-despite-uncaught-base-exception-in-lcc-thread/" + loc[0],
                             "%s is passed although the lcc.Thread %r ended with an uncaught %s" % (loc, e, base)))
    for loc, e in failed_locs.items():
        if loc[0] in ("pre_run", "none"):
            continue
        if _result_at(v, loc) is None:
            out.append(F("C02/failure-without-result/" + loc[0], "%r failed but the report has no result at %s" % (e, loc)))
    all_ok = all(res["status"] in ("passed", "disabled") for _, res in _all_results(rep))
    prerun_td_failed = any(e.task is None and e.unit[0] == "fx" and e.unit[2] == "teardown" and v.exec_failed(e) for e in v.execs)
    if "returned" in oc:
        if oc["returned"] != all_ok:
            out.append(F("C02/return-value-disagrees-with-report", "run_suites returned %r, all results passed/disabled = %r" % (oc["returned"], all_ok)))
        expect = not [l for l in failed_locs if l[0] not in ("pre_run", "none")] and not any(
            res["status"] == "skipped" for _, res in _all_results(rep))
        if oc["returned"] and not expect:
            soft = not [l for l in hard_failed if l[0] not in ("pre_run", "none")] and not any(
                res["status"] == "skipped" for _, res in _all_results(rep))
            out.append(F("C02/success-despite-failure" + ("/interrupted-in-lcc-thread" if soft else ""),
                         "run_suites returned True although a failure was recorded / a test was skipped"))
        if not oc["returned"] and expect and all(v.status(tp) in ("passed", "disabled") for tp in v.tests):
            out.append(F("C02/unsuccessful-without-failure", "run_suites returned False but nothing failed"))
        if prerun_td_failed:
            out.append(F("C02/pre_run-teardown-failure-not-raised", "a pre_run teardown raised but run_suites returned"))
    return out


# ================================================================================================
# C03
# ================================================================================================

def _fixture_instances(v):
    setups, teardowns = [], {}
    for e in v.execs:
        if e.unit[0] != "fx" or len(e.unit) != 3:
            continue
        tok = v.fx_tokens.get(e.enter)
        if e.unit[2] == "setup":
            setups.append((e, tok))
        else:
            teardowns.setdefault(tok, []).append(e)
    return setups, teardowns


def _consumer_context(v, e):
    """(suite path, test path|None) the consumer exec belongs to"""
    u = e.unit
    if u[0] == "body":
        return tuple(u[1][:-1]), tuple(u[1])
    if u[0] == "hook":
        return tuple(u[1]), (tuple(u[3]) if u[3] else None)
    if e.task is not None:
        g = v.tasks[e.task]
        if g["kind"] == "test":
            return tuple(g["path"][:-1]), tuple(g["path"])
        if g["path"] is not None:
            return tuple(g["path"]), None
    return None, None


def _needed(v):
    """registered names needed per instance, from the project description only"""
    per_test, per_suite = {}, {}
    for tp, info in v.tests.items():
        if v.counted(info):
            per_test[tp] = set(G.closure(v.p, info["t"]["fixtures"], v.byname))
    for sp, (s, dis) in v.suites.items():
        mine = [tp for tp, info in v.tests.items() if info["sp"] == sp and v.counted(info)]
        if mine:
            names = set(G.closure(v.p, G.suite_uses(s), v.byname))
            for tp in mine:
                names |= per_test[tp]
            per_suite[sp] = names
        else:
            per_suite[sp] = set()
    overall = set()
    for n in per_suite.values():
        overall |= n
    return per_test, per_suite, overall


def c03(project, obs, view=None, prefix="C03"):
    v = _view(project, obs, view)
    out = []
    if "invalid" in obs["outcome"]:
        return out
    setups, teardowns = _fixture_instances(v)
    by_token = {tok: e for e, tok in setups}
    last = len(v.trace)

    def scope_of(e):
        return v.byprim[e.unit[1]]["scope"]

    def end_of(e):
        return e.end if e.end is not None else last

    # -- 1. consumers: value identity, setup before use, teardown after use, right scope instance
    seen_values = {}
    consumers = [e for e in v.execs if e.extra]
    for tp, vals in obs.get("injected", []):
        for e in v.body_exec(tp):
            e2 = copy.copy(e)
            e2.extra = {n: t for n, t in vals.items()}
            consumers.append(e2)
            break
    for c in consumers:
        sp, tp = _consumer_context(v, c)
        for n, tok in c.extra.items():
            fx = v.byname.get(n)
            s = by_token.get(tok)
            if fx is None:
                continue
            scope = fx["scope"]
            if s is None or s.unit[1] != fx["name"]:
                out.append(F("%s/consumer-got-unknown-value/%s" % (prefix, scope), "%r received %r for %s" % (c, tok, n)))
                continue
            if s.end_kind != "exit" or s.end > c.enter:
                out.append(F("%s/use-before-setup-completed/%s" % (prefix, scope), "%r received %s whose setup %r had not completed" % (c, tok, s)))
            # the consumer holds the value until it ends; a consuming fixture holds it until its own teardown ends
            hold_end = end_of(c)
            if c.unit[0] == "fx":
                own = v.fx_tokens.get(c.enter)
                for t in teardowns.get(own, []):
                    hold_end = max(hold_end, end_of(t))
            for t in teardowns.get(tok, []):
                if t.enter < hold_end:
                    what = "teardown-before-last-use" if c.unit[0] != "fx" else "teardown-before-dependent-fixture"
                    out.append(F("%s/%s/%s" % (prefix, what, scope), "%s torn down at record %d while %r still used it (until %d)" % (tok, t.enter, c, hold_end)))
            # scope instance
            if fx["per_thread"]:
                inst = (scope, sp if scope == "suite" else None, c.root)
                if s.root != c.root:
                    out.append(F("%s/per-thread-value-crossed-threads" % prefix, "%r (thread %d) received %s created by thread %d" % (c, c.root, tok, s.root)))
                if scope == "suite" and (s.task is None or v.tasks[s.task]["kind"] != "test" or tuple(v.tasks[s.task]["path"][:-1]) != sp):
                    out.append(F("%s/value-from-wrong-scope-instance/suite" % prefix, "%r received %s created outside suite %s" % (c, tok, sp)))
            else:
                if scope == "test":
                    inst, ok = ("test", tp), (s.task == c.task and c.task is not None)
                elif scope == "suite":
                    inst = ("suite", sp)
                    ok = s.task is not None and v.tasks[s.task]["kind"] == "init" and tuple(v.tasks[s.task]["path"]) == sp
                elif scope == "session":
                    inst, ok = ("session",), (s.task is not None and v.tasks[s.task]["kind"] == "sessSetup")
                else:
                    inst, ok = ("pre_run",), s.task is None
                if not ok:
                    out.append(F("%s/value-from-wrong-scope-instance/%s" % (prefix, scope), "%r received %s set up in %s" % (c, tok, v.location_of_task(s.task))))
            seen_values.setdefault((n, inst), set()).add(tok)
    for (n, inst), toks in seen_values.items():
        if len(toks) > 1:
            out.append(F("%s/evaluated-more-than-once-per-instance/%s" % (prefix, v.byname[n]["scope"]), "consumers of %s in %s saw %s" % (n, inst, sorted(toks))))
    counts = {}
    for s, tok in setups:
        if s.end_kind != "exit":
            continue        # a failed attempt is not an evaluation (its consumers are checked in 6.)
        fx = v.byprim[s.unit[1]]
        key = (fx["name"], s.task, s.root if fx["per_thread"] else None)
        if fx["per_thread"]:
            g = v.tasks[s.task] if s.task is not None else None
            key = (fx["name"], tuple(g["path"][:-1]) if g and fx["scope"] == "suite" else None, s.root)
        counts[key] = counts.get(key, 0) + 1
    for key, n in counts.items():
        fx = v.byprim[key[0]]
        if n > len(G.fx_names(fx)):
            out.append(F("%s/evaluated-more-than-once-per-instance/%s" % (prefix, fx["scope"]), "%s evaluated %d times in instance %r" % (key[0], n, key[1:])))

    # -- 2. teardown exactly once for clean generator setups, none for failed ones
    if not v.hang:
        for s, tok in setups:
            fx = v.byprim[s.unit[1]]
            if not fx["gen"]:
                continue
            n = len(teardowns.get(tok, []))
            if v.clean(s):
                if n == 0:
                    out.append(F("%s/teardown-missing/%s" % (prefix, fx["scope"]), "%s (%r) was set up without failure and never torn down" % (tok, s)))
                elif n > 1:
                    out.append(F("%s/teardown-twice/%s" % (prefix, fx["scope"]), "%s torn down %d times" % (tok, n)))
            elif s.end_kind != "exit" and n:
                out.append(F("%s/teardown-of-failed-setup/%s" % (prefix, fx["scope"]), "%s: setup raised but a teardown ran" % tok))
            elif n > 1:
                out.append(F("%s/teardown-twice/%s" % (prefix, fx["scope"]), "%s torn down %d times" % (tok, n)))

    # -- 3. hooks as setup/teardown pairs
    hooks = {}
    for e in v.execs:
        if e.unit[0] == "hook" and len(e.unit) == 4:
            hooks.setdefault((tuple(e.unit[1]), e.unit[2], tuple(e.unit[3]) if e.unit[3] else None), []).append(e)
    pairs = []     # (scope, group key, setup exec, [teardown execs], label)
    for (sp, kind, tp), es in hooks.items():
        if len(es) > 1:
            out.append(F("%s/hook-run-twice/%s" % (prefix, kind), "%s of %s %s ran %d times" % (kind, sp, tp, len(es))))
        if kind == "setup_test":
            tds = hooks.get((sp, "teardown_test", tp), [])
            if v.suites[sp][0]["teardown_test"] is not None and not v.hang:
                if v.clean(es[0]) and len(tds) != 1:
                    out.append(F("%s/teardown-missing/teardown_test" % prefix if not tds else "%s/teardown-twice/teardown_test" % prefix,
                                 "setup_test of %s completed without failure, teardown_test ran %d times" % (tp, len(tds))))
            pairs.append(("test", ("test", tp), es[0], tds, "setup_test"))
        if kind == "setup_suite":
            tds = hooks.get((sp, "teardown_suite", None), [])
            if v.suites[sp][0]["teardown_suite"] is not None and not v.hang:
                if v.clean(es[0]) and len(tds) != 1:
                    out.append(F("%s/teardown-missing/teardown_suite" % prefix if not tds else "%s/teardown-twice/teardown_suite" % prefix,
                                 "setup_suite of %s completed without failure, teardown_suite ran %d times" % (sp, len(tds))))
            pairs.append(("suite", ("suite", sp), es[0], tds, "setup_suite"))
    # teardown-only hooks: at most once; exactly once when their phase ran cleanly up to them
    if not v.hang:
        for sp, (s, dis) in v.suites.items():
            if s["teardown_test"] is not None and s["setup_test"] is None:
                for tp, info in v.tests.items():
                    if info["sp"] == sp and v.status(tp) in ("passed", "failed") and not hooks.get((sp, "teardown_test", tp)):
                        out.append(F("%s/teardown-missing/teardown_test" % prefix, "test %s ran, its suite has teardown_test (no setup_test) but it never ran" % (tp,)))
            if s["teardown_suite"] is not None and s["setup_suite"] is None:
                ti = v.task_of_path.get(("init", sp))
                mi = v.first("mode", ti) if ti is not None else None
                if mi is not None and v.trace[mi][2] == "run":
                    init_failed = any(e.task == ti and v.exec_failed(e) for e in v.execs)
                    if not init_failed and not hooks.get((sp, "teardown_suite", None)):
                        out.append(F("%s/teardown-missing/teardown_suite" % prefix, "suite %s was initialised without failure, teardown_suite never ran" % (sp,)))

    # -- 4. reverse order of setup within one instance
    groups = {}
    for s, tok in setups:
        fx = v.byprim[s.unit[1]]
        if fx["per_thread"] or not fx["gen"]:
            continue
        tds = teardowns.get(tok, [])
        if fx["scope"] == "test":
            key = ("test", s.task)
        elif fx["scope"] == "suite":
            key = ("suite", tuple(v.tasks[s.task]["path"])) if s.task is not None and v.tasks[s.task]["path"] else ("suite", None)
        else:
            key = (fx["scope"],)
        if len(tds) == 1:
            groups.setdefault(key, []).append((s.enter, tds[0].enter, tok))
    for scope, gkey, se, tds, label in pairs:
        if len(tds) == 1:
            key = ("test", se.task) if scope == "test" else gkey
            groups.setdefault(key, []).append((se.enter, tds[0].enter, label))
    for key, items in groups.items():
        items.sort()
        tdorder = [x[1] for x in items]
        if tdorder != sorted(tdorder, reverse=True):
            out.append(F("%s/teardown-order-not-reverse/%s" % (prefix, key[0]), "instance %r: setups %s torn down in order %s" % (
                key, [x[2] for x in items], [x[2] for x in sorted(items, key=lambda x: x[1])])))

    # -- 5. the enclosing scope is torn down after everything it encloses
    users = [(i, r) for i, r in enumerate(v.trace) if r[0] == "user"]

    def task_of_record(i, r):
        return v.task_at(v.root_thread(r[1]), i)
    for e in v.execs:
        is_td = (e.unit[0] == "fx" and len(e.unit) == 3 and e.unit[2] == "teardown") or (e.unit[0] == "hook" and e.unit[2] == "teardown_suite")
        if not is_td:
            continue
        loc = v.location_of_task(e.task)
        if loc[0] == "teardown":
            sp = loc[1]
            inner = {ti for ti, g in enumerate(v.tasks) if (g["kind"] == "test" and tuple(g["path"][:-1]) == sp) or (g["kind"] == "init" and tuple(g["path"]) == sp)}
            late = [i for i, r in users if i > e.enter and task_of_record(i, r) in inner]
            scope = "suite"
        elif loc[0] == "steardown":
            late = [i for i, r in users if i > e.enter and task_of_record(i, r) not in (None, e.task)]
            scope = "session"
        elif loc[0] == "pre_run":
            late = [i for i, r in users if i > e.enter and task_of_record(i, r) is not None]
            scope = "pre_run"
        else:
            continue
        if late:
            out.append(F("%s/enclosing-scope-torn-down-first/%s" % (prefix, scope), "%r started at %d but enclosed user code still ran at %s: %s" % (
                e, e.enter, late[0], v.trace[late[0]][:4])))

    # -- 6. a failed setup blocks its consumers
    def body_after(tp, pos):
        return [b for b in v.body_exec(tp) if b.enter > pos]
    for e in v.execs:
        if is_nested(e.unit):
            continue
        is_setup = (e.unit[0] == "fx" and e.unit[2] == "setup") or (e.unit[0] == "hook" and e.unit[2] in ("setup_suite", "setup_test"))
        if not is_setup or v.clean(e) or e.end is None:
            continue
        loc = v.location_of_task(e.task)
        victims = []
        if loc[0] == "test":
            victims = body_after(loc[1], e.enter)
        elif loc[0] == "setup":
            for tp, info in v.tests.items():
                if info["sp"] == loc[1]:
                    victims += body_after(tp, e.enter)
        elif loc[0] in ("ssetup", "pre_run") and e.unit[0] == "fx":
            names = set(G.fx_names(v.byprim[e.unit[1]]))
            for tp, info in v.tests.items():
                need = set(G.closure(v.p, info["t"]["fixtures"] + G.suite_uses(info["s"]), v.byname))
                if need & names:
                    victims += body_after(tp, e.enter)
        if victims:
            out.append(F("%s/consumer-ran-after-failed-setup/%s" % (prefix, loc[0]), "%r failed but %r was executed" % (e, victims[0])))

    # -- 7. nothing evaluated that no counted test needs
    per_test, per_suite, overall = _needed(v)
    for s, tok in setups:
        fx = v.byprim[s.unit[1]]
        names = set(G.fx_names(fx))
        loc = v.location_of_task(s.task)
        if fx["scope"] == "test":
            need = per_test.get(loc[1], set()) if loc[0] == "test" else set()
        elif fx["scope"] == "suite":
            sp = loc[1][:-1] if loc[0] == "test" else (loc[1] if len(loc) > 1 else None)
            need = per_suite.get(sp, set())
        else:
            need = overall
        if not (names & need):
            # (the open finding N3 only exists under --force-disabled: the signature says so, the same symptom
            # without the option is a different violation)
            how = "/force-disabled" if project.get("force_disabled") else ""
            out.append(F("%s/unneeded-fixture-evaluated/%s%s" % (prefix, fx["scope"], how), "%s evaluated at %s but no counted test of that instance needs it" % (tok, loc)))
    return _dedupe(out)


def _dedupe(fails):
    seen, out = set(), []
    for f in fails:
        if (f.signature, f.message) not in seen:
            seen.add((f.signature, f.message))
            out.append(f)
    return out


# ================================================================================================
# C04
# ================================================================================================

def c04(project, obs, view=None):
    v = _view(project, obs, view)
    out = []
    if v.hang or "invalid" in obs["outcome"] or v.handler_died() or v.prerun_failed():
        return out

    def terminal_fire(tp):
        xs = [i for i, _, e in v.fires if e["e"] in ("testEnd", "testSkipped", "testDisabled") and tuple(e["path"]) == tp]
        return xs[-1] if xs else None

    def first_fire(tp):
        xs = [i for i, _, e in v.fires if e["e"] == "testStart" and tuple(e["path"]) == tp]
        return xs[0] if xs else None
    for tp, info in v.tests.items():
        deps = v.deps_closure(tp)
        bodies = v.body_exec(tp)
        st = v.status(tp)
        started = bodies[0].enter if bodies else None
        ff = first_fire(tp)
        for d in deps:
            tf = terminal_fire(d)
            for b in v.body_exec(d):
                if started is not None and (b.end is None or b.end > started):
                    out.append(F("C04/body-started-before-dependency-finished", "%s started at %d, dependency %s body ended at %r" % (tp, started, d, b.end)))
            if ff is not None and (tf is None or tf > ff):
                out.append(F("C04/test-started-before-dependency-finished", "%s first event at %d, dependency %s terminal event at %r" % (tp, ff, d, tf)))
        if started is not None:
            for e in v.execs:
                if e.unit[0] == "hook" and e.unit[2] == "setup_suite" and tuple(e.unit[1]) == info["sp"] and (e.end is None or e.end > started):
                    out.append(F("C04/body-started-before-suite-setup-finished", "%s started at %d, setup_suite ended at %r" % (tp, started, e.end)))
            # "… and before its suite's setup has finished": a setup that never ran has not finished either — a suite that defines a
            # setup_suite hook ran it to its end before any of its test bodies is entered (a setup that fails skips the tests)
            if info["s"]["setup_suite"] is not None and not any(
                    e.unit[0] == "hook" and e.unit[2] == "setup_suite" and tuple(e.unit[1]) == info["sp"] for e in v.execs):
                out.append(F("C04/body-started-before-suite-setup-finished/setup-never-ran",
                             "%s started at %d, the setup_suite hook of its suite %s was never run" % (tp, started, list(info["sp"]))))
            ti = v.task_of_path.get(("init", info["sp"]))
            if ti is not None:
                fin = v.first("finish", ti)
                if fin is None or fin > started:
                    out.append(F("C04/body-started-before-suite-setup-finished", "%s started at %d, suite initialisation finished at %r" % (tp, started, fin)))
        if not deps:
            continue
        bad = [d for d in deps if v.status(d) not in ("passed", "disabled")]
        if bad:
            if bodies:
                out.append(F("C04/executed-despite-failed-dependency", "%s was executed although %s is %s" % (tp, bad[0], v.status(bad[0]))))
            if st in ("passed", "failed"):
                out.append(F("C04/not-skipped-after-failed-dependency", "%s is %s although %s is %s" % (tp, st, bad[0], v.status(bad[0]))))
            if st == "skipped" and not v.details(tp):
                out.append(F("C04/skipped-without-reason", "%s skipped with reason %r" % (tp, v.details(tp))))
    return _dedupe(out)


# ================================================================================================
# C05
# ================================================================================================

_PREFIX = re.compile(r"^(attachments/)?\d{4}_")


def normal_form(report, attachments=None):
    """timestamp-free normal form.  `report` is either obs["report_view"] (gen.reports.nf_report: children already in the
    order the REAL rank-sorted accessors give, ranks dropped — preferred, it is what every reader sees) or a canon_report
    (children are then stably sorted by rank here).  Times / saving time / nb_threads dropped, attachments compared by
    (description, un-prefixed name, content)."""
    content = {name: c for name, _, c in (attachments or [])}

    def by_rank(xs):
        return sorted(xs, key=lambda x: x["md"]["rank"]) if xs and "rank" in xs[0]["md"] else list(xs)

    def entry(e):
        e = {k: x for k, x in e.items() if k != "t"}
        if e["k"] == "att":
            raw = e["file"].split("/", 1)[-1]
            e["file"] = _PREFIX.sub(r"\1", e["file"])
            e["content"] = content.get(raw)
        return e

    def result(r):
        if r is None:
            return None
        return {"status": r["status"], "details": r["details"], "finished": r["end"] is not None,
                "steps": [{"desc": s["desc"], "finished": s["end"] is not None, "entries": [entry(e) for e in s["entries"]]} for s in r["steps"]]}

    def md(m):
        return {k: x for k, x in m.items() if k != "rank"}

    def suite(s):
        return {"md": md(s["md"]), "finished": s["end"] is not None, "setup": result(s["setup"]), "teardown": result(s["teardown"]),
                "tests": [{"md": md(t["md"]), "res": result(t["res"])} for t in by_rank(s["tests"])],
                "suites": [suite(x) for x in by_rank(s["suites"])]}
    return {"title": report["title"], "info": report["info"], "finished": report["end"] is not None,
            "setup": result(report["setup"]), "teardown": result(report["teardown"]),
            "suites": [suite(s) for s in by_rank(report["suites"])]}


def has_rank_ties(project):
    return "rank-ties" in G.features(project)


def c05_compare(project, obs1, obsn):
    """obs1: the 1-thread run, obsn: another run of the same (schedule-independent) project"""
    if not obs1.get("report") or not obsn.get("report"):
        if obs1["outcome"] != obsn["outcome"]:
            return [F("C05/outcome-differs", "1 thread: %r, N threads: %r" % (obs1["outcome"], obsn["outcome"]))]
        return []
    a = normal_form(obs1.get("report_view") or obs1["report"], obs1.get("attachments"))
    b = normal_form(obsn.get("report_view") or obsn["report"], obsn.get("attachments"))
    if a == b:
        if set(obs1["outcome"]) != set(obsn["outcome"]) or obs1["outcome"].get("returned") != obsn["outcome"].get("returned"):
            return [F("C05/outcome-differs", "1 thread: %r, N threads: %r" % (obs1["outcome"], obsn["outcome"]))]
        # the SAVED report (what the real file backends wrote, read back by the real loader) is the same too
        out = []
        for name in sorted(set(obs1.get("saved") or {}) & set(obsn.get("saved") or {})):
            s1, sn = obs1["saved"][name], obsn["saved"][name]
            if s1["exists"] != sn["exists"] or (s1["error"] is None) != (sn["error"] is None):
                out.append(F("C05/saved-report-differs/" + name, "1 thread: exists=%s error=%s; N threads: exists=%s error=%s"
                             % (s1["exists"], s1["error"], sn["exists"], sn["error"])))
            elif s1["view"] is not None and sn["view"] is not None:
                if name == "junit":
                    fa, fb = s1["view"], sn["view"]
                else:
                    fa, fb = normal_form(s1["view"], obs1.get("attachments")), normal_form(sn["view"], obsn.get("attachments"))
                if fa != fb:
                    out.append(F("C05/saved-report-differs/" + name, "the file saved by the N-thread run differs from the one saved by the "
                                 "1-thread run although the in-memory reports are equal: %s" % _first_diff(fa, fb), _first_diff(fa, fb)))
        return out
    where = _first_diff(a, b)
    if "raised" in obsn["outcome"] and "raised" not in obs1["outcome"]:
        return [F("C05/run-raised-with-threads/" + obsn["outcome"]["raised"], "N-thread run raised: %s" % obsn["outcome"]["text"][:200], where)]

    def strip_order(x):
        x = copy.deepcopy(x)

        def s(n):
            n["tests"].sort(key=lambda t: t["md"]["name"])
            n["suites"].sort(key=lambda t: t["md"]["name"])
            for c in n["suites"]:
                s(c)
        x["suites"].sort(key=lambda t: t["md"]["name"])
        for c in x["suites"]:
            s(c)
        return x
    if strip_order(a) == strip_order(b):
        sig = "C05/order-depends-on-schedule/equal-ranks" if has_rank_ties(project) else "C05/order-depends-on-schedule"
        return [F(sig, "same content, different order of siblings", where)]
    return [F("C05/report-differs", "normal forms differ at %s" % where, where)]


def _first_diff(a, b, path="$"):
    if type(a) is not type(b):
        return "%s: %r vs %r" % (path, a, b)
    if isinstance(a, dict):
        for k in a:
            if k not in b:
                return "%s.%s missing" % (path, k)
            d = _first_diff(a[k], b[k], path + "." + k)
            if d:
                return d
        return None
    if isinstance(a, list):
        for i, (x, y) in enumerate(zip(a, b)):
            d = _first_diff(x, y, "%s[%d]" % (path, i))
            if d:
                return d
        if len(a) != len(b):
            return "%s: length %d vs %d" % (path, len(a), len(b))
        return None
    return None if a == b else "%s: %r vs %r" % (path, a, b)


# ================================================================================================
# C07 — push-down recogniser of the event stream grammar
# ================================================================================================

def recognise(events, nb_threads, complete=True):
    """returns [(signature suffix, message)]; `complete` = the stream is expected to be closed (session end seen)"""
    errs = []

    def err(sig, msg):
        errs.append((sig, msg))
    session = "none"          # none | open | closed
    suites = {}               # path -> "open" | "closed"
    results = {}              # location key -> "open" | "closed"      (tests and setup/teardown phases)
    bypassed = set()
    steps = {}                # tid -> (loc key, desc)
    current = None            # N = 1: the result whose events may not be interleaved

    def lk(loc):
        return (loc["k"], tuple(loc.get("path") or ()))

    def open_children(sp):
        out = [p for p, st in suites.items() if st == "open" and p[:-1] == sp and len(p) == len(sp) + 1]
        out += [k for k, st in results.items() if st == "open" and ((k[0] == "test" and k[1][:-1] == sp) or (k[0] in ("setup", "teardown") and k[1] == sp))]
        return out

    for n, e in enumerate(events):
        k = e["e"]
        if session == "none" and k != "sessionStart":
            err("event-before-session-start", "event %d (%s) precedes sessionStart" % (n, k))
        if session == "closed":
            err("event-after-session-end", "event %d (%s) follows sessionEnd" % (n, k))
        if nb_threads == 1 and current is not None:
            mine = None
            if "loc" in e:
                mine = lk(e["loc"])
            elif k in ("testEnd",):
                mine = ("test", tuple(e["path"]))
            elif k in ("suiteSetupEnd", "suiteTeardownEnd"):
                mine = ("setup" if "Setup" in k else "teardown", tuple(e["path"]))
            elif k in ("sessionSetupEnd", "sessionTeardownEnd"):
                mine = ("ssetup" if "Setup" in k else "steardown", ())
            if mine != current:
                err("interleaved-with-one-thread", "event %d (%s) inside the open result %r" % (n, k, current))
        if k == "sessionStart":
            if session != "none":
                err("session-started-twice", "event %d" % n)
            session = "open"
        elif k == "sessionEnd":
            left = [p for p, st in suites.items() if st == "open"] + [r for r, st in results.items() if st == "open"]
            if left:
                err("session-end-with-open-children", "sessionEnd while %r still open" % left[:3])
            session = "closed"
        elif k in ("sessionSetupStart", "sessionTeardownStart", "suiteSetupStart", "suiteTeardownStart", "testStart"):
            key = {"sessionSetupStart": ("ssetup", ()), "sessionTeardownStart": ("steardown", ())}.get(k) or \
                ({"suiteSetupStart": "setup", "suiteTeardownStart": "teardown", "testStart": "test"}[k], tuple(e["path"]))
            if key in results or key in bypassed:
                err("result-started-twice", "event %d: %r" % (n, key))
            sp = key[1][:-1] if key[0] == "test" else key[1]
            if key[0] in ("test", "setup", "teardown") and suites.get(sp) != "open":
                err("result-outside-open-suite", "event %d: %s of %r while its suite is %r" % (n, k, key[1], suites.get(sp)))
            results[key] = "open"
            current = key
        elif k in ("sessionSetupEnd", "sessionTeardownEnd", "suiteSetupEnd", "suiteTeardownEnd", "testEnd"):
            key = {"sessionSetupEnd": ("ssetup", ()), "sessionTeardownEnd": ("steardown", ())}.get(k) or \
                ({"suiteSetupEnd": "setup", "suiteTeardownEnd": "teardown", "testEnd": "test"}[k], tuple(e["path"]))
            if results.get(key) != "open":
                err("end-without-start", "event %d: %s of %r which is %r" % (n, k, key, results.get(key)))
            left = [t for t, (l, d) in steps.items() if l == key]
            if left:
                # (an open step WITHOUT description has its own signature: finding D39, `set_step("")` is never ended)
                untitled = all(steps[t][1] == "" for t in left)
                err("result-end-with-open-step" + ("/untitled-step" if untitled else ""),
                    "event %d: %s while a step of thread(s) %r is open" % (n, k, left))
            results[key] = "closed"
            current = None
        elif k in ("testSkipped", "testDisabled"):
            key = ("test", tuple(e["path"]))
            if key in results or key in bypassed:
                err("skipped-or-disabled-test-has-other-events", "event %d: %r" % (n, key))
            if suites.get(key[1][:-1]) != "open":
                err("result-outside-open-suite", "event %d: %s of %r while its suite is %r" % (n, k, key[1], suites.get(key[1][:-1])))
            bypassed.add(key)
        elif k == "suiteStart":
            sp = tuple(e["path"])
            if sp in suites:
                err("suite-started-twice", "event %d: %r" % (n, sp))
            if len(sp) > 1 and suites.get(sp[:-1]) != "open":
                err("suite-start-outside-open-parent", "event %d: %r while parent is %r" % (n, sp, suites.get(sp[:-1])))
            suites[sp] = "open"
        elif k == "suiteEnd":
            sp = tuple(e["path"])
            if suites.get(sp) != "open":
                err("suite-end-without-start", "event %d: suiteEnd of %r which is %r" % (n, sp, suites.get(sp)))
            left = open_children(sp)
            if left:
                err("suite-end-with-open-children", "event %d: suiteEnd of %r while %r still open" % (n, sp, left[:3]))
            suites[sp] = "closed"
        elif k == "stepStart":
            key = lk(e["loc"])
            if results.get(key) != "open":
                err("step-outside-open-result", "event %d: stepStart in %r which is %r" % (n, key, results.get(key)))
            if e["tid"] in steps:
                err("step-start-while-step-open" + ("/untitled-step" if steps[e["tid"]][1] == "" else ""),
                    "event %d: thread %r already has the open step %r" % (n, e["tid"], steps[e["tid"]]))
            steps[e["tid"]] = (key, e["desc"])
        elif k == "stepEnd":
            key = lk(e["loc"])
            if steps.get(e["tid"]) != (key, e["desc"]):
                err("step-end-without-start", "event %d: stepEnd %r/%r, open step of thread %r is %r" % (n, key, e["desc"], e["tid"], steps.get(e["tid"])))
            steps.pop(e["tid"], None)
        elif k in ("log", "check", "att", "url"):
            key = lk(e["loc"])
            if steps.get(e["tid"]) != (key, e["step"]):
                err("log-outside-its-step", "event %d: %s at %r step %r, open step of thread %r is %r" % (n, k, key, e["step"], e["tid"], steps.get(e["tid"])))
            if results.get(key) != "open":
                err("log-outside-open-result", "event %d: %s in %r which is %r" % (n, k, key, results.get(key)))
        # events of a suite's children after the suite was closed
        p = None
        if "loc" in e and e["loc"].get("path"):
            p = tuple(e["loc"]["path"])
            p = p[:-1] if e["loc"]["k"] == "test" else p
        elif "path" in e and k not in ("suiteStart", "suiteEnd"):
            p = tuple(e["path"])
            p = p[:-1] if k.startswith("test") else p
        if p is not None and suites.get(p) == "closed":
            err("event-after-suite-end", "event %d (%s) belongs to suite %r which is closed" % (n, k, p))
    if complete:
        if session != "closed":
            err("no-session-end", "the stream does not end with sessionEnd")
        left = [p for p, st in suites.items() if st == "open"] + [r for r, st in results.items() if st == "open"] + list(steps.values())
        if left:
            untitled = all(x in list(steps.values()) and x[1] == "" for x in left)
            err("start-without-end" + ("/untitled-step" if untitled else ""), "still open at the end: %r" % left[:4])
    return errs


def c07(project, obs, view=None):
    v = _view(project, obs, view)
    if v.hang or "invalid" in obs["outcome"] or v.prerun_failed():
        return []
    fires = [e for _, _, e in v.fires]
    handled = [fires[k] for _, k in v.handled if k < len(fires)]
    out = []
    fault = v.fault_fired()
    died = obs.get("pending_failure_at") is not None
    for sig, msg in recognise(handled, project["nb_threads"], complete=not fault and not died):
        out.append(F("C07/" + sig, msg))
    if died and not fault:
        out.append(F("C07/stream-truncated", "the event handler thread died (no fault injected): the backend received %d of %d events" % (len(handled), len(fires))))
        for sig, msg in recognise(fires, project["nb_threads"], complete="returned" in obs["outcome"]):
            out.append(F("C07/fired/" + sig, msg))
    # EVERY reporting backend: a listener receives every handled event it has a handler for — once, in order — whatever
    # other listeners (of its own class or not) were registered before it, in this run or in an earlier one of the process
    names = obs.get("fire_names") or []
    ks = [k for _, k in v.handled if k < len(names)]
    for i, ls in enumerate(obs.get("listeners") or []):
        want = [[k, names[k]] for k in ks if names[k] in ls["events"]]
        got = [list(x) for x in ls["got"]]
        if got != want:
            missing = [x for x in want if x not in got]
            extra = [x for x in got if x not in want]
            if missing:
                ends = sorted({n for _, n in missing})
                out.append(F("C07/listener/event-not-delivered",
                             "listener #%d (handlers: %s) never received %d of the %d events it has a handler for (%s), e.g. %r"
                             % (i, ls["shape"], len(missing), len(want), ", ".join(ends)[:200], missing[0])))
            elif extra:
                out.append(F("C07/listener/event-delivered-without-handler-or-twice", "listener #%d (%s) received %r" % (i, ls["shape"], extra[0])))
            else:
                out.append(F("C07/listener/events-out-of-order", "listener #%d (%s) received its events in another order than they were handled" % (i, ls["shape"])))
    seen, res = set(), []
    for f in out:
        if f.signature not in seen:
            seen.add(f.signature)
            res.append(f)
    return res


# ================================================================================================
# C08
# ================================================================================================

def _site(unit):
    if unit[0] == "body":
        return "body"
    if unit[0] == "hook":
        return unit[2]
    return "fixture-" + unit[2]


def _visible_after(v, th, task, pos):
    """Conservative position from which a flag written by thread `th` right after its first `fire` following `pos` is
    certainly visible: handle_exception logs the error (fire) and THEN sets the flag, so any later record of the same
    thread — or the finish record of its task — comes after the write.  If the thread fires nothing before its task
    finishes (the exception escaped the runner's handlers) the finish record is returned: the abort was requested."""
    fired = None
    fin = v.first("finish", task) if task is not None else None
    for i in range(pos + 1, len(v.trace)):
        r = v.trace[i]
        mine = (r[0] in ("fire", "user") and r[1] == th) or (r[0] == "start" and len(r) > 2 and r[2] == th)
        if fired is None:
            if mine and r[0] == "fire":
                fired = i
            elif fin is not None and i >= fin:
                return i
            continue
        if mine or i == fin:
            return i
    return None


def c08(project, obs, view=None):
    v = _view(project, obs, view)
    out = []
    if v.hang or "invalid" in obs["outcome"] or v.handler_died() or v.prerun_failed() or not obs.get("report"):
        return out
    aborts = []       # (kind, exec, raise position, visibility position)
    for e in v.execs:
        # (an Abort* that ends an lcc.Thread is logged by `Thread.run` and aborts nothing: the statement speaks of the
        # test's own thread; one that leaves a `with prepare_attachment` block also leaves the unit around it, which
        # carries the same record)
        if e.end_kind in ("raise:AbortTest", "raise:AbortSuite", "raise:AbortAllTests") and not is_nested(e.unit):
            if e.task is None:
                continue
            aborts.append((e.end_kind[6:], e, e.end, _visible_after(v, e.thread, e.task, e.end)))
    test_tasks = {tuple(g["path"]): ti for ti, g in enumerate(v.tasks) if g["kind"] == "test"}
    causes = {tp: [] for tp in v.tests}

    def must_skip(tp, why, sig):
        info = v.tests[tp]
        if info["disabled"] and not v.force:
            return
        if v.body_exec(tp):
            out.append(F(sig, "%s was executed although %s" % (".".join(tp), why)))
        elif v.status(tp) != "skipped":
            out.append(F(sig.replace("/body-entered", "/not-skipped"), "%s is %r although %s" % (".".join(tp), v.status(tp), why)))
        elif not v.details(tp):
            out.append(F("C08/skipped-without-reason", "%s skipped without an explanatory reason although %s" % (".".join(tp), why)))

    for kind, e, pos, vis in aborts:
        g = v.tasks[e.task]
        site = _site(e.unit)
        if g["kind"] == "test":
            tp = tuple(g["path"])
            if v.status(tp) != "failed":
                out.append(F("C08/aborting-test-not-failed/" + site, "%s raised %s but is reported %r" % (tp, kind, v.status(tp))))
        if kind == "AbortSuite" and g["kind"] == "test":
            sp = tuple(g["path"][:-1])
            for tp, ti in test_tasks.items():
                if tp[:-1] != sp or ti == e.task:
                    continue
                causes[tp].append("AbortSuite")
                st = v.first("start", ti)
                if vis is not None and st is not None and st > vis:
                    must_skip(tp, "AbortSuite was raised in %s of %s before it started" % (site, ".".join(g["path"])),
                              "C08/abort-suite/body-entered-after-abort/" + site)
        if kind == "AbortAllTests":
            for tp, ti in test_tasks.items():
                if ti == e.task:
                    continue
                causes[tp].append("AbortAllTests")
                st = v.first("start", ti)
                if vis is not None and st is not None and st > vis:
                    must_skip(tp, "AbortAllTests was raised in %s (%s) before it started" % (site, v.location_of_task(e.task),),
                              "C08/abort-all/body-entered-after-abort/" + site)
    # stop-on-failure: the failure set is written before the failing event is fired; a skip marks after its event
    if project["stop_on_failure"]:
        vis = None
        for i, th, ev in v.fires:
            if (ev["e"] == "log" and ev["level"] == "error") or (ev["e"] == "check" and ev["ok"] is False):
                vis = i
                break
            if ev["e"] == "testSkipped":
                w = _visible_after(v, th, v.task_at(th, i), i - 1)
                if w is not None:
                    vis = w
                    break
        if vis is not None:
            for tp, ti in test_tasks.items():
                causes[tp].append("stop_on_failure")
                st = v.first("start", ti)
                if st is not None and st > vis:
                    must_skip(tp, "--stop-on-failure and a failure was recorded at %d before it started" % vis,
                              "C08/stop-on-failure/body-entered-after-failure")
    # keyboard interrupt: the flag is set right after the record, in the dispatching thread; the next record of that
    # thread (a dispatch of skip_all_tasks or a receive) is certainly later
    if v.interrupt_at is not None:
        vis = None
        for i in range(v.interrupt_at + 1, len(v.trace)):
            if v.trace[i][0] in ("dispatch", "receive"):
                vis = i
                break
        for tp, ti in test_tasks.items():
            causes[tp].append("interrupt")
            st = v.first("start", ti)
            if vis is not None and st is not None and st > vis:
                must_skip(tp, "the run was interrupted before it started", "C08/interrupt/body-entered-after-interrupt")
        # in-flight code: after the interrupt every logging call raises AbortTest; teardowns still run: C03
    # skipped tests carry a reason, and are skipped for a cause
    for tp, info in v.tests.items():
        if v.status(tp) != "skipped":
            continue
        if not v.details(tp):
            out.append(F("C08/skipped-without-reason", "%s skipped with reason %r" % (".".join(tp), v.details(tp))))
        why = list(causes[tp])
        if any(v.status(d) not in ("passed", "disabled") for d in v.deps_closure(tp)):
            why.append("dependency")
        ti = v.task_of_path.get(("init", info["sp"]))
        if ti is not None and obs["results"][ti][0] != "success":
            why.append("suite-setup")
        si = v.task_of_path.get(("sessSetup", None))
        if si is not None and obs["results"][si][0] != "success":
            why.append("session-setup")
        if obs.get("pending_failure_at") is not None:
            why.append("event-handler-failure")
        if not why:
            # a DISABLED dependency whose own task was skipped (its suite setup or one of its dependencies failed)
            # hands that reason on to its dependents although it is reported "disabled": own signature (finding)
            dd = [d for d in v.deps_closure(tp) if v.status(d) == "disabled"
                  and v.task_of_path.get(("test", tuple(d))) is not None
                  and obs["results"][v.task_of_path[("test", tuple(d))]][0] == "skipped"]
            if dd:
                out.append(F("C04/dependent-of-disabled-test-skipped",
                             "%s skipped (%r) although all its dependencies are passed or disabled: the task of the disabled "
                             "dependency %s was itself skipped and passed its reason on" % (".".join(tp), v.details(tp), ".".join(dd[0]))))
                continue
            out.append(F("C08/skipped-without-cause", "%s skipped (%r) but no abort / failed dependency / failed setup explains it" % (".".join(tp), v.details(tp))))
    # the run is unsuccessful
    if (aborts or v.interrupt_at is not None) and obs["outcome"].get("returned") is True:
        if aborts or any(v.status(tp) == "skipped" for tp in v.tests):
            out.append(F("C08/run-successful-despite-abort", "run_suites returned True after %s" % ([a[0] for a in aborts] or "interrupt")))
    # teardowns of completed setups still run after their consumers
    if aborts or v.interrupt_at is not None or project["stop_on_failure"]:
        for f in c03(project, obs, v, prefix="C08/teardowns"):
            if "/teardown-" in f.signature or "/enclosing-scope" in f.signature:
                out.append(f)
    return _dedupe(out)


# ================================================================================================
# C11
# ================================================================================================

def c11(project, obs, view=None):
    v = _view(project, obs, view)
    out = []
    if not v.fault_fired() or "invalid" in obs["outcome"]:
        return out
    pos, k, cls = v.backend_raise
    oc = obs["outcome"]
    if v.hang or obs.get("watchdog"):
        return [F("C11/hang", "the run hangs after the backend raised on event %d" % k, obs.get("dump"))]
    text = (obs.get("fault") or {}).get("text") or ""
    # (a BaseException that is no Exception — GeneratorExit, SystemExit, KeyboardInterrupt raised inside a handler — gets
    # its own signature suffix: finding D42, REPAIRED — the entries are `fixed`, a reappearance is a plain violation; every
    # other class keeps the plain signatures)
    sfx = ("/not-an-Exception:" + cls) if cls in ("GeneratorExit", "SystemExit", "KeyboardInterrupt") else ""
    if "returned" in oc:
        out.append(F("C11/fault-silently-ignored" + sfx, "backend raised %s on event %d but run_suites returned %r" % (cls, k, oc["returned"])))
    elif text.strip() and text.strip() not in oc.get("text", ""):
        # (the text is looked for without its leading / trailing blanks: KeyError and friends show their argument
        # repr()-escaped, so a line break at its edge reads "\\n" there — the words of the message are what must survive)
        # (D42, repaired, again when the class is no Exception: the fault was lost, what the caller sees is another error of the run —
        # e.g. the text of a pre_run teardown that raised)
        out.append(F("C11/original-text-lost/" + (sfx[1:] if sfx else cls), "caller saw %s(%r) without the original text %r" % (oc["raised"], oc["text"][:200], text)))
    pf = obs.get("pending_failure_at")
    if pf is None:
        out.append(F("C11/fault-not-recorded" + sfx, "the backend raised %s but no pending failure was recorded" % cls))
    else:
        for ti, g in enumerate(v.tasks):
            if g["kind"] != "test":
                continue
            st = v.first("start", ti)
            if st is not None and st >= pf and v.body_exec(tuple(g["path"])):
                out.append(F("C11/body-started-after-fault", "%s started at %d, the failure was pending since %d" % (".".join(g["path"]), st, pf)))
    for f in c03(project, obs, v, prefix="C11/teardowns"):
        if "/teardown-" in f.signature or "/enclosing-scope" in f.signature:
            out.append(f)
    # ... and they run to their end: without a keyboard interrupt no logging call of user code raises by itself, so a
    # teardown (generator fixture after its yield, teardown_suite / teardown_test hook) that was left by such a call
    # was started but did not do its job
    if v.interrupt_at is None:
        for e in v.execs:
            is_td = (e.unit[0] == "fx" and e.unit[2] == "teardown") or (e.unit[0] == "hook" and e.unit[2] in ("teardown_suite", "teardown_test"))
            if is_td and not is_nested(e.unit) and e.end_kind == "raise:interrupted":
                scope = v.byprim[e.unit[1]]["scope"] if e.unit[0] == "fx" else e.unit[2]
                out.append(F("C11/teardowns/teardown-cut-short/" + scope,
                             "%r was left by a logging call that raised although no keyboard interrupt was delivered" % (e,)))
    return _dedupe(out)


# ================================================================================================
# everything
# ================================================================================================

ORACLES = {"C01": c01, "C02": c02, "C03": c03, "C04": c04, "C07": c07, "C08": c08, "C11": c11}


def run_all(project, obs):
    v = View(project, obs)
    return {name: fn(project, obs, v) for name, fn in ORACLES.items()}

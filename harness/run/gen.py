"""
Seeded generator of *project descriptions* (design.d/run-schema.md), a static validator that mirrors the
real validation rules (used to keep generation and shrinking valid BY CONSTRUCTION; the self-test asserts
agreement with the real `FixtureRegistry.check_*` / `resolve_tests_dependencies`), tree walkers shared by
the other modules, and a shrinker for delta debugging.

Conventions of generated projects
  * fixture names are identifiers, globally unique (f<k>, aliases f<k>b).  Suite and test names only have to be
    unique among their siblings: a name is reused elsewhere in the tree now and then (same-named sub-suites under
    different parents, same-named TESTS in different suites — also as the dependency targets of one test), and a name
    may contain dots (`@lcc.test(name="v1.2")`, parametrized naming schemes fed with version numbers / addresses).
    A path is the LIST of names from the top-level suite down; `depends_on` is written with dotted strings, so the
    targets of dependencies and their ancestors are kept dot-free and no two nodes have the same dotted path;
  * `Fixture.names`, when not null, starts with `Fixture.name` (the function / primary name);
  * pre_run fixtures run in the caller's thread outside the session: their scripts contain only
    `raise` acts (logging there is a user error: there is no cursor);
  * `thread` acts nest at most once (no lcc.Thread started by an lcc.Thread); a script run inside `lcc.Thread` may
    raise anything, Abort* included (`lcc.Thread.run` turns whatever ends the thread into an error log of the
    location it was started in; an Abort* raised there aborts nothing — C08 speaks of the test's own thread);
  * `attachw` acts (`with lcc.prepare_attachment(..):` around an inner script run by the same thread) nest up to
    depth 2 and may contain every other act;
  * a `raise` act with `"sub": true` raises an instance of a project-defined SUBCLASS of the Abort* class.
"""
import copy

SCOPES = ["pre_run", "session", "suite", "test"]
LEVEL = {"test": 1, "suite": 2, "session": 3, "pre_run": 4}
HOOKS = ("setup_suite", "teardown_suite", "setup_test", "teardown_test")
RAISE_KINDS = ["exc", "AbortTest", "AbortSuite", "AbortAllTests"]
NESTED = ("thread", "attachw")       # acts that carry an inner script

PROFILES = {
    # p_fail_*: probability that a script of that kind gets one failing act
    "basic": dict(p_fail_body=0.22, p_fail_hook=0.12, p_fail_fx=0.10, p_fail_td=0.08, kinds=RAISE_KINDS,
                  p_stop=0.12, p_force=0.15, p_perthread=0.12, p_ties=0.06, p_thread=0.10, need_perthread=False),
    "independent": dict(p_fail_body=0.25, p_fail_hook=0.08, p_fail_fx=0.10, p_fail_td=0.08, kinds=["exc"],
                        p_stop=0.0, p_force=0.15, p_perthread=0.0, p_ties=0.10, p_thread=0.10, need_perthread=False),
    "perthread": dict(p_fail_body=0.12, p_fail_hook=0.04, p_fail_fx=0.10, p_fail_td=0.08, kinds=RAISE_KINDS,
                      p_stop=0.05, p_force=0.1, p_perthread=0.8, p_ties=0.0, p_thread=0.06, need_perthread=True),
    "valid-clean": dict(p_fail_body=0.0, p_fail_hook=0.0, p_fail_fx=0.0, p_fail_td=0.0, kinds=[],
                        p_stop=0.1, p_force=0.15, p_perthread=0.12, p_ties=0.0, p_thread=0.10, need_perthread=False,
                        p_thread_base=0.0),
    # per-thread fixtures (evaluated at their first use by a worker, INSIDE the test task: `_prepare_test_args`) whose
    # setup fails — mostly by raising AbortSuite / AbortAllTests — while tests that do not use them are still to start
    "perthread-abort": dict(p_fail_body=0.08, p_fail_hook=0.04, p_fail_fx=0.06, p_fail_td=0.06, kinds=RAISE_KINDS,
                            p_stop=0.05, p_force=0.1, p_perthread=0.8, p_ties=0.0, p_thread=0.06, need_perthread=True,
                            p_fail_ptfx=0.6, pt_kinds=["AbortSuite", "AbortAllTests", "AbortAllTests", "AbortTest", "exc"],
                            p_use_pt=0.45),
}
# "basic" + `detached` acts (`with lcc.detached_step(d): pass` instead of 30 % of the plain step changes)
PROFILES["basic-detached"] = dict(PROFILES["basic"], p_detached=0.3)

# step descriptions the API accepts like any other: "" (an untitled step: D39, repaired — session.py used to test the
# description's truth value and never ended such a step), blank, with line breaks, very long
ODD_STEPS = ["", "", " ", "\t", "two\nlines", "\nleading line break", "trailing line break\n", "long " + "x" * 300]


# ------------------------------------------------------------------------------------------------
# walkers
# ------------------------------------------------------------------------------------------------

def iter_suites(project_or_suites, prefix=()):
    """yields (path, suite, inherited_disabled) depth first, declaration order"""
    suites = project_or_suites["suites"] if isinstance(project_or_suites, dict) and "fixtures" in project_or_suites \
        else project_or_suites

    def walk(ss, prefix, dis):
        for s in ss:
            p = list(prefix) + [s["name"]]
            d = dis or bool(s["disabled"])
            yield p, s, d
            yield from walk(s["suites"], p, d)
    yield from walk(suites, prefix, False)


def iter_tests(project):
    """yields (path, test, suite_path, suite, effectively_disabled)"""
    for sp, s, sdis in iter_suites(project):
        for t in s["tests"]:
            yield sp + [t["name"]], t, sp, s, (sdis or bool(t["disabled"]))


def fx_names(fx):
    return list(fx["names"]) if fx.get("names") else [fx["name"]]


def fixtures_by_name(project):
    """registered name -> fixture description"""
    out = {}
    for fx in project["fixtures"]:
        for n in fx_names(fx):
            out[n] = fx
    return out


def closure(project, names, byname=None):
    """registered names needed (transitively, dependencies first) by the given registered names"""
    byname = byname or fixtures_by_name(project)
    out = []

    def visit(n):
        for p in byname[n]["params"]:
            visit(p)
        if n not in out:
            out.append(n)
    for n in names:
        visit(n)
    return out


def suite_uses(s):
    """names a suite uses itself (injected attributes + setup_suite parameters), in the order of Suite.get_fixtures"""
    out = list(s["injected"])
    if s["setup_suite"]:
        out += [p for p in s["setup_suite"]["params"] if p not in out]
    return out


def scripts_of(project):
    """yields (unit id, script) of every script of the project (hooks once per suite, with test = None)"""
    for fx in project["fixtures"]:
        yield ["fx", fx["name"], "setup"], fx["setup"]
        if fx["gen"]:
            yield ["fx", fx["name"], "teardown"], fx["teardown"]
    for sp, s, _ in iter_suites(project):
        if s["setup_suite"]:
            yield ["hook", sp, "setup_suite", None], s["setup_suite"]["script"]
        for h in HOOKS[1:]:
            if s[h] is not None:
                yield ["hook", sp, h, None], s[h]
        for t in s["tests"]:
            yield ["body", sp + [t["name"]]], t["script"]


def iter_acts(script):
    """every act of a script, inner thread scripts included"""
    for a in script:
        yield a
        if a["a"] in NESTED:
            yield from iter_acts(a["script"])


# ---- several runs of ONE built project in one process (props/_multirun.py) ------------------------------------------------
# an act may carry a guard `"only_in_run": r`: it is what it says in the r-th run of the process (1-based) and the act under
# `"else"` (default: an info log) in every other run — interpreter state, the suite / test / fixture OBJECTS are the same.
ELSE_ACT = {"a": "log", "level": "info"}


def effective_act(act, run_index):
    if "only_in_run" not in act:
        return act
    if act["only_in_run"] == run_index:
        return {k: v for k, v in act.items() if k not in ("only_in_run", "else")}
    return dict(act.get("else") or ELSE_ACT)


def effective_script(script, run_index):
    out = []
    for a in script:
        a = effective_act(a, run_index)
        if a["a"] in NESTED:
            a = dict(a, script=effective_script(a["script"], run_index))
        out.append(a)
    return out


def project_for_run(project, run_index):
    """the project the `run_index`-th run of the process really executes (guards resolved): what that run is judged against"""
    import copy
    q = copy.deepcopy(project)
    for fx in q["fixtures"]:
        fx["setup"] = effective_script(fx["setup"], run_index)
        fx["teardown"] = effective_script(fx["teardown"], run_index)
    for _, s, _ in iter_suites(q):
        if s["setup_suite"]:
            s["setup_suite"]["script"] = effective_script(s["setup_suite"]["script"], run_index)
        for h in HOOKS[1:]:
            if s[h] is not None:
                s[h] = effective_script(s[h], run_index)
        for t in s["tests"]:
            t["script"] = effective_script(t["script"], run_index)
    return q


def act_fails(a):
    return ((a["a"] == "log" and a["level"] == "error") or (a["a"] == "check" and not a["ok"]) or a["a"] == "raise"
            or (a["a"] == "attachw" and a.get("via") == "save_file"))      # save_attachment_file on a missing source always raises


# ------------------------------------------------------------------------------------------------
# static validity (mirror of fixture.py / suite/core.py rules + the conventions above)
# ------------------------------------------------------------------------------------------------

class Invalid(Exception):
    pass


def check_valid(project):
    byname = {}
    prim = set()
    for fx in project["fixtures"]:
        if fx["name"] in prim:
            raise Invalid("duplicate fixture function " + fx["name"])
        prim.add(fx["name"])
        if fx.get("names") and fx["names"][0] != fx["name"]:
            raise Invalid("names[0] must be the primary name")
        for n in fx_names(fx):
            if n in byname or n == "fixture_name":
                raise Invalid("bad / duplicate fixture name " + n)
            byname[n] = fx
        if fx["scope"] not in LEVEL:
            raise Invalid("scope")
        if fx["per_thread"] and fx["scope"] not in ("session", "suite"):
            raise Invalid("per_thread scope")
    for fx in project["fixtures"]:
        for p in fx["params"]:
            if p not in byname:
                raise Invalid("unknown param " + p)
            d = byname[p]
            if d["per_thread"] and fx["scope"] != "test":
                raise Invalid("per-thread dependency of a non-test fixture")
            if LEVEL[d["scope"]] < LEVEL[fx["scope"]]:
                raise Invalid("scope inversion %s -> %s" % (fx["name"], p))
        if len(set(fx["params"])) != len(fx["params"]):
            raise Invalid("duplicate param")
    # acyclic fixture graph
    state = {}

    def visit(n, stack):
        if state.get(n) == 2:
            return
        if n in stack:
            raise Invalid("fixture cycle")
        for p in byname[n]["params"]:
            visit(p, stack + [n])
        state[n] = 2
    for n in byname:
        visit(n, [])
    # suites / tests
    tests = {}
    seen_suites = set()
    # dotted paths: what `depends_on` strings and the path-keyed dicts of the loader see.  Tests are only ever looked up
    # among tests and suites among suites (a TEST and a SUB-SUITE of one suite may carry the same name: the loader checks
    # the two kinds of names separately), so the two kinds are kept apart here too
    dotted = set()          # ... of the tests
    dotted_suites = set()   # ... of the suites
    for sp, s, _ in iter_suites(project):
        if tuple(sp) in seen_suites or not s["name"] or ".".join(sp) in dotted_suites:
            raise Invalid("duplicate suite / ambiguous dotted path")
        seen_suites.add(tuple(sp))
        dotted_suites.add(".".join(sp))
        for n in suite_uses(s):
            if n not in byname:
                raise Invalid("suite uses unknown fixture " + n)
            if byname[n]["per_thread"] or LEVEL[byname[n]["scope"]] < LEVEL["suite"]:
                raise Invalid("suite uses per-thread / test-scoped fixture " + n)
        if len(set(s["injected"])) != len(s["injected"]) or s["injected"] != sorted(s["injected"]):
            raise Invalid("duplicate / unsorted injected (the real order is dir() of the suite object)")
        if s["setup_suite"] and len(set(s["setup_suite"]["params"])) != len(s["setup_suite"]["params"]):
            raise Invalid("duplicate setup_suite param")
        names = set()
        for t in s["tests"]:
            if t["name"] in names or not t["name"] or ".".join(sp + [t["name"]]) in dotted:
                raise Invalid("duplicate test name / ambiguous dotted path")
            names.add(t["name"])
            dotted.add(".".join(sp + [t["name"]]))
            tests[tuple(sp + [t["name"]])] = t
            for n in t["fixtures"]:
                if n not in byname:
                    raise Invalid("test uses unknown fixture " + n)
            if len(set(t["fixtures"])) != len(t["fixtures"]):
                raise Invalid("duplicate test fixture")
        subnames = [x["name"] for x in s["suites"]]
        if len(set(subnames)) != len(subnames):
            raise Invalid("duplicate sub-suite")
    for p, t in tests.items():
        for d in t["deps"]:
            if tuple(d) not in tests:
                raise Invalid("dangling dependency")
            if tuple(d) == p:
                raise Invalid("self dependency")
            if any("." in x for x in d):
                raise Invalid("dependency target (or an ancestor of it) with a dotted name: not expressible as a path string")
    st = {}

    def tv(p, stack):
        if st.get(p) == 2:
            return
        if p in stack:
            raise Invalid("test dependency cycle")
        for d in tests[p]["deps"]:
            tv(tuple(d), stack + [p])
        st[p] = 2
    for p in tests:
        tv(p, [])
    # conventions
    for fx in project["fixtures"]:
        if fx["scope"] == "pre_run":
            for sc in (fx["setup"], fx["teardown"]):
                for a in iter_acts(sc):
                    if a["a"] != "raise":
                        raise Invalid("pre_run scripts may only raise")
    def walk(sc, in_thread, depth):
        for a in sc:
            if a["a"] == "thread":
                if in_thread:
                    raise Invalid("nested thread")
                walk(a["script"], True, depth)
            elif a["a"] == "attachw":
                if depth >= 2:
                    raise Invalid("attachment blocks nested deeper than 2")
                if a.get("via") is not None and (a["via"] != "save_file" or a["script"] != SAVE_MISSING_FILE["script"]):
                    raise Invalid("save_attachment_file act")
                if a.get("write") not in (None, "late"):
                    raise Invalid("attachment block write mode")
                walk(a["script"], in_thread, depth + 1)
            elif a["a"] == "raise":
                if a["kind"] not in RAISE_KINDS or (a.get("sub") and a["kind"] == "exc"):
                    raise Invalid("raise kind")
                if a.get("base") and (a["kind"] != "exc" or a["base"] not in BASE_EXCEPTIONS):
                    raise Invalid("BaseException raise")
                if a.get("args") and (a["kind"] == "exc" or a["args"] not in ABORT_ARGS):
                    raise Invalid("Abort* argument shape")
    for unit, sc in scripts_of(project):
        walk(sc, False, 0)
    if not (1 <= project["nb_threads"] <= 8):
        raise Invalid("nb_threads")
    return True


def is_valid(project):
    try:
        return check_valid(project)
    except (Invalid, KeyError, TypeError):
        return False


# ------------------------------------------------------------------------------------------------
# scripts
# ------------------------------------------------------------------------------------------------

def _benign_act(rng, cfg, depth, steps, wdepth=0):
    """depth: 1 inside the script of an lcc.Thread; wdepth: nesting of `with prepare_attachment` blocks"""
    r = rng.random()
    if r < 0.38:
        return {"a": "log", "level": rng.choice(["debug", "info", "info", "warn"])}
    if r < 0.54:
        return {"a": "check", "ok": True}
    if r < 0.68:
        # polling loops set the SAME step again and again: about a third of the step acts repeat the description
        # of the previous one of the script
        if not (steps[0] and rng.random() < 0.45):
            steps[0] += 1
        if rng.random() < cfg.get("p_odd_step", 0.10):
            return {"a": "step", "d": rng.choice(ODD_STEPS)}
        if cfg.get("p_detached") and rng.random() < cfg["p_detached"]:
            # `with lcc.detached_step(d): pass` (deprecated, still public): "only does a set_step" — whatever the thread records
            # next belongs to step d (model: `SessionApi.lower`: entering = set_step(d), leaving = nothing; drivers/Run.lean
            # decodes the act as `.step d`).  Only profiles that ask for it (the draw is skipped otherwise).
            return {"a": "detached", "d": "step %d" % steps[0]}
        return {"a": "step", "d": "step %d" % steps[0]}
    if r < 0.75:
        return {"a": "url"}
    if r < 0.82:
        return {"a": "attach"}
    if r < 0.82 + cfg.get("p_attachw", 0.05) and wdepth < 2:
        # `with lcc.prepare_attachment(..):` around further acts of the same thread (a nested block or a
        # save_attachment inside it, a step change, logs, an lcc.Thread started and joined inside)
        inner = [_benign_act(rng, cfg, depth, steps, wdepth + 1) for _ in range(rng.choice([0, 1, 1, 2, 3]))]
        if rng.random() < 0.5 and wdepth < 1:
            inner.insert(rng.randint(0, len(inner)), rng.choice([{"a": "attach"}, {"a": "attachw", "script": [{"a": "log", "level": "info"}]},
                                                                 {"a": "attachw", "script": []}]))
        return {"a": "attachw", "script": inner}
    if r < 0.87 + cfg["p_thread"] and depth == 0:
        inner = [_benign_act(rng, cfg, 1, steps, wdepth) for _ in range(rng.randint(1, 3))]
        if rng.random() < 0.35:
            inner.insert(0, {"a": "gate"})
        if rng.random() < 0.3:
            # held between two of its own acts: lets threads of other tests emit in between
            inner.insert(rng.randint(1, len(inner)), {"a": "gate"})
        if rng.random() < cfg.get("p_thread_base", 0.18):
            # the thread's target does not return: sys.exit() (the regular way of ending a thread from the inside: silent), a
            # GeneratorExit, a project's own BaseException (uncaught exceptions of the test: failed) — after what it has logged so far
            inner.append({"a": "raise", "kind": "exc", "base": rng.choice(BASE_EXCEPTIONS)})
        act = {"a": "thread", "script": inner}
        if rng.random() < 0.4:
            # an explicit thread name, the same in several tests (names say nothing about identity)
            act["name"] = rng.choice(["worker", "poller"])
        return act
    return {"a": "log", "level": "info"}


BASE_EXCEPTIONS = ["SystemExit", "GeneratorExit", "CustomBase"]
# what an Abort* is constructed with (`"args"` of a raise act; absent = one message string): no argument at all, the
# exception that was caught (`raise lcc.AbortTest(e)`), a number (`AbortSuite(404)`), a message and a code, two strings
ABORT_ARGS = ["none", "exc", "int", "two", "twostr"]


# `lcc.save_attachment_file` / `save_image_file` given a source path that does not exist: seen by the model as what it is — a
# `prepare_attachment` block whose body (shutil.copy) raises an Exception before anything is written
SAVE_MISSING_FILE = {"a": "attachw", "via": "save_file", "script": [{"a": "raise", "kind": "exc"}]}


def _failing_act(rng, kinds):
    r = rng.random()
    if not kinds or r < 0.25:
        return {"a": "log", "level": "error"}
    if r < 0.45:
        return {"a": "check", "ok": False}
    kind = rng.choice(kinds)
    act = {"a": "raise", "kind": kind}
    if kind != "exc" and rng.random() < 0.4:
        act["sub"] = True         # class EnvironmentDown(lcc.AbortAllTests): a project's own exception type
    if kind != "exc" and rng.random() < 0.45:
        act["args"] = rng.choice(ABORT_ARGS)      # `raise lcc.AbortTest(e)`, `AbortSuite(404)`, `AbortAllTests()`, two arguments
    if kind == "exc" and rng.random() < 0.3:
        # not an `Exception`: sys.exit() in user code, a generator closed under it, a project's own BaseException
        # (in a unit of the task's own thread: same outcome as any unexpected exception; in the target of an lcc.Thread:
        # sys.exit() ends the thread silently, any other class is logged as an error by `Thread.run` (fix D40); the thread's
        # step is ended by the `finally`, the thread dies and the test goes on)
        act["base"] = rng.choice(BASE_EXCEPTIONS)
    return act


def _holders(acts, in_thread=False):
    """(script list, inside an lcc.Thread?) of every script nested in `acts` (thread bodies and attachment blocks)"""
    for a in acts:
        if a["a"] in NESTED:
            inside = in_thread or a["a"] == "thread"
            yield a["script"], inside
            yield from _holders(a["script"], inside)


def _block_depth_of(acts, target, depth=0):
    """number of `attachw` blocks around the nested script `target` (one of `_holders(acts)`, by identity); None: not found"""
    for a in acts:
        if a["a"] in NESTED:
            d = depth + (1 if a["a"] == "attachw" else 0)
            if a["script"] is target:
                return d
            r = _block_depth_of(a["script"], target, d)
            if r is not None:
                return r
    return None


def gen_script(rng, cfg, p_fail, p_gate, max_len=4, kinds=None):
    steps = [0]
    acts = [_benign_act(rng, cfg, 0, steps) for _ in range(rng.choice([0, 1, 1, 2, 2, 3, max_len]))]
    if rng.random() < p_gate:
        acts.insert(rng.choice([0, 0, 0, len(acts)]), {"a": "gate"})
    if rng.random() < p_fail:
        kinds = cfg["kinds"] if kinds is None else kinds
        f = _failing_act(rng, kinds)
        nested = list(_holders(acts))
        if nested and rng.random() < 0.45:
            # the failing act sits inside an lcc.Thread (any kind: `Thread.run` logs whatever ends the thread) or
            # inside an attachment block (the exception leaves the block, then the unit)
            sc, in_thread = rng.choice(nested)
            if (_block_depth_of(acts, sc) or 0) < 2 and _block_depth_of(acts, sc) is not None:
                # (room for one more block around the failing act: the same two shapes as below, inside an lcc.Thread or a block)
                r2 = rng.random()
                if r2 < 0.12 and "exc" in kinds:
                    f = dict(SAVE_MISSING_FILE)
                elif r2 < 0.30:
                    f = {"a": "attachw", "write": "late", "script": [f]}
            sc.insert(rng.randint(0, len(sc)), f)
        else:
            r2 = rng.random()
            if r2 < 0.10 and "exc" in kinds:
                # `lcc.save_attachment_file(<a path that does not exist>)`: the framework's own `with prepare_attachment` block
                # around `shutil.copy`, which raises FileNotFoundError BEFORE the attachment file exists
                f = dict(SAVE_MISSING_FILE)
            elif r2 < 0.24:
                # the failing act is the content producer of a block that writes its file LAST: it never gets written
                f = {"a": "attachw", "write": "late", "script": [f]}
            acts.insert(rng.randint(0, len(acts)), f)
    # where a block writes its attachment file: first thing (default), or as its LAST statement ("write": "late") — a block
    # that is left by an exception then never created the file
    for sc, _ in [(acts, False)] + list(_holders(acts)):
        for a in sc:
            if a["a"] == "attachw" and "write" not in a and "via" not in a and rng.random() < 0.5:
                a["write"] = "late"
    return acts


def gen_prerun_script(rng, cfg, p_fail):
    if rng.random() < p_fail and cfg["kinds"]:
        return [{"a": "raise", "kind": rng.choice(cfg["kinds"])}]
    return []


# ------------------------------------------------------------------------------------------------
# projects
# ------------------------------------------------------------------------------------------------

def gen_project(rng, profile="basic"):
    cfg = PROFILES[profile]
    fixtures = []
    reg = []        # (registered name, fixture)
    nfx = rng.choice([0, 1, 2, 3, 3, 4, 5, 6])
    if cfg["need_perthread"]:
        nfx = max(nfx, 2)
    for i in range(nfx):
        name = "f%d" % i
        scope = rng.choice(["pre_run", "session", "session", "suite", "suite", "suite", "test", "test", "test"])
        if cfg["need_perthread"] and i == 0:
            scope = rng.choice(["session", "suite"])
        per_thread = scope in ("session", "suite") and (rng.random() < cfg["p_perthread"] or (cfg["need_perthread"] and i == 0))
        cands = [n for n, g in reg if LEVEL[g["scope"]] >= LEVEL[scope] and (not g["per_thread"] or scope == "test")]
        params = []
        if cands and rng.random() < 0.5:
            params = rng.sample(cands, min(len(cands), rng.choice([1, 1, 2])))
        gen = rng.random() < 0.6
        if scope == "pre_run":
            setup = gen_prerun_script(rng, cfg, cfg["p_fail_fx"])
            teardown = gen_prerun_script(rng, cfg, cfg["p_fail_td"]) if gen else []
        else:
            if per_thread and "p_fail_ptfx" in cfg:
                setup = gen_script(rng, cfg, cfg["p_fail_ptfx"], 0.4, 3, kinds=cfg.get("pt_kinds"))
            else:
                setup = gen_script(rng, cfg, cfg["p_fail_fx"], 0.4, 3)
            teardown = gen_script(rng, cfg, cfg["p_fail_td"], 0.25, 2) if gen else []
        fx = {"name": name, "names": [name, name + "b"] if rng.random() < 0.15 else None, "scope": scope,
              "per_thread": per_thread, "params": params, "gen": gen, "setup": setup, "teardown": teardown}
        fixtures.append(fx)
        for n in fx_names(fx):
            reg.append((n, fx))
    # several `pre_run` fixtures depending on one another, one of which fails in its setup AFTER others have been set up
    # (run_suites' own loop: the ones already set up must still be torn down, once, in reverse order; the session is not
    # run); the last one of the chain is used by a test below so that the whole chain is scheduled
    chain = []
    if cfg["kinds"] and rng.random() < cfg.get("p_prerun_chain", 0.07):
        k = rng.choice([2, 2, 3])
        bad = rng.randrange(1, k) if rng.random() < 0.85 else None       # the failing one is never the first
        for j in range(k):
            name = "f%d" % (nfx + j)
            gen = rng.random() < 0.8
            fx = {"name": name, "names": None, "scope": "pre_run", "per_thread": False,
                  "params": [chain[-1]] if chain and rng.random() < 0.8 else [], "gen": gen,
                  "setup": [{"a": "raise", "kind": rng.choice(cfg["kinds"])}] if j == bad else [],
                  "teardown": [{"a": "raise", "kind": "exc"}] if gen and rng.random() < 0.15 else []}
            fixtures.append(fx)
            reg.append((name, fx))
            chain.append(name)
    all_names = [n for n, _ in reg]
    suite_names = [n for n, g in reg if LEVEL[g["scope"]] >= LEVEL["suite"] and not g["per_thread"]]
    pt_names = [n for n, g in reg if g["per_thread"]]

    ctr = {"s": 0, "t": 0}
    budget = [rng.choice([1, 2, 3, 4, 5, 6, 8, 10, 12])]

    def pick(names, k):
        return rng.sample(names, min(len(names), k)) if names else []

    used_test_names = []
    DOTTED = ["v1.2", "10.0.0.1", "check_1.5", "a.b"]

    def mk_test(siblings=()):
        name = "t%d" % ctr["t"]
        ctr["t"] += 1
        # test names only have to be unique within their suite: now and then reuse the name of a test of another
        # suite (users.prepare / orders.prepare), or take a name with dots in it (parametrized naming schemes)
        cands = [n for n in used_test_names if n not in siblings]
        if cands and rng.random() < 0.22:
            name = rng.choice(cands)
        elif rng.random() < cfg.get("p_dotted", 0.04):
            cand = rng.choice(DOTTED)
            if cand not in siblings:
                name = cand
        used_test_names.append(name)
        fxs = pick(all_names, rng.choice([0, 0, 1, 1, 2, 3]))
        if pt_names and rng.random() < cfg.get("p_use_pt", 0.7 if cfg["need_perthread"] else 0.3):
            n = rng.choice(pt_names)
            if n not in fxs:
                fxs.append(n)
        r = rng.random()
        disabled = False if r < 0.86 else (True if r < 0.93 else "disabled because of %s" % name)
        return {"name": name, "rank": 0, "disabled": disabled, "deps": [], "fixtures": fxs,
                "script": gen_script(rng, cfg, cfg["p_fail_body"], 0.85)}

    used_suite_names = []

    def mk_suite(depth, siblings=(), parent_tests=()):
        name = "s%d" % ctr["s"]
        ctr["s"] += 1
        homonym = None
        # names only have to be unique among siblings: reuse a name met elsewhere in the tree (same-named suites
        # under different parents, a suite named like its parent) now and then
        cands = [n for n in used_suite_names if n not in siblings]
        if cands and rng.random() < 0.22:
            name = rng.choice(cands)
        elif rng.random() < cfg.get("p_dotted", 0.04) / 2:
            cand = rng.choice(["api.v2", "pkg.mod"])         # @lcc.suite(name="api.v2")
            if cand not in siblings:
                name = cand
        # a sub-suite named like a TEST of its parent (suite `a`: test `login` + sub-suite `login` — the loader checks the
        # uniqueness of test names and of sub-suite names separately): the two nodes have the same hierarchy of names
        # and differ by their kind only
        twins = [t for t in parent_tests if t["name"] not in siblings]
        if twins and rng.random() < cfg.get("p_homonym", 0.14):
            homonym = rng.choice(twins)
            name = homonym["name"]
        used_suite_names.append(name)
        nt = min(budget[0], rng.choice([1, 1, 2, 2, 3, 4]))
        if rng.random() < cfg.get("p_empty", 0.06):
            nt = 0          # a suite left without tests (D1 lives here: keep it present but not dominant)
        budget[0] -= nt
        tests = []
        for _ in range(nt):
            tests.append(mk_test([x["name"] for x in tests]))
        nsub = 0 if depth >= 3 or budget[0] <= 0 else rng.choice([0, 0, 0, 1, 1, 2])
        subs = []
        for _ in range(nsub):
            subs.append(mk_suite(depth + 1, [x["name"] for x in subs], tests))
        mode = "ties" if rng.random() < cfg["p_ties"] else ("shuffled" if rng.random() < 0.12 else "seq")
        for group in (tests, subs):
            ranks = list(range(1, len(group) + 1))
            if mode == "ties":
                ranks = [0] * len(group)
            elif mode == "shuffled":
                rng.shuffle(ranks)
            for x, r in zip(group, ranks):
                x["rank"] = r
        s = {"name": name, "rank": 0, "disabled": rng.random() < 0.08,
             "setup_suite": None, "teardown_suite": None, "setup_test": None, "teardown_test": None,
             "injected": [], "tests": tests, "suites": subs}
        if rng.random() < 0.35:
            s["setup_suite"] = {"params": pick(suite_names, rng.choice([0, 1, 1, 2])),
                                "script": gen_script(rng, cfg, cfg["p_fail_hook"], 0.4, 3)}
        if rng.random() < 0.3:
            s["teardown_suite"] = gen_script(rng, cfg, cfg["p_fail_hook"], 0.3, 2)
        if rng.random() < 0.22:
            s["setup_test"] = gen_script(rng, cfg, cfg["p_fail_hook"], 0.3, 2)
        if rng.random() < 0.22:
            s["teardown_test"] = gen_script(rng, cfg, cfg["p_fail_hook"], 0.3, 2)
        if suite_names and rng.random() < 0.2:
            s["injected"] = sorted(pick(suite_names, rng.choice([1, 1, 2])))   # dir() order of the suite object
        if homonym is not None and cfg["p_fail_body"] > 0:
            # the situation in which a mix-up of the two homonymous nodes shows: the sub-suite has a setup phase (hook or
            # suite-scoped fixture) and tests of its own, and one of the two nodes fails (the test: usually after a gate)
            if s["setup_suite"] is None and not s["injected"] and rng.random() < 0.7:
                s["setup_suite"] = {"params": [], "script": gen_script(rng, cfg, cfg["p_fail_hook"], 0.3, 2)}
            if not any(act_fails(a) for a in iter_acts(homonym["script"])) and rng.random() < 0.5:
                homonym["script"].append(_failing_act(rng, cfg["kinds"]))
        return s

    suites = []
    for _ in range(rng.choice([1, 1, 2, 2, 3])):
        if budget[0] > 0 or not suites:
            # (a top-level suite may be named like a SUB-suite of an earlier top-level suite: alpha, alpha.beta, beta)
            suites.append(mk_suite(1, [x["name"] for x in suites]))
    if rng.random() < 0.04:
        suites.append(dict(mk_suite(3, [x["name"] for x in suites]), tests=[], suites=[]))      # a top-level suite without tests
    mode = "ties" if rng.random() < cfg["p_ties"] else "seq"
    for i, s in enumerate(suites):
        s["rank"] = 0 if mode == "ties" else i + 1
    project = {"fixtures": fixtures, "suites": suites, "nb_threads": rng.choice([1, 1, 2, 2, 3, 4, 8]),
               "force_disabled": rng.random() < cfg["p_force"], "stop_on_failure": rng.random() < cfg["p_stop"]}
    if not any(True for _ in iter_tests(project)):
        suites[0]["tests"].append(dict(mk_test(), rank=1))
    if chain:
        enabled = [t for _, t, _, _, dis in iter_tests(project) if not dis] or [t for _, t, *_ in iter_tests(project)]
        user = rng.choice(enabled)
        for n in chain if rng.random() < 0.5 else chain[-1:]:
            if n not in user["fixtures"]:
                user["fixtures"].append(n)
    _disambiguate(project)
    # dependencies: edges only towards tests that come earlier in a random permutation (acyclic), which
    # gives forward references and cross-suite references
    paths = [p for p, *_ in iter_tests(project)]
    order = list(paths)
    rng.shuffle(order)
    pos = {tuple(p): i for i, p in enumerate(order)}
    p_dep = rng.choice([0.0, 0.15, 0.3, 0.5])
    for p, t, *_ in iter_tests(project):
        # (a dependency is written as a dotted path string: targets and their ancestors are dot-free)
        earlier = [q for q in paths if pos[tuple(q)] < pos[tuple(p)] and not any("." in x for x in q)]
        if earlier and rng.random() < p_dep:
            t["deps"] = [list(q) for q in rng.sample(earlier, min(len(earlier), rng.choice([1, 1, 2])))]
            # one test depending on SAME-NAMED tests of different suites (users.prepare + orders.prepare)
            twins = [q for q in earlier if q not in t["deps"] and any(q[-1] == d[-1] for d in t["deps"])]
            if twins and rng.random() < 0.9:
                t["deps"].insert(rng.randint(0, len(t["deps"])), list(rng.choice(twins)))
    if rng.random() < cfg.get("p_all_disabled", 0.12):
        # a suite WITH a setup phase whose own tests are all disabled (each of them, or the suite itself) — mostly a NESTED suite,
        # mostly under --force-disabled (its tests then do run, and need that setup); without the option the suite has nothing to run
        cands = [(sp, s) for sp, s, _ in iter_suites(project) if s["tests"]]
        nested = [(sp, s) for sp, s in cands if len(sp) >= 2]
        sp, s = rng.choice(nested if nested and rng.random() < 0.75 else cands)
        if s["setup_suite"] is None and not s["injected"]:
            s["setup_suite"] = {"params": [], "script": [{"a": "log", "level": "info"}]}
        if rng.random() < 0.7:
            for t in s["tests"]:
                t["disabled"] = t["disabled"] or True
        else:
            s["disabled"] = True
        if rng.random() < 0.65:
            project["force_disabled"] = True
    check_valid(project)
    return project


def _disambiguate(project):
    """two nodes with the same DOTTED path (suite `a` + test `b.c` next to suite `a.b` + test `c`) cannot be told
    apart by the path-keyed tables of the loader: rename the later one (the generator's counter names are dot-free)"""
    seen = set()            # dotted paths of the suites
    seen_tests = set()      # dotted paths of the tests (a test may be named like a sibling sub-suite)
    n = [0]

    def fresh(prefix, taken):
        while True:
            n[0] += 1
            cand = "%s%dx" % (prefix, n[0])
            if cand not in taken:
                return cand
    for sp, s, _ in iter_suites(project):
        key = ".".join(sp)
        if key in seen:
            holder = project["suites"]
            for name in sp[:-1]:
                holder = next(x for x in holder if x["name"] == name)["suites"]
            s["name"] = fresh("s", {x["name"] for x in holder})
            return _disambiguate(project)
        seen.add(key)
        for t in s["tests"]:
            key = ".".join(sp + [t["name"]])
            if key in seen_tests:
                t["name"] = fresh("t", {x["name"] for x in s["tests"]})
                return _disambiguate(project)
            seen_tests.add(key)


# ------------------------------------------------------------------------------------------------
# features (input-distribution histogram)
# ------------------------------------------------------------------------------------------------

def features(project):
    f = set()
    nt = sum(1 for _ in iter_tests(project))
    f.add("tests=%s" % ("1" if nt == 1 else "2-4" if nt <= 4 else "5-8" if nt <= 8 else "9-12"))
    depth = max(len(sp) for sp, _, _ in iter_suites(project))
    f.add("depth=%d" % depth)
    for sp, s, _ in iter_suites(project):
        if not s["tests"]:
            f.add("empty-suite" + ("+subs" if s["suites"] else ""))
        if s["disabled"]:
            f.add("disabled-suite")
        if s["tests"] and (s["setup_suite"] is not None or s["injected"]) and (s["disabled"] or all(t["disabled"] for t in s["tests"])):
            f.add("suite-with-setup-whose-own-tests-are-all-disabled" + ("-nested" if len(sp) >= 2 else "-top-level")
                  + ("+force_disabled" if project["force_disabled"] else ""))
        for h in HOOKS:
            if s[h] is not None:
                f.add("hook:" + h)
        if s["setup_suite"] and s["setup_suite"]["params"]:
            f.add("setup_suite-params")
        if s["injected"]:
            f.add("injected")
        ranks = [t["rank"] for t in s["tests"]]
        if len(set(ranks)) != len(ranks) or len({x["rank"] for x in s["suites"]}) != len(s["suites"]):
            f.add("rank-ties")
    tr = [s["rank"] for s in project["suites"]]
    if len(set(tr)) != len(tr):
        f.add("rank-ties")
    byname = fixtures_by_name(project)
    index = {tuple(p): i for i, (p, *_) in enumerate(iter_tests(project))}
    for p, t, sp, s, dis in iter_tests(project):
        if t["disabled"] is True:
            f.add("disabled-test")
        elif t["disabled"]:
            f.add("disabled-test-reason")
        for d in t["deps"]:
            f.add("dep")
            if d[:-1] != sp:
                f.add("dep-cross-suite")
            if index[tuple(d)] > index[tuple(p)]:
                f.add("dep-forward")
        for n in t["fixtures"]:
            f.add("test-uses-" + byname[n]["scope"])
            if byname[n]["per_thread"]:
                f.add("test-uses-per_thread")
    pre = [fx for fx in project["fixtures"] if fx["scope"] == "pre_run"]
    if len(pre) >= 2:
        f.add("pre_run-fixtures>=2")
        if any(set(fx["params"]) & {n for g in pre for n in fx_names(g)} for fx in pre):
            f.add("pre_run-fixture-depends-on-pre_run-fixture")
        for j, fx in enumerate(pre):
            if fx["setup"] and j > 0:
                f.add("pre_run-setup-fails-after-another-pre_run-fixture")
                if any(g["gen"] for g in pre[:j]):
                    f.add("pre_run-setup-fails-after-a-pre_run-generator-fixture")
    for fx in project["fixtures"]:
        f.add("fx-" + fx["scope"])
        if fx["gen"]:
            f.add("fx-gen")
        if fx["names"]:
            f.add("fx-multiname")
        if fx["params"]:
            f.add("fx-params")
        if fx["per_thread"]:
            f.add("fx-per_thread")
    for unit, sc in scripts_of(project):
        where = unit[0] if unit[0] != "hook" else unit[2]
        if unit[0] == "fx":
            where = "fx-" + unit[2]
        for a in sc:
            if a["a"] == "thread":
                f.add("act-thread")
                if a.get("name"):
                    f.add("act-thread-named")
                for b in iter_acts(a["script"]):
                    if act_fails(b):
                        f.add("fail-in-thread")
                        if b["a"] == "raise" and b["kind"] != "exc":
                            f.add("abort-raised-in-thread")
                            if not any(act_fails(x) for x in iter_acts(sc) if x is not b):
                                f.add("abort-in-thread-is-the-only-failure")
            if act_fails(a):
                kind = a.get("kind") or ("error-log" if a["a"] == "log" else "failed-check")
                f.add("fail:%s@%s" % (kind, where))
            if a["a"] in ("attach", "url", "step", "gate", "detached"):
                f.add("act-" + a["a"])
        prev = None
        for j, a in enumerate(sc):
            if a["a"] == "detached" and j + 1 < len(sc) and sc[j + 1]["a"] in ("log", "check", "url", "attach", "attachw"):
                f.add("detached_step+record-right-after")
            if a["a"] == "step":
                if a["d"] == prev:
                    f.add("step-same-description-again")
                prev = a["d"]

        def blocks(acts, depth, in_thread):
            for a in acts:
                if a["a"] == "attachw":
                    f.add("attach-block")
                    if a.get("via") == "save_file":
                        f.add("save_attachment_file-missing-source" + ("-in-thread" if in_thread else ""))
                    elif a.get("write") == "late":
                        f.add("attach-block-writes-file-last")
                        if any(act_fails(b) for b in iter_acts(a["script"])):
                            f.add("attach-block-left-by-failure-before-file-written" + ("-in-thread" if in_thread else ""))
                    if depth:
                        f.add("attach-block+nested-block")
                    if in_thread:
                        f.add("attach-block-in-thread")
                    for b in a["script"]:
                        if b["a"] in ("attach", "step", "thread", "log", "check"):
                            f.add("attach-block+" + b["a"])
                        if act_fails(b):
                            f.add("attach-block+failure")
                    blocks(a["script"], depth + 1, in_thread)
                elif a["a"] == "thread":
                    blocks(a["script"], depth, True)
        blocks(sc, 0, False)
        for a in iter_acts(sc):
            if a["a"] == "raise" and a.get("sub"):
                f.add("raise-subclass:" + a["kind"])
            if a["a"] == "raise" and a.get("args"):
                f.add("abort-args:" + a["args"])
                f.add("abort-args-not-one-string")
            if a["a"] == "step" and not a["d"].startswith("step "):
                d = a["d"]
                f.add("step-desc:" + ("empty" if d == "" else "blank" if not d.strip() else "multi-line" if "\n" in d else "long"))
        for scr, in_thread in [(sc, False)] + list(_holders(sc)):
            if in_thread:
                for j, a in enumerate(scr):
                    if a["a"] == "raise" and a.get("base"):
                        f.add("base-exception-in-lcc-thread:" + a["base"])
                        if any(b["a"] in ("log", "check", "url", "attach") for b in scr[:j]):
                            f.add("base-exception-in-lcc-thread-after-a-record")
        if unit[0] == "fx" and unit[2] == "setup" and fixtures_by_name(project)[unit[1]]["per_thread"]:
            for a in sc:
                if act_fails(a):
                    f.add("fail-in-per_thread-fixture-setup:" + (a.get("kind") or ("error-log" if a["a"] == "log" else "failed-check")))
    names = [s["name"] for _, s, _ in iter_suites(project)]
    if len(set(names)) < len(names):
        f.add("suite-name-reused")
    if any("." in n for n in names):
        f.add("suite-name-dotted")
    subnames = set()
    for top in project["suites"]:
        if top["name"] in subnames:
            f.add("top-level-suite-named-like-earlier-sub-suite")
        subnames.update(sp[-1] for sp, _, _ in iter_suites(top["suites"]))
    for sp, s, _ in iter_suites(project):
        for x in s["suites"]:
            for t in s["tests"]:
                if t["name"] == x["name"]:
                    f.add("test-named-like-sibling-sub-suite")
                    if x["setup_suite"] or x["injected"]:
                        f.add("test-named-like-sibling-sub-suite+suite-setup")
                        if any(act_fails(a) for a in iter_acts(t["script"])):
                            f.add("test-named-like-sibling-sub-suite+suite-setup+test-fails")
                        if x["setup_suite"] and any(act_fails(a) for a in iter_acts(x["setup_suite"]["script"])):
                            f.add("test-named-like-sibling-sub-suite+suite-setup-fails")
    tnames = [p[-1] for p, *_ in iter_tests(project)]
    if len(set(tnames)) < len(tnames):
        f.add("test-name-reused")
    if any("." in n for n in tnames):
        f.add("test-name-dotted")
    for p, t, *_ in iter_tests(project):
        last = [d[-1] for d in t["deps"]]
        if len(set(last)) < len(last):
            f.add("dep-on-same-named-tests")
    if project["force_disabled"]:
        f.add("force_disabled")
    if project["stop_on_failure"]:
        f.add("stop_on_failure")
    return sorted(f)


# ------------------------------------------------------------------------------------------------
# shrinking
# ------------------------------------------------------------------------------------------------

def _strip_test_refs(project, removed):
    removed = {tuple(p) for p in removed}
    for p, t, *_ in iter_tests(project):
        t["deps"] = [d for d in t["deps"] if tuple(d) not in removed]


def _remove_fixture_name(project, name, replace=None):
    def sub(lst):
        out = []
        for n in lst:
            if n == name:
                if replace and replace not in out and replace not in lst:
                    out.append(replace)
            else:
                out.append(n)
        return out
    for fx in project["fixtures"]:
        fx["params"] = sub(fx["params"])
    for sp, s, _ in iter_suites(project):
        s["injected"] = sub(s["injected"])
        if s["setup_suite"]:
            s["setup_suite"]["params"] = sub(s["setup_suite"]["params"])
        for t in s["tests"]:
            t["fixtures"] = sub(t["fixtures"])


def _script_slots(project):
    """(getter, setter) pairs of every script of the project"""
    slots = []
    for fx in project["fixtures"]:
        slots.append((fx, "setup"))
        if fx["gen"]:
            slots.append((fx, "teardown"))
    for sp, s, _ in iter_suites(project):
        if s["setup_suite"]:
            slots.append((s["setup_suite"], "script"))
        for h in HOOKS[1:]:
            if s[h] is not None:
                slots.append((s, h))
        for t in s["tests"]:
            slots.append((t, "script"))
    return slots


def shrink_project(p):
    """smaller VALID projects, coarse edits first"""
    def out(q):
        return q if is_valid(q) else None

    cands = []
    for n in sorted({1, 2, p["nb_threads"] - 1} - {0, p["nb_threads"]}):
        if n < p["nb_threads"]:
            cands.append(dict(copy.deepcopy(p), nb_threads=n))
    for flag in ("force_disabled", "stop_on_failure"):
        if p[flag]:
            cands.append(dict(copy.deepcopy(p), **{flag: False}))
    # drop a suite
    for sp, s, _ in iter_suites(p):
        q = copy.deepcopy(p)
        removed = [tp for tp, *_ in iter_tests(q) if tp[:len(sp)] == sp]
        holder = q["suites"]
        for name in sp[:-1]:
            holder = next(x for x in holder if x["name"] == name)["suites"]
        holder[:] = [x for x in holder if x["name"] != sp[-1]]
        if not q["suites"]:
            continue
        _strip_test_refs(q, removed)
        cands.append(q)
    # hoist: replace a suite by ... (keep simple) ; drop a test
    for tp, t, sp, s, _ in iter_tests(p):
        q = copy.deepcopy(p)
        for sp2, s2, _ in iter_suites(q):
            if sp2 == sp:
                s2["tests"] = [x for x in s2["tests"] if x["name"] != t["name"]]
        _strip_test_refs(q, [tp])
        cands.append(q)
    # drop a fixture function with all its uses
    for i, fx in enumerate(p["fixtures"]):
        q = copy.deepcopy(p)
        del q["fixtures"][i]
        for n in fx_names(fx):
            _remove_fixture_name(q, n)
        cands.append(q)
    # fixture simplifications
    for i, fx in enumerate(p["fixtures"]):
        if fx["names"]:
            q = copy.deepcopy(p)
            q["fixtures"][i]["names"] = None
            for n in fx["names"][1:]:
                _remove_fixture_name(q, n, replace=fx["name"])
            cands.append(q)
        for j in range(len(fx["params"])):
            q = copy.deepcopy(p)
            del q["fixtures"][i]["params"][j]
            cands.append(q)
        if fx["gen"] and not fx["teardown"]:
            q = copy.deepcopy(p)
            q["fixtures"][i]["gen"] = False
            cands.append(q)
        if fx["per_thread"]:
            q = copy.deepcopy(p)
            q["fixtures"][i]["per_thread"] = False
            cands.append(q)
    # suite-level features
    for k, (sp, s, _) in enumerate(iter_suites(p)):
        def edit(fn):
            q = copy.deepcopy(p)
            s2 = list(iter_suites(q))[k][1]
            fn(s2)
            cands.append(q)
        for h in HOOKS:
            if s[h] is not None:
                edit(lambda s2, h=h: s2.__setitem__(h, None))
        if s["setup_suite"]:
            for j in range(len(s["setup_suite"]["params"])):
                edit(lambda s2, j=j: s2["setup_suite"]["params"].pop(j))
        for j in range(len(s["injected"])):
            edit(lambda s2, j=j: s2["injected"].pop(j))
        if s["disabled"]:
            edit(lambda s2: s2.__setitem__("disabled", False))
        for ti, t in enumerate(s["tests"]):
            for j in range(len(t["fixtures"])):
                edit(lambda s2, ti=ti, j=j: s2["tests"][ti]["fixtures"].pop(j))
            for j in range(len(t["deps"])):
                edit(lambda s2, ti=ti, j=j: s2["tests"][ti]["deps"].pop(j))
            if t["disabled"]:
                edit(lambda s2, ti=ti: s2["tests"][ti].__setitem__("disabled", False))
    # scripts: drop an act, flatten / shorten a thread act
    def positions(sc, prefix=()):
        """index paths of every act of a script, inner scripts included (outer acts first)"""
        for j, a in enumerate(sc):
            yield prefix + (j,), a
        for j, a in enumerate(sc):
            if a["a"] in NESTED:
                yield from positions(a["script"], prefix + (j,))

    def locate(sc, path):
        for j in path[:-1]:
            sc = sc[j]["script"]
        return sc, path[-1]
    nslots = len(_script_slots(p))
    for k in range(nslots):
        holder, key = _script_slots(p)[k]
        for path, a in positions(holder[key]):
            q = copy.deepcopy(p)
            h2, k2 = _script_slots(q)[k]
            sc2, j = locate(h2[k2], path)
            del sc2[j]
            cands.append(q)
            if a["a"] == "attachw" and a["script"] and not a.get("via"):
                # the block dissolved: its acts in its place
                q = copy.deepcopy(p)
                h2, k2 = _script_slots(q)[k]
                sc2, j = locate(h2[k2], path)
                sc2[j:j + 1] = copy.deepcopy(a["script"])
                cands.append(q)
            for key in ("sub", "args", "base"):
                if a["a"] == "raise" and a.get(key):
                    q = copy.deepcopy(p)
                    h2, k2 = _script_slots(q)[k]
                    sc2, j = locate(h2[k2], path)
                    del sc2[j][key]
                    cands.append(q)
            if a["a"] == "step" and not a["d"].startswith("step "):
                q = copy.deepcopy(p)
                h2, k2 = _script_slots(q)[k]
                sc2, j = locate(h2[k2], path)
                sc2[j]["d"] = "step 1"
                cands.append(q)
    # names: a dotted / reused name replaced by a fresh plain one (dependencies follow)
    for tp, t, sp, s_, _ in iter_tests(p):
        if "." in t["name"] or sum(1 for x, *_ in iter_tests(p) if x[-1] == t["name"]) > 1 \
                or any(x["name"] == t["name"] for x in s_["suites"]):
            q = copy.deepcopy(p)
            new = "t%dz" % sum(1 for _ in iter_tests(p))
            for tp2, t2, *_ in iter_tests(q):
                t2["deps"] = [(d[:-1] + [new]) if d == tp else d for d in t2["deps"]]
            for tp2, t2, *_ in iter_tests(q):
                if tp2 == tp:
                    t2["name"] = new
                    break
            cands.append(q)
    for sp, s_, _ in iter_suites(p):
        if "." in s_["name"]:
            q = copy.deepcopy(p)
            new = "s%dz" % len(sp)
            for sp2, s2, _ in iter_suites(q):
                if sp2 == sp:
                    s2["name"] = new
                    break
            cands.append(q)
    for q in cands:
        q = out(q)
        if q is not None:
            yield q


def size(project):
    n = len(project["fixtures"]) * 3 + project["nb_threads"]
    for sp, s, _ in iter_suites(project):
        n += 3 + len(s["injected"]) + sum(1 for h in HOOKS if s[h] is not None)
    for unit, sc in scripts_of(project):
        n += sum(1 for _ in iter_acts(sc))
    for p, t, *_ in iter_tests(project):
        n += 3 + len(t["deps"]) + len(t["fixtures"])
    return n

"""
Shared by C16 and C17: generated matcher expressions (public constructor API of lemoncheesecake.matching)
and actual values, their JSON syntax (the same syntax the Lean drivers parse, see
lean/LccModel/Model/MatcherJson.lean), the translation to real matcher objects / Python values, and a
reference evaluator that uses nothing but Python's own operators.

  Val  : None | True | False | ["i", n] | ["f", h] (the float h/2) | ["nan", source] | ["s", text] | ["l", [Val...]] | ["d", [[key, Val]...]]
         ["nan", source]: a float NaN, the one value of the domain that is NOT equal to itself.  source = where the object comes from:
         "math" (math.nan, ONE shared object), "json" (json.loads("NaN"), ONE shared object of the json module), "new" (float("nan"), a
         new object at every evaluation), "calc" (inf - inf, a new object).  The model has ONE NaN value (`Val.nan`): the source and
         the identity of the object must mean nothing.
         key : "text" (a str key) | None | True | False | ["i", n] | ["f", h]   -- one dict may mix the types of its keys
  Expr : [constructor, args...]
"""
import itertools
import json
import math

# ------------------------------------------------------------------------------------------------
# values
# ------------------------------------------------------------------------------------------------

def to_py(v):
    """JSON syntax -> Python value"""
    if v is None or v is True or v is False:
        return v
    t, x = v
    if t == "i":
        return int(x)
    if t == "f":
        return x / 2.0
    if t == "nan":
        return nan_object(x)
    if t == "x":
        return foreign_object(x)
    if t == "tuple":
        return tuple(to_py(e) for e in x)
    if t == "s":
        return x
    if t == "l":
        return [to_py(e) for e in x]
    if t == "d":
        return {key_to_py(k): to_py(e) for k, e in x}
    raise ValueError(v)


class Opaque:
    """a user-defined value class: equal by content, hashable, unordered, written by str() as its content"""

    def __init__(self, text):
        self.text = text

    def __eq__(self, other):
        return isinstance(other, Opaque) and other.text == self.text

    def __hash__(self):
        return hash(("Opaque", self.text))

    def __str__(self):
        return self.text

    def __repr__(self):
        return "Opaque(%r)" % self.text


def _foreign_table():
    import datetime
    import decimal
    import uuid
    return {
        "date": lambda: datetime.date(2020, 1, 2),
        "datetime": lambda: datetime.datetime(2020, 1, 2, 3, 4, 5),
        "decimal": lambda: decimal.Decimal("1.50"),
        "decimal-nan": lambda: decimal.Decimal("NaN"),
        "uuid": lambda: uuid.UUID("12345678-1234-5678-1234-567812345678"),
        "set": lambda: {1},
        "bytes": lambda: b"ab",
        "complex": lambda: 1j,
        "object": lambda: Opaque("thing"),
        "object-1": lambda: Opaque("1"),
    }


FOREIGN = sorted(_foreign_table())


def foreign_object(name):
    """["x", name]: a value of a class json.dumps has no native rendering for (a new object at every evaluation).  These values
    are outside the model's `Val` (only the oracle-only pools of C17.inject use them)"""
    return _foreign_table()[name]()


def foreign_text(name):
    """str() of the foreign value: the text `json.dumps(..., default=str)` would write for it"""
    return str(foreign_object(name))


def is_foreign_val(v):
    return isinstance(v, list) and len(v) == 2 and v[0] in ("x", "tuple")


def has_foreign(v):
    """a value (foreign class, tuple) or a constructor (match_pattern) outside the model's universe anywhere in the JSON syntax"""
    if is_foreign_val(v) or (isinstance(v, list) and len(v) == 3 and v[0] == "match_pattern"):
        return True
    if isinstance(v, dict):
        return any(has_foreign(x) for x in v.values())
    return isinstance(v, list) and any(has_foreign(x) for x in v)


NAN_SHARED = ("math", "json")      # sources that hand out ONE object
NAN_FRESH = ("new", "calc")        # sources that make a new object at every evaluation
NAN_SOURCES = NAN_SHARED + NAN_FRESH


def nan_object(source):
    if source == "math":
        return math.nan
    if source == "json":
        return json.loads("NaN")
    if source == "calc":
        inf = float("inf")
        return inf - inf
    return float("nan")


def is_nan_val(v):
    return isinstance(v, list) and len(v) == 2 and v[0] == "nan"


def has_nan(v):
    """a NaN anywhere in the JSON syntax of a value / expression / case"""
    if is_nan_val(v):
        return True
    if isinstance(v, dict):
        return any(has_nan(x) for x in v.values())
    return isinstance(v, list) and any(has_nan(x) for x in v)


def has_nested_nan(v):
    """a NaN INSIDE a list / dict value (Python's containers compare and search their items with an identity shortcut)"""
    if isinstance(v, list) and len(v) == 2 and v[0] in ("l", "d"):
        return has_nan(v[1])
    if isinstance(v, dict):
        return any(has_nested_nan(x) for x in v.values())
    return isinstance(v, list) and not is_nan_val(v) and any(has_nested_nan(x) for x in v)


def fresh_nans(v):
    """the same value with every NaN taken from a source that makes a new object (used for NaNs inside containers and list
    arguments: the model has no object identity, so the cases compared with it never put ONE NaN object on both sides of a
    container comparison — the identity-dependent behaviour is the oracle's business, see C17.inject)"""
    if is_nan_val(v):
        return ["nan", v[1] if v[1] in NAN_FRESH else "new"]
    if isinstance(v, list):
        return [fresh_nans(x) for x in v]
    return v


def without_nans(v):
    """the same JSON structure with every NaN replaced by the float 1.5 (streams whose model cannot express identity)"""
    if is_nan_val(v):
        return ["f", 3]
    if isinstance(v, list):
        return [without_nans(x) for x in v]
    if isinstance(v, dict):
        return {k: without_nans(x) for k, x in v.items()}
    return v


def key_to_py(k):
    """dict key syntax -> Python key (a JSON string is a str key, the other scalars use the value syntax)"""
    return k if isinstance(k, str) else to_py(k)


def key_class(k):
    return "str" if isinstance(k, str) else "None" if k is None else "bool" if isinstance(k, bool) else \
        {"i": "int", "f": "float", "s": "str"}[k[0]]


def dict_key_classes(v):
    """for every dict inside the value: the set of the types of its keys (used by the distribution report)"""
    out = []
    if isinstance(v, list) and len(v) == 2 and v[0] == "l":
        for e in v[1]:
            out += dict_key_classes(e)
    elif isinstance(v, list) and len(v) == 2 and v[0] == "d":
        out.append(frozenset(key_class(k) for k, _ in v[1]))
        for _, e in v[1]:
            out += dict_key_classes(e)
    return out


def key_feature(vals):
    """'mixed' if some dict among the values has keys of >= 2 types, 'non-str' if some dict has a non-str key, else None"""
    cs = [c for v in vals for c in dict_key_classes(v)]
    if any(len(c) >= 2 for c in cs):
        return "mixed"
    if any(c - {"str"} for c in cs):
        return "non-str"
    return None


def num_to_py(n):
    return int(n[1]) if n[0] == "i" else n[1] / 2.0


STRINGS = ["", "a", "b", "ab", "ba", "abc", "foo", "bar", "a b", 'q"t', "back\\slash", "li\nne", "é", "tab\t", "\x01", "A", "Ab"]
LONG_STRINGS = ["A" * 48, "B" * 50, "ab" * 30, "x" * 101]
# texts that read like the matchers' own wording: a description is built by rewriting verb phrases ("to be" -> "is",
# "to not be", "to have" -> "has", "to match" -> "matches") — a value that quotes them must come out untouched
WORDING_STRINGS = ["to be", "to not be", "to have", "to match", "is", "has", "matches", "to be or not to be", "it has to be",
                   "to be equal to 1", "and to have", " to be", "to be ", "To Be", "not", "to"]
KEYS = ["a", "b", "k", "foo", 'q"k', ""]
# keys that contain the separators of the wordings they are written into (a key path is worded `"k1" -> "k2"`, a list `x, y`),
# quotes, brackets, text that looks like a rendered key / a rendered two-level path
SEP_KEYS = ["a, b", "a -> b", 'a", "b', 'a" -> "b', "a,b", ", ", " -> ", "[a]", '"a"', "a\\", "1", "a -> b, c"]
# the other key types json.dumps accepts; "1"/"null"/"true" are what json.dumps turns 1/None/True into (distinct keys for Python)
SCALAR_KEYS = [None, True, False, ["i", 0], ["i", 1], ["i", 2], ["i", -1], ["i", 10 ** 20], ["f", 3], ["f", -1], ["f", 2], ["f", 20]]
MIXED_KEYS = KEYS + ["1", "null", "true"] + SCALAR_KEYS


def gen_keys(rng, n):
    """n (or fewer) dict keys, pairwise distinct for Python (True == 1 == 1.0 is ONE key): 65 % str keys only, else keys of
    mixed types (str, None, bool, int, float)"""
    r = rng.random()
    if r < 0.6:
        return rng.sample(KEYS, min(n, len(KEYS)))
    if r < 0.65:
        return rng.sample(SEP_KEYS + KEYS[:2], min(n, 4))
    out, seen = [], set()
    for k in rng.sample(MIXED_KEYS, min(n + 2, len(MIXED_KEYS))):
        pk = key_to_py(k)
        if pk not in seen and len(out) < n:
            seen.add(pk)
            out.append(k)
    return out


def gen_str(rng, allow_long=True):
    r = rng.random()
    if allow_long and r < 0.06:
        return rng.choice(LONG_STRINGS)
    if r < 0.72:
        return rng.choice(STRINGS)
    if r < 0.8:
        return rng.choice(WORDING_STRINGS)
    return "".join(rng.choice("ab") for _ in range(rng.randint(0, 4)))


def gen_scalar(rng):
    r = rng.random()
    if r < 0.08:
        return None
    if r < 0.2:
        return rng.choice([True, False])
    if r < 0.5:
        return ["i", rng.choice([-2, -1, 0, 0, 1, 1, 2, 3, 5, 10, 10 ** 20, -(10 ** 18)])]
    if r < 0.54:
        return ["nan", rng.choice(NAN_SOURCES)]
    if r < 0.65:
        return ["f", rng.choice([-3, -1, 0, 1, 2, 3, 4, 5, 7, 20, 2 * 10 ** 9 + 1])]
    return ["s", gen_str(rng)]


def gen_val(rng, depth=2):
    r = rng.random()
    if depth <= 0 or r < 0.55:
        return gen_scalar(rng)
    if r < 0.79:
        return ["l", [fresh_nans(gen_val(rng, depth - 1)) for _ in range(rng.choice([0, 1, 2, 2, 3, 4]))]]
    keys = gen_keys(rng, rng.choice([0, 1, 2, 2, 3]))
    return ["d", [[k, fresh_nans(gen_val(rng, depth - 1))] for k in keys]]


def retype(rng, v, p=0.7):
    """a value that is EQUAL to `v` for Python (`==`) but — with probability p at every number it holds — of another type:
    bool / int / float of the same numeric value (True ~ 1 ~ 1.0, False ~ 0 ~ 0.0, 3 ~ 3.0), through lists and dict values at
    any depth, dict entries possibly in another order.  What is printed (`1`, `1.0`, `true`) differs; what `==` says does not."""
    def num(n2):                       # n2 = the value in halves
        if n2 % 2:
            return ["f", n2]
        if abs(n2) >= 2 * 10 ** 15:    # the float would print in exponent notation (1e+20): outside the modelled renderings
            return ["i", n2 // 2]
        opts = [["i", n2 // 2], ["f", n2]] + ([n2 == 2] if n2 in (0, 2) else [])
        return rng.choice(opts)

    if v is None:
        return None
    if isinstance(v, bool):
        return num(2 * int(v)) if rng.random() < p else v
    t, x = v
    if t == "i":
        return num(2 * x) if rng.random() < p else v
    if t == "f":
        return num(x) if rng.random() < p else v
    if t == "l":
        return ["l", [fresh_nans(retype(rng, e, p)) for e in x]]
    if t == "d":
        items = [[k, fresh_nans(retype(rng, e, p))] for k, e in x]
        if rng.random() < 0.3:
            rng.shuffle(items)
        return ["d", items]
    return v


def has_number(v):
    if isinstance(v, bool):
        return True
    return isinstance(v, list) and len(v) == 2 and (v[0] in ("i", "f") or (v[0] == "l" and any(has_number(e) for e in v[1]))
                                                      or (v[0] == "d" and any(has_number(e) for _, e in v[1])))


def literals_of(e):
    """the Val literals occurring in an expression (used to aim actual values at the matcher)"""
    out = []
    c = e[0]
    if c in ("val", "equal_to", "not_equal_to", "greater_than", "greater_than_or_equal_to", "less_than",
             "less_than_or_equal_to", "is_json"):
        out.append(e[1])
    elif c in ("has_items", "has_only_items", "is_in"):
        out.extend(e[1])
        out.append(["l", list(e[1])])
    elif c == "is_between":
        out.extend([list(e[1]), list(e[2])])
    elif c in ("starts_with", "ends_with", "contains_string"):
        out.append(["s", e[1]])
        out.append(["s", e[1] + "b"])
        out.append(["s", "a" + e[1]])
    for sub in sub_exprs(e):
        out.extend(literals_of(sub))
    return out


def gen_actual(rng, expr):
    """a value: random, or built from the literals of the expression so that matchers often succeed"""
    lits = literals_of(expr)
    r = rng.random()
    if not lits or r < 0.4:
        return gen_val(rng, 2)
    if r < 0.6:
        return rng.choice(lits)
    if r < 0.7:
        return retype(rng, rng.choice(lits))        # equal under ==, other number types (1 / 1.0 / True), at any depth
    if r < 0.85:
        k = rng.choice([1, 2, 3])
        return ["l", [fresh_nans(rng.choice(lits) if rng.random() < 0.8 else gen_scalar(rng)) for _ in range(k)]]
    keys = gen_keys(rng, rng.choice([1, 2]))
    return ["d", [[k, fresh_nans(rng.choice(lits) if rng.random() < 0.8 else gen_val(rng, 1))] for k in keys]]


# ------------------------------------------------------------------------------------------------
# expressions
# ------------------------------------------------------------------------------------------------

NULLARY = ["is_none", "is_not_none", "is_true", "is_false", "anything", "something", "existing", "present"]
VALUE_LEAVES = ["equal_to", "not_equal_to", "greater_than", "greater_than_or_equal_to", "less_than",
                "less_than_or_equal_to"]
STRING_LEAVES = ["starts_with", "ends_with", "contains_string"]
LIST_LEAVES = ["has_items", "has_only_items", "is_in"]
UNARY = ["not_", "is_", "has_length", "has_item", "has_all_items"]
TYPES = ["int", "float", "str", "dict", "list", "bool"]
CONSTRUCTORS = set(NULLARY + VALUE_LEAVES + STRING_LEAVES + LIST_LEAVES + UNARY + [
    "val", "is_between", "has_entry", "has_key", "is_type", "is_type_any", "all_of", "any_of", "hide", "override"])

OVERRIDES = ["to be one", "to have it", "to match the thing", "can do", "to exist somewhere", "is fine", "", "to look_good now",
             "to be\nsplit", "to be " + "z" * 99]


def gen_keypath(rng):
    n = rng.choice([0, 1, 1, 1, 2, 2, 3]) if rng.random() < 0.3 else rng.choice([1, 1, 2])
    if rng.random() < 0.15:
        return [rng.choice(SEP_KEYS) if rng.random() < 0.6 else rng.choice(KEYS) for _ in range(n)]
    return [rng.choice(KEYS) if rng.random() < 0.7 else rng.choice([0, 1, -1, 2]) for _ in range(n)]


def gen_num(rng):
    return ["i", rng.choice([-1, 0, 1, 2, 3, 5])] if rng.random() < 0.6 else ["f", rng.choice([-1, 1, 3, 4, 5])]


def gen_leaf(rng):
    r = rng.random()
    if r < 0.3:
        return [rng.choice(VALUE_LEAVES), gen_val(rng, rng.choice([1, 1, 2]))]
    if r < 0.42:
        return [rng.choice(NULLARY)]
    if r < 0.54:
        return [rng.choice(STRING_LEAVES), gen_str(rng)]
    if r < 0.66:
        return [rng.choice(LIST_LEAVES), [fresh_nans(gen_val(rng, rng.choice([1, 1, 2]))) for _ in range(rng.choice([0, 1, 2, 2, 3]))]]
    if r < 0.74:
        return ["is_between", gen_num(rng), gen_num(rng)]
    if r < 0.82:
        return ["has_key", gen_keypath(rng)]
    if r < 0.92:
        return ["is_type_any", rng.choice(TYPES)]
    return [rng.choice(VALUE_LEAVES), gen_scalar(rng)]


def gen_arg(rng, depth):
    """an argument position that goes through is_(): a matcher expression or a plain value"""
    if rng.random() < 0.12:
        return ["val", gen_val(rng, rng.choice([1, 1, 2]))]
    return gen_expr(rng, depth)


def gen_expr(rng, depth):
    """an expression of nesting depth <= depth (leaves have depth 1)"""
    if depth <= 1 or rng.random() < 0.15:
        return gen_leaf(rng)
    r = rng.random()
    if r < 0.24:
        return [rng.choice(UNARY), gen_arg(rng, depth - 1)]
    if r < 0.34:
        return ["has_entry", gen_keypath(rng), gen_arg(rng, depth - 1)]
    if r < 0.44:
        return ["is_type", rng.choice(TYPES), gen_arg(rng, depth - 1)]
    if r < 0.88:
        n = rng.choice([0, 1, 2, 2, 2, 3, 3, 4])
        return [rng.choice(["all_of", "any_of"]), [gen_arg(rng, depth - 1) for _ in range(n)]]
    if r < 0.95:
        return ["hide", gen_expr(rng, depth - 1)]
    return ["override", rng.choice(OVERRIDES), gen_expr(rng, depth - 1)]


def sub_exprs(e):
    """direct sub-expressions"""
    c = e[0]
    if c in UNARY or c == "hide":
        return [e[1]]
    if c in ("has_entry", "is_type", "override"):
        return [e[2]]
    if c in ("all_of", "any_of"):
        return list(e[1])
    return []


def depth_of(e):
    subs = sub_exprs(e)
    return 1 + (max(map(depth_of, subs)) if subs else 0)


def constructors_of(e):
    out = {e[0]}
    for s in sub_exprs(e):
        out |= constructors_of(s)
    return out


def shrink_expr(e):
    """smaller expressions: a sub-expression in place of the whole, fewer children, smaller children"""
    subs = sub_exprs(e)
    for s in subs:
        if s[0] != "val":
            yield s
    c = e[0]
    if c in ("all_of", "any_of"):
        for i in range(len(e[1])):
            yield [c, e[1][:i] + e[1][i + 1:]]
        for i, s in enumerate(e[1]):
            for t in shrink_expr(s):
                yield [c, e[1][:i] + [t] + e[1][i + 1:]]
    elif c in UNARY or c == "hide":
        for t in shrink_expr(e[1]):
            yield [c, t]
    elif c in ("has_entry", "is_type", "override"):
        for t in shrink_expr(e[2]):
            yield [c, e[1], t]


# ------------------------------------------------------------------------------------------------
# the real matcher objects, through the public constructor functions only
# ------------------------------------------------------------------------------------------------

class Env:
    """the world a constructor call is evaluated in (stream C17.seq): `store[l]` are the LIVE mutable containers the test keeps a
    handle on (["ref", l] in value position passes that very object), `objs[i]` the matcher objects built so far (["obj", i] in
    matcher position passes that very object)"""

    def __init__(self, store, objs=None, made=None):
        self.store, self.objs = store, ([] if objs is None else objs)
        self.made = made          # if a list: every value object handed to a constructor is appended (the identity domain of C17.inject)


def is_ref(v):
    return isinstance(v, list) and len(v) == 2 and v[0] == "ref" and isinstance(v[1], int)


def to_matcher(e, top=True, env=None):
    """Expr -> object built by lemoncheesecake.matching's public functions.  A `val` in argument position is passed
    as the plain value (the API applies is_()); at the top it is `is_(value)`.  With an `env`, ["ref", l] / ["obj", i] pass the
    live container / the existing matcher object themselves."""
    import lemoncheesecake.matching as M

    def made(x):
        if env is not None and env.made is not None:
            env.made.append(x)
        return x

    def val(v):
        return env.store[v[1]] if env is not None and is_ref(v) else made(to_py(v))

    def vals(vs):
        return env.store[vs[1]] if env is not None and is_ref(vs) else made([made(to_py(v)) for v in vs])

    def arg(a):
        return val(a[1]) if a[0] == "val" else to_matcher(a, top=False, env=env)

    c = e[0]
    if c == "obj":
        return env.objs[e[1]]
    if c == "val":
        return M.is_(val(e[1])) if top else val(e[1])
    if c == "is_":
        return M.is_(arg(e[1]))
    if c == "not_":
        return M.not_(arg(e[1]))
    if c in VALUE_LEAVES:
        return getattr(M, c)(val(e[1]))
    if c == "is_between":
        return M.is_between(num_to_py(e[1]), num_to_py(e[2]))
    if c in NULLARY:
        return getattr(M, c)()
    if c in ("has_length", "has_item", "has_all_items"):
        return getattr(M, c)(arg(e[1]))
    if c in STRING_LEAVES:
        return getattr(M, c)(e[1])
    if c == "match_pattern":
        # ["match_pattern", text, flags] (outside the model): flags = None -> the pattern given as a str, else re.compile(text, flags)
        import re
        made(e[1]), made(e[1].upper()), made(e[1] + "\n")
        return M.match_pattern(e[1] if e[2] is None else re.compile(e[1], e[2]))
    if c in LIST_LEAVES:
        return getattr(M, c)(vals(e[1]))
    if c == "has_entry":
        return M.has_entry(list(e[1]), arg(e[2]))
    if c == "has_key":
        return M.has_entry(list(e[1]))
    if c == "is_type":
        return _type_fn(M, e[1])(arg(e[2]))
    if c == "is_type_any":
        return _type_fn(M, e[1])()
    if c == "all_of":
        return M.all_of(*[arg(a) for a in e[1]])
    if c == "any_of":
        return M.any_of(*[arg(a) for a in e[1]])
    if c == "hide":
        return (to_matcher(e[1], top=False, env=env) if e[1][0] != "val" else M.is_(val(e[1][1]))).hide_result_details()
    if c == "override":
        inner = to_matcher(e[2], top=False, env=env) if e[2][0] != "val" else M.is_(val(e[2][1]))
        return inner.override_description(e[1])
    raise ValueError(e)


def from_py(x):
    """Python value of the domain -> JSON syntax (inverse of to_py)"""
    if x is None or x is True or x is False:
        return x
    if isinstance(x, int):
        return ["i", x]
    if isinstance(x, float):
        if x != x:
            return ["nan", "new"]
        if (x * 2) != int(x * 2):
            raise ValueError(x)
        return ["f", int(x * 2)]
    if isinstance(x, str):
        return ["s", x]
    if isinstance(x, list):
        return ["l", [from_py(e) for e in x]]
    if isinstance(x, dict):
        return ["d", [[k if isinstance(k, str) else from_py(k), from_py(v)] for k, v in x.items()]]
    raise ValueError(x)


def map_expr(e, f_val, f_obj):
    """rebuild an expression: `f_val` is applied to every value / value-list argument, `f_obj` to every ["obj", i]"""
    c = e[0]
    if c == "obj":
        return f_obj(e)
    if c == "val" or c in VALUE_LEAVES or c in LIST_LEAVES:
        return [c, f_val(e[1])]
    if c in UNARY or c == "hide":
        return [c, map_expr(e[1], f_val, f_obj)]
    if c in ("has_entry", "is_type", "override"):
        return [c, e[1], map_expr(e[2], f_val, f_obj)]
    if c in ("all_of", "any_of"):
        return [c, [map_expr(a, f_val, f_obj) for a in e[1]]]
    return list(e)


def inline_objs(e, templates):
    """the constructor call with every ["obj", i] replaced by the call that built object i (itself already inlined)"""
    return map_expr(e, lambda v: v, lambda o: ["is_", templates[o[1]]])      # what is passed IS a Matcher: is_() returns it as it is


def instantiate(e, store_vals):
    """the pure expression an (inlined) template denotes for the given contents (JSON syntax) of the store"""
    def walk(e):
        c = e[0]
        if c in LIST_LEAVES:
            return [c, list(store_vals[e[1][1]][1])] if is_ref(e[1]) else list(e)      # ["l", items] -> items
        if c == "val" or c in VALUE_LEAVES:
            return [c, store_vals[e[1][1]] if is_ref(e[1]) else e[1]]
        if c in UNARY or c == "hide":
            return [c, walk(e[1])]
        if c in ("has_entry", "is_type", "override"):
            return [c, e[1], walk(e[2])]
        if c in ("all_of", "any_of"):
            return [c, [walk(a) for a in e[1]]]
        return list(e)

    return walk(e)


def refs_of(e):
    """the store locations an (inlined) template refers to"""
    out = set()
    map_expr(e, lambda v: (out.add(v[1]) if is_ref(v) else None, v)[1], lambda o: o)
    return out


def _type_fn(M, t):
    return {"int": M.is_integer, "float": M.is_float, "str": M.is_str, "dict": M.is_dict, "list": M.is_list,
            "bool": M.is_bool}[t]


# ------------------------------------------------------------------------------------------------
# reference evaluation: what the expression MEANS, with Python's own operators only
# ------------------------------------------------------------------------------------------------

_PYTYPES = {"int": (int,), "float": (float,), "str": (str,), "dict": (dict,), "list": (list, tuple), "bool": (bool,)}


def _count(xs, v):
    return sum(1 for x in xs if x == v)


def ref_truth(e, x):
    """truth value of the expression on x by Python's operators; Python exceptions propagate"""
    c = e[0]
    if c == "val" or c == "equal_to":
        return x == to_py(e[1])
    if c == "is_":
        return ref_truth(e[1], x)
    if c == "not_":
        return not ref_truth(e[1], x)
    if c == "not_equal_to":
        return x != to_py(e[1])
    if c == "greater_than":
        return x > to_py(e[1])
    if c == "greater_than_or_equal_to":
        return x >= to_py(e[1])
    if c == "less_than":
        return x < to_py(e[1])
    if c == "less_than_or_equal_to":
        return x <= to_py(e[1])
    if c == "is_between":
        return num_to_py(e[1]) <= x <= num_to_py(e[2])
    if c == "is_none":
        return x is None
    if c == "is_not_none":
        return x is not None
    if c == "is_true":
        return x is True
    if c == "is_false":
        return x is False
    if c == "has_length":
        return ref_truth(e[1], len(x))
    if c == "starts_with":
        return isinstance(x, str) and x.startswith(e[1])
    if c == "ends_with":
        return isinstance(x, str) and x.endswith(e[1])
    if c == "contains_string":
        return isinstance(x, str) and e[1] in x
    if c == "has_item":
        return any(ref_truth(e[1], i) for i in x)
    if c == "has_items":
        return all([to_py(v) in x for v in e[1]])
    if c == "has_only_items":
        # the two collections are equal as multisets under `==`: every expected item is paired with an item of its own that is
        # `==` to it, and nothing is left (for self-equal values: equal counts; a NaN is `==` to nothing, so it pairs with nothing)
        items, exp = list(x), [to_py(v) for v in e[1]]
        for v in exp:
            k = next((i for i, it in enumerate(items) if it == v), None)
            if k is None:
                return False
            del items[k]
        return not items
    if c == "has_all_items":
        return all([ref_truth(e[1], i) for i in x])
    if c == "is_in":
        return x in [to_py(v) for v in e[1]]
    # `has_entry(key, None)` / `is_integer(None)`: None is the "no value matcher" default of the API, not a value
    if c == "has_entry" and e[2] == ["val", None]:
        return ref_truth(["has_key", e[1]], x)
    if c == "is_type" and e[2] == ["val", None]:
        return ref_truth(["is_type_any", e[1]], x)
    if c in ("has_entry", "has_key"):
        d = x
        for k in e[1]:
            try:
                d = d[k]
            except (KeyError, TypeError, IndexError):
                return False
        return ref_truth(e[2], d) if c == "has_entry" else True
    if c == "is_type":
        return type(x) in _PYTYPES[e[1]] and ref_truth(e[2], x)
    if c == "is_type_any":
        return type(x) in _PYTYPES[e[1]]
    if c == "all_of":
        return all(ref_truth(a, x) for a in e[1])
    if c == "any_of":
        return any(ref_truth(a, x) for a in e[1])
    if c in ("anything", "something", "existing", "present"):
        return True
    if c == "hide":
        return ref_truth(e[1], x)
    if c == "override":
        return ref_truth(e[2], x)
    raise ValueError(e)


def ref_eval(e, x):
    """True / False / name of the exception class Python's operators raise"""
    try:
        r = ref_truth(e, x)
    except Exception as ex:  # noqa: BLE001 - the class name IS the observation
        return type(ex).__name__
    return bool(r)

"""
Regular expressions for `--grep` (property C12).

* `to_ast(pattern)`  : the pattern as Python's OWN parser reads it (`re._parser.parse` with the flags filter.py
                       compiles with), converted into the AST of `lean/LccModel/Model/Regex.lean`.  Constructs outside
                       the modelled fragment raise `Unsupported` (the case is then decided by the oracle only).
* `model_can_decide` : the domain on which the model's character tables were validated.
* generators         : random patterns x texts (stream C12.glob, kind "regex"); patterns aimed at the grepable items
                       of a report (stream C12.report): matches that straddle two adjacent items, `\\A` / `\\Z` on inner
                       items, patterns that match the empty string, line anchors, classes, alternatives, repeats.
"""
import re
from re import _parser as P, _constants as K

FLAGS = re.IGNORECASE | re.MULTILINE
MAX_COPIES = 3


class Unsupported(Exception):
    pass


def _seq(nodes):
    if not nodes:
        return {"t": "eps"}
    out = nodes[-1]
    for n in reversed(nodes[:-1]):
        out = {"t": "seq", "a": n, "b": out}
    return out


def _alt(nodes):
    out = nodes[-1]
    for n in reversed(nodes[:-1]):
        out = {"t": "alt", "a": n, "b": out}
    return out


_CATS = {
    K.CATEGORY_SPACE: ("space", False), K.CATEGORY_NOT_SPACE: ("space", True),
    K.CATEGORY_DIGIT: ("digit", False), K.CATEGORY_NOT_DIGIT: ("digit", True),
    K.CATEGORY_WORD: ("word", False), K.CATEGORY_NOT_WORD: ("word", True),
}
_ATS = {
    K.AT_BEGINNING: {"t": "bol"}, K.AT_END: {"t": "eol"},           # MULTILINE: the compiler turns them into *_LINE
    K.AT_BEGINNING_STRING: {"t": "bos"}, K.AT_END_STRING: {"t": "eos"},
    K.AT_BOUNDARY: {"t": "wordb", "neg": False}, K.AT_NON_BOUNDARY: {"t": "wordb", "neg": True},
}


def _set(av):
    neg, items = False, []
    for op, a in av:
        if op is K.NEGATE:
            neg = True
        elif op is K.LITERAL:
            items.append({"k": "single", "c": a})
        elif op is K.RANGE:
            items.append({"k": "range", "lo": a[0], "hi": a[1]})
        elif op is K.CATEGORY and a in _CATS:
            items.append({"k": "cat", "cat": _CATS[a][0], "neg": _CATS[a][1]})
        else:
            raise Unsupported("set member %s" % (op,))
    return {"t": "set", "neg": neg, "items": items}


def _node(op, av):
    if op is K.LITERAL:
        return {"t": "lit", "c": av}
    if op is K.NOT_LITERAL:
        return {"t": "set", "neg": True, "items": [{"k": "single", "c": av}]}
    if op is K.ANY:
        return {"t": "any"}
    if op is K.IN:
        return _set(av)
    if op is K.AT:
        if av not in _ATS:
            raise Unsupported("at %s" % (av,))
        return dict(_ATS[av])
    if op is K.BRANCH:
        return _alt([_items(x) for x in av[1]])
    if op is K.SUBPATTERN:
        group, add_flags, del_flags, sub = av
        if add_flags or del_flags:
            raise Unsupported("scoped flags")
        return _items(sub)
    if op in (K.MAX_REPEAT, K.MIN_REPEAT):          # greedy or lazy: the same language
        lo, hi, sub = av
        r = _items(sub)
        if lo > MAX_COPIES or (hi is not K.MAXREPEAT and hi - lo > MAX_COPIES):
            raise Unsupported("repeat bounds")
        parts = [r] * lo
        if hi is K.MAXREPEAT:
            parts.append({"t": "star", "a": r})
        else:
            parts += [{"t": "alt", "a": r, "b": {"t": "eps"}}] * (hi - lo)
        return _seq(parts)
    raise Unsupported(str(op))


def _items(sub):
    return _seq([_node(op, av) for op, av in sub])


def to_ast(pattern):
    """AST of `re.compile(pattern, IGNORECASE | MULTILINE)`; raises Unsupported / re.error."""
    p = P.parse(pattern, FLAGS)
    if p.state.flags != (FLAGS | re.UNICODE):
        raise Unsupported("inline flags")
    return _items(p)


def try_ast(pattern):
    try:
        return to_ast(pattern)
    except (Unsupported, re.error, RecursionError, OverflowError):
        return None


def _walk(ast):
    yield ast
    for k in ("a", "b"):
        if k in ast:
            yield from _walk(ast[k])


def _plain(ch):
    """Characters on which the model's tables are exact: ASCII, and caseless non-alphanumeric others."""
    if ord(ch) < 128:
        return True
    return not ch.isalnum() and ch.lower() == ch.upper() == ch and not ch.isdigit()


def model_can_decide(ast, texts):
    """Non-ASCII letters/digits (`é`): only with patterns made of literals, `.`, anchors, repeats and alternatives
    (their case pairs and `\\w`/`\\d`/`\\b` status are not modelled), and only when no text holds the other case."""
    chars = set("".join(texts))
    pat_chars = set()
    classy = False
    for n in _walk(ast):
        if n["t"] == "lit":
            pat_chars.add(chr(n["c"]))
        elif n["t"] in ("set", "wordb"):
            classy = True
            for it in n.get("items", []):
                if it["k"] == "single":
                    pat_chars.add(chr(it["c"]))
                elif it["k"] == "range":
                    pat_chars.update((chr(it["lo"]), chr(it["hi"])))
    odd = {c for c in chars | pat_chars if not _plain(c)}
    if not odd:
        return True
    if classy:
        return False
    # literal-only pattern: fine unless a case variant of an odd character is around
    for c in odd:
        for v in {c.lower(), c.upper(), c.swapcase(), c.casefold()} - {c}:
            if v in chars or v in pat_chars:
                return False
    return True


def nested_star(ast, inside=False):
    """A repeat inside a repeat: kept out of the patterns sent through the real command (a backtracking engine may need
    exponential time on them)."""
    if ast["t"] == "star":
        return inside or nested_star(ast["a"], True)
    return any(nested_star(ast[k], inside) for k in ("a", "b") if k in ast)


def size(ast):
    return sum(1 for _ in _walk(ast))


def search_items(pattern, items):
    """The statement's reading: some single item contains a match."""
    rx = re.compile(pattern, FLAGS)
    return any(rx.search(x) is not None for x in items)


def search_joined(pattern, items):
    """What a single search over the newline-joined items would say (never what the property demands; used only
    to MEASURE how many generated cases distinguish the two readings)."""
    return re.compile(pattern, FLAGS).search("\n".join(items)) is not None


# ----------------------------------------------------------------------------------------------
# generators
# ----------------------------------------------------------------------------------------------

ATOMS = ["a", "b", "A", "B", "1", "2", " ", ",", "_", r"\.", ".", r"\s", r"\S", r"\d", r"\D", r"\w", r"\W", "[ab]", "[^a]",
         "[a-c]", "[^a-z]", r"[\s,]", r"[^\s]", "[A-B1]", r"[^\d ]", r"\n", r"\t", "[b-]", r"[\w.]"]
ANCHORS = ["^", "$", r"\A", r"\Z", r"\b", r"\B"]
QUANT = ["*", "+", "?", "{1,2}", "{2}", "*?", "+?", "??", "{0,1}"]
TEXT_ALPHA = "abAB12 ,._\n\t-"


def gen_pattern(rng, depth=0):
    """A random pattern of the fragment (as text)."""
    def atom():
        r = rng.random()
        if depth < 2 and r < 0.15:
            inner = gen_pattern(rng, depth + 1)
            return ("(?:%s)" if rng.random() < 0.6 else "(%s)") % inner
        return rng.choice(ATOMS)

    def piece():
        a = atom()
        if rng.random() < 0.3:
            a += rng.choice(QUANT)
        return a

    def branch():
        parts = [piece() for _ in range(rng.randint(0 if depth else 1, 3))]
        if rng.random() < 0.35:
            parts.insert(0, rng.choice(ANCHORS))
        if rng.random() < 0.35:
            parts.append(rng.choice(ANCHORS))
        if rng.random() < 0.1 and parts:
            parts.insert(rng.randint(0, len(parts)), rng.choice(ANCHORS))
        return "".join(parts)

    return "|".join(branch() for _ in range(rng.choice([1, 1, 1, 2, 3])))


def sample(rng, ast):
    """A string the pattern is likely to match (anchors ignored)."""
    t = ast["t"]
    if t == "lit":
        c = chr(ast["c"])
        return c.swapcase() if c.isascii() and rng.random() < 0.3 else c
    if t == "any":
        return rng.choice("abAB1 ,")
    if t == "set":
        cands = [c for c in TEXT_ALPHA + "xyzXYZ09" if re.compile(_render_set(ast), FLAGS).match(c)]
        return rng.choice(cands) if cands else ""
    if t == "seq":
        return sample(rng, ast["a"]) + sample(rng, ast["b"])
    if t == "alt":
        return sample(rng, ast["a" if rng.random() < 0.5 else "b"])
    if t == "star":
        return "".join(sample(rng, ast["a"]) for _ in range(rng.choice([0, 1, 1, 2])))
    return ""


def _render_set(ast):
    def esc(c):
        return "\\" + chr(c) if chr(c) in "\\]^-[" else chr(c)
    body = ""
    for it in ast["items"]:
        if it["k"] == "single":
            body += esc(it["c"])
        elif it["k"] == "range":
            body += esc(it["lo"]) + "-" + esc(it["hi"])
        else:
            letter = {"space": "s", "digit": "d", "word": "w"}[it["cat"]]
            body += "\\" + (letter.upper() if it["neg"] else letter)
    return "[" + ("^" if ast["neg"] else "") + body + "]"


def gen_texts(rng, ast, n=10):
    out = []
    for _ in range(n):
        r = rng.random()
        noise = lambda k: "".join(rng.choice(TEXT_ALPHA) for _ in range(rng.randint(0, k)))
        if r < 0.55:
            out.append(noise(3) + sample(rng, ast) + noise(3))
        elif r < 0.7:
            out.append(sample(rng, ast))
        else:
            out.append(noise(8))
    out += ["", "\n"]
    return out


def gen_regex_case(rng):
    """pattern x texts for the model-validation stream."""
    for _ in range(20):
        pat = gen_pattern(rng)
        ast = try_ast(pat)
        if ast is not None and size(ast) <= 60:
            return {"kind": "regex", "pat": pat, "strs": gen_texts(rng, ast)}
    return {"kind": "regex", "pat": "a", "strs": ["a", "b"]}


CONNECTORS = [r"\s", r"\s+", r"\s*", r"[^a-z]", r"\W", r"\n", "\n", r"[\s]", r"\D", r"(?:\s|,)", r"\s{1,2}", r"[^a-z0-9]+", r"$\s^",
              r"$\n^", r"\s+?", r"[\n]", r"\W+", r"[^x]"]
NULLABLE = ["x*", "^", "$", r"\A", r"\Z", "(?:foo)?", r"\s*", "a*|b", "", r"\b|\B", r"^$", "()", r"\A\Z", r"\d{0,2}"]


def aimed_pattern(rng, results):
    """A pattern aimed at the grepable items of a report.  `results` = list of item lists (one per test result).
    Returns (pattern, kind)."""
    multi = [it for it in results if len(it) >= 2]
    some = [it for it in results if it]
    r = rng.random()

    def tail(x):
        k = rng.randint(1, min(4, len(x))) if x else 0
        return x[len(x) - k:] if k else ""

    def head(x):
        k = rng.randint(1, min(4, len(x))) if x else 0
        return x[:k]

    if r < 0.42 and multi:
        items = rng.choice(multi)
        i = rng.randrange(len(items) - 1)
        x, y = items[i], items[i + 1]
        return re.escape(tail(x)) + rng.choice(CONNECTORS) + re.escape(head(y)), "straddle"
    if r < 0.62 and some:
        items = rng.choice(multi or some)
        i = rng.randrange(len(items))
        x = items[i]
        q = rng.random()
        if q < 0.3:
            return r"\A" + re.escape(head(x)), "string-start"
        if q < 0.6:
            return re.escape(tail(x)) + r"\Z", "string-end"
        if q < 0.8:
            return r"\A" + re.escape(x) + r"\Z", "whole-item"
        return "^" + re.escape(x.split("\n")[0]) + r"\Z", "line-start-string-end"
    if r < 0.72:
        return rng.choice(NULLABLE), "nullable"
    if r < 0.86 and some:
        x = rng.choice(rng.choice(some))
        words = [w for w in re.split(r"\W+", x) if w] or ["x"]
        w = rng.choice(words)
        q = rng.random()
        if q < 0.25:
            return "^" + re.escape(w), "line-start"
        if q < 0.5:
            return re.escape(w) + "$", "line-end"
        if q < 0.7:
            return r"\b" + re.escape(w) + r"\b", "word"
        if q < 0.85:
            return re.escape(w[:1]) + r"\w*" + re.escape(w[-1:]), "class"
        return "(?:%s|%s)+" % (re.escape(w), re.escape(rng.choice(words))), "alt-repeat"
    return gen_pattern(rng), "random"

"""
C13 layout generator + renderer (layout -> real Python source tree) + rank simulation.

A layout (JSON-able) is
  dir    = {"name", "mods": [module], "dirs": [dir], "noise": bool, "drops": [drop] (optional)}
  module = {"stem", "info": None | {"name","desc","tags","props","links","xrank","vis"},
            "broken": None|"raise"|"syntax"|"binary"|"dangling"|"isdir"  (the last three: `<stem>.py` is binary garbage / a dangling
            symbolic link / a directory — the directory scan looks at the name only, so the import fails),
            "tests": [test], "classes": [cls]}
  drop   = {"name": <file name>, "kind": <label>, "body": "module"|"text"|"binary"|"dangling", "mod": module | None}
           a *dropping*: a directory entry that is NOT a suite module by its name (dot-prefixed, `__`-prefixed, not ending in
           `.py`): hidden drafts `.alpha_draft.py` (valid modules with tests), Emacs lock files `.#alpha.py` (dangling symbolic
           links), AppleDouble `._alpha.py` (binary), backups `alpha.py~` / `#alpha.py#`, `alpha.pyc`, `alpha.PY`, `__init__.py`,
           `.py`, text files.  Every dropping holding Python source writes its path to $LCCV_IMPORT_LOG when imported.
           Directories nobody declared (`.git`, `__pycache__`, `.x_wip`: no accepted module inside) are ordinary `dirs` entries
           with `mods: []`; a hidden directory WITH modules is a declared directory like any other (the loader does not filter
           directory names).
  cls    = {"attr","pos","name","desc","xrank","tags","props","links","vis","disabled","ctor_fails","tests","subs"}
  test   = {"attr","pos","name","desc","tags","props","links","vis","disabled",
            "param": None | {"sets": [[[k, v], ...], ...], "naming": None | {"name": [seg], "desc": [seg]}, "style": "dict"|"csv"|"csvtuple", "pads": [[before, after], ...] (csv: white space around each header field)}}
  vis    = None | "hidden" | True | False | cond  (None: no condition; bool: what visible_if's callable returns)
  cond   = {"pv": PV | None, "via": "const"|"env"|"envint"|"attr"|"len"|"count", "key": str, "callable": "lambda"|"obj"|"falsy-obj"}
           the callable returns the Python value PV, computed at load time: a constant, os.environ.get(KEY) (the harness sets /
           unsets the variable around the load), int(os.environ.get(KEY, '0')), an attribute of the object the callable
           receives (function attribute / class attribute / module global), len() of such an attribute, or
           <name>.count('_') of the item's own Python identifier (then "pv" is None: `cond_pv` computes it from the identifier);
           "callable": a lambda, a callable instance, or a callable instance that is itself a false value (the input class of the repaired finding D36)
  PV     = {"t": "none"} | {"t":"bool","v":b} | {"t":"int","v":i} | {"t":"float","k":"fin","milli":m} | {"t":"float","k":"negzero"|"nan"}
           | {"t":"float","k":"inf","neg":b} | {"t":"str","v":s} | {"t":"list"|"tuple"|"dict","n":n} | {"t":"obj"}
           | {"t":"objbool","v":b} (instance whose __bool__ returns b) | {"t":"objlen","n":n} (instance with only __len__)
`pos` is the textual position of the item within its class / module body.
Ranks are NOT part of the generated layout: `with_ranks` computes what the global counter
`Metadata._next_rank` (reset to 1 before every case) hands out while the sources are imported.
"""
import copy
import os

TEST_ATTRS = ["test_a", "test_b", "test_c", "check_d", "test_E_Upper", "t_f", "test_g1", "zz_last", "aa_first", "Test_H"]
CLS_ATTRS = ["SuiteA", "suite_b", "Inner_C", "zeta", "alpha", "Mid_d", "Beta_e"]
STEMS = ["mod_a", "mod_b", "suite_c", "zz_mod", "aa_mod", "foo", "bar", "Baz_Q"]
DIR_ONLY = ["only_dir", "aa_dir", "zz_dir", "Dir_X"]
# file stems that are not Python identifiers: several dots, a single leading underscore, `.py` inside, spaces, dashes
ODD_STEMS = ["a.b", "mod_a.v2", "_private", "x.py", "with space", "mod-a", "foo.bar", "_", "a..b", "Baz_Q.test"]
# directories that tools create inside a suites directory (never hold an accepted module here)
JUNK_DIRS = [".git", "__pycache__", ".idea", ".pytest_cache", ".mod_a_wip", "__snapshots__", ".~lock"]
HIDDEN_DIRS = [".wip_suites", ".more", "__extra"]
TAGS = ["slow", "fast", "db", "täg", "x y"]
PKEYS = ["i", "j", "k"]


def _meta(rng, uniq):
    tags = rng.sample(TAGS, rng.choice([0, 0, 1, 2, 3]))
    props = [[k, rng.choice(["1", "hi", "v✓"])] for k in rng.sample(["prio", "owner", "kind"], rng.choice([0, 0, 1, 2]))]
    links = []
    for _ in range(rng.choice([0, 0, 0, 1, 2])):
        u = "http://x/%d" % uniq()
        links.append([u, rng.choice([None, "ticket %d" % uniq()])])
    return {"tags": tags, "props": props, "links": links}


def _pv(t, **kw):
    return dict({"t": t}, **kw)


# what a visible_if callable may return: values that are false without being False, true without being True
FALSY_PVS = [_pv("none"), _pv("bool", v=False), _pv("int", v=0), _pv("float", k="fin", milli=0), _pv("float", k="negzero"),
             _pv("str", v=""), _pv("list", n=0), _pv("tuple", n=0), _pv("dict", n=0), _pv("objbool", v=False), _pv("objlen", n=0)]
TRUTHY_PVS = [_pv("bool", v=True), _pv("int", v=1), _pv("int", v=-1), _pv("int", v=2), _pv("float", k="fin", milli=2500),
              _pv("float", k="fin", milli=-500), _pv("float", k="nan"), _pv("float", k="inf", neg=False),
              _pv("float", k="inf", neg=True), _pv("str", v="x"), _pv("str", v="0"), _pv("str", v="False"), _pv("str", v=" "),
              _pv("str", v="é"), _pv("list", n=1), _pv("list", n=2), _pv("tuple", n=1), _pv("dict", n=1), _pv("obj"),
              _pv("objbool", v=True), _pv("objlen", n=3)]
ENV_STRS = ["", "", "x", "0", "False", " ", "1", "é"]
VIAS = {"test": ["const", "const", "env", "envint", "attr", "len", "count"],
        "class": ["const", "const", "env", "envint", "attr", "len", "count"],
        "module": ["const", "const", "env", "envint", "attr", "len"]}

# defined at the top of every rendered module: instances with their own truth protocol, and a callable instance
PRELUDE = """import os
import lemoncheesecake.api as lcc


class _VB:
    def __init__(self, b):
        self.b = b

    def __bool__(self):
        return self.b


class _VL:
    def __init__(self, n):
        self.n = n

    def __len__(self):
        return self.n


class _VC:
    # a condition that is a callable *instance*; `truth` is its own truth value
    def __init__(self, truth, fn):
        self.truth, self.fn = truth, fn

    def __bool__(self):
        return self.truth

    def __call__(self, obj):
        return self.fn(obj)
"""


def gen_cond(rng, kind, uniq):
    """a visible_if condition whose value is computed at load time"""
    via = rng.choice(VIAS[kind])
    key = "k%d" % uniq()
    falsy = rng.random() < 0.5
    pv = None
    if via in ("const", "attr"):
        pv = copy.deepcopy(rng.choice(FALSY_PVS if falsy else TRUTHY_PVS))
    elif via == "env":
        pv = _pv("none") if rng.random() < 0.4 else _pv("str", v=rng.choice(ENV_STRS))
    elif via == "envint":
        pv = _pv("int", v=0 if falsy else rng.choice([1, 2, -1, 10]))
    elif via == "len":
        pv = _pv("int", v=0 if falsy else rng.choice([1, 2, 3]))
    r = rng.random()
    call = "lambda" if r < 0.88 else "obj" if r < 0.96 else "falsy-obj"
    return {"pv": pv, "via": via, "key": key, "callable": call}


def _vis(rng, p_hidden=0.12, p_cond=0.16, kind="test", uniq=None):
    r = rng.random()
    if r < p_hidden:
        return "hidden"
    if r < p_hidden + p_cond:
        if uniq is None or rng.random() < 0.25:
            return rng.random() < 0.5
        return gen_cond(rng, kind, uniq)
    return None


def cond_pv(v, attr):
    """the Python value (PV) the condition `v` of the item with identifier `attr` returns at load time"""
    if v is True or v is False:
        return _pv("bool", v=v)
    if v["via"] == "count":
        return _pv("int", v=(attr or "").count("_"))
    return v["pv"]


def _walk_vis(d, out):
    def cls(c):
        out.append((c.get("vis"), c["attr"], "class"))
        for t in c["tests"] + inherited_tests(c):
            out.append((t.get("vis"), t["attr"], "test"))
        for x in c["subs"]:
            cls(x)
    for m in d["mods"]:
        if m.get("info"):
            out.append((m["info"].get("vis"), None, "module"))
        for t in m["tests"]:
            out.append((t.get("vis"), t["attr"], "test"))
        for c in m["classes"]:
            cls(c)
    for x in d["dirs"]:
        _walk_vis(x, out)
    return out


def conditions(layout):
    """every (vis, identifier, level) of the layout with a visible_if condition"""
    return [(v, a, k) for v, a, k in _walk_vis(layout, []) if v is not None and v != "hidden"]


def env_of(layout):
    """{variable: text or None (unset)} the conditions of the layout read from the environment"""
    env = {}
    for v, attr, _ in conditions(layout):
        if isinstance(v, dict) and v["via"] in ("env", "envint"):
            pv = cond_pv(v, attr)
            name = "LCCV_" + v["key"]
            if v["via"] == "env":
                env[name] = None if pv["t"] == "none" else pv["v"]
            else:
                # a zero is either "0" or an unset variable (the default of the .get)
                env[name] = None if pv["v"] == 0 and sum(map(ord, v["key"])) % 2 else str(pv["v"])
    return env


def _disabled(rng):
    r = rng.random()
    if r < 0.1:
        return True
    if r < 0.17:
        return rng.choice(["not ready", "bug #12", "désactivé"])
    return None


def gen_param(rng):
    keys = rng.sample(PKEYS, rng.choice([1, 1, 2]))
    n = rng.choice([0, 1, 2, 2, 3])
    sets = []
    same_order = rng.random() < 0.8
    for _ in range(n):
        ks = list(keys)
        if not same_order:
            rng.shuffle(ks)
        sets.append([[k, rng.choice([0, 1, 2, 7, -3, 12, "a", "b c", "Z"])] for k in ks])
    naming = None
    if rng.random() < 0.4:
        def tmpl(prefix):
            segs = [{"lit": prefix}]
            for k in keys:
                segs.append({"field": k})
                if rng.random() < 0.6:
                    segs.append({"lit": rng.choice(["_", "-", " ", "x"])})
            if rng.random() < 0.15 and len(keys) > 1:      # a scheme that ignores one key (may collide)
                segs = [s for s in segs if s.get("field") != keys[-1]]
            return segs
        naming = {"name": tmpl("p_"), "desc": tmpl("Param ")}
    style = "dict"
    if same_order and n > 0 or (n == 0 and rng.random() < 0.5):
        style = rng.choice(["dict", "csv", "csvtuple"])
    if not same_order:
        style = "dict"
    p = {"sets": sets, "naming": naming, "style": style}
    if style == "csv":
        # the header is TEXT the user writes: white space before / after a field is a way of writing, not part of the name
        p["pads"] = gen_pads(rng, len(keys))
    return p


# white space a user (or an editor aligning columns) puts around the fields of a CSV-like header; the rare ones are the
# other characters `str.strip()` removes
PAD_COMMON = ["", "", "", " ", " ", "  ", "      ", "\t", " \t", "\n"]
PAD_RARE = ["\x0b", "\x0c", "\r\n", "\x1c", "\x1f", "\x85", "\xa0", "\u1680", "\u2003", "\u2028", "\u202f", "\u205f", "\u3000"]


def gen_pads(rng, n):
    """one [before, after] pair of white space per header field; half of the headers are written plainly ('i,j')"""
    r = rng.random()
    if r < 0.3:
        return [["", ""] for _ in range(n)]
    if r < 0.45:
        return [["" if i == 0 else " ", ""] for i in range(n)]          # 'i, j'
    def pad():
        return rng.choice(PAD_RARE) if rng.random() < 0.08 else rng.choice(PAD_COMMON)
    return [[pad(), pad()] for _ in range(n)]


def csv_keys(p):
    return [k for k, _ in p["sets"][0]] if p["sets"] else ["i"]


def csv_header(p):
    """the header string of a `csv` source: the declared names, each written with its padding (the padding follows the
    position, so that a shrunk parameter list keeps a consistent header)"""
    pads = p.get("pads") or [["", ""]]
    return ",".join(pads[i % len(pads)][0] + k + pads[i % len(pads)][1] for i, k in enumerate(csv_keys(p)))


def header_class(p):
    """how the header of a csv source is written (feature / distribution label)"""
    h = csv_header(p)
    if h == "".join(h.split()):
        return "plain"
    out = []
    fields = h.split(",")
    if any(f != f.rstrip() for f in fields[:-1]):
        out.append("ws-before-comma")
    if any(f != f.lstrip() for f in fields[1:]):
        out.append("ws-after-comma")
    if h != h.lstrip():
        out.append("leading-ws")
    if h != h.rstrip():
        out.append("trailing-ws")
    if any(ch in h for pad in PAD_RARE for ch in pad if ch not in "\r\n"):
        out.append("rare-ws")
    elif any(ch in h for ch in "\t\n\r"):
        out.append("tab-or-newline")
    return "+".join(out)


def _const_cond(pv, call="lambda"):
    return {"pv": copy.deepcopy(pv), "via": "const", "key": "k0", "callable": call}


def _falsy_cond(rng, kind, uniq):
    """a condition (lambda) returning a false value, by any of the ways a value is computed"""
    for _ in range(20):
        c = gen_cond(rng, kind, uniq)
        c["callable"] = "lambda"
        if c["via"] == "count":
            continue
        if c["pv"] in FALSY_PVS or c["pv"] == _pv("int", v=0):
            return c
    return {"pv": _pv("none"), "via": "const", "key": "k%d" % uniq(), "callable": "lambda"}


def gen_test(rng, attr, uniq):
    t = {"attr": attr, "pos": 0, "name": None, "desc": None, "vis": _vis(rng, kind="test", uniq=uniq), "disabled": _disabled(rng), "param": None}
    t.update(_meta(rng, uniq))
    r = rng.random()
    if r < 0.5:
        t["desc"] = "Desc %d %s" % (uniq(), rng.choice(["", "café", "'q' \"dq\" \\b", "{brace}"]))
    elif r < 0.53:
        t["desc"] = ""
    if rng.random() < 0.15:
        t["name"] = "nm_%d" % uniq()
    if rng.random() < 0.22:
        t["param"] = gen_param(rng)
    return t


def gen_cls(rng, attr, depth, uniq, dunder=True):
    c = {"attr": attr, "pos": 0, "name": None, "desc": None, "xrank": None, "vis": _vis(rng, 0.1, 0.14, kind="class", uniq=uniq),
         "disabled": _disabled(rng), "ctor_fails": False, "tests": [], "subs": []}
    c.update(_meta(rng, uniq))
    if rng.random() < 0.4:
        c["desc"] = "Suite desc %d" % uniq()
    if rng.random() < 0.1:
        c["name"] = "sn_%d" % uniq()
    if rng.random() < 0.15:
        c["xrank"] = rng.randint(0, 12)
    nt = rng.choice([0, 1, 1, 2, 2, 3])
    ns = rng.choice([0, 0, 1, 2]) if depth < 2 else 0
    attrs_t = rng.sample(TEST_ATTRS, nt)
    attrs_c = rng.sample(CLS_ATTRS, ns)
    c["tests"] = [gen_test(rng, a, uniq) for a in attrs_t]
    c["subs"] = [gen_cls(rng, a, depth + 1, uniq) for a in attrs_c]
    if dunder and rng.random() < 0.012:
        # D18: members of a class whose identifier starts with "__" (full dunder form: no name mangling)
        if rng.random() < 0.6 or depth >= 2:
            c["tests"].append(gen_test(rng, "__dunder__", uniq))
        else:
            c["subs"].append(gen_cls(rng, "__Nested__", depth + 1, uniq, dunder=False))
    _assign_pos(rng, c["tests"], c["subs"])
    if rng.random() < 0.3:
        c["bases"], c["own_props"] = gen_bases(rng, c)
        if rng.random() < 0.4:
            gen_inherited(rng, c, uniq)
    return c


# ---------------------------------------------------------------------------------------------
# what a suite class INHERITS and what it holds besides its members (fifth seeded round): helper base classes and mixins
# (plain classes, not suites) contributing PROPERTIES — evaluated at run time only: they read an injected fixture, state built
# in setup_suite, another test of the suite … —, plain class attributes and helper methods.  They declare nothing: the
# discovery of the class's tests and nested suites must neither list nor evaluate them.
# ---------------------------------------------------------------------------------------------
PROP_NAMES = ["session", "entry_point", "client", "first_case", "inner", "zz_prop", "aa_prop", "Base_url"]
GETTERS = ["raise-attr", "raise-attr", "raise-runtime", "returns-test", "returns-suite", "value", "fixture"]


def gen_prop(rng, c, names):
    name = rng.choice([n for n in PROP_NAMES if n not in names] or ["extra_%d" % len(names)])
    names.append(name)
    g = rng.choice(GETTERS)
    p = {"name": name, "getter": g}
    if g == "returns-test":
        cands = [t["attr"] for t in c["tests"] if not t["attr"].startswith("__")]
        if cands:
            p["target"] = rng.choice(cands)
        else:
            p["getter"] = "raise-attr"
    if g == "returns-suite":
        cands = [x["attr"] for x in c["subs"] if not x["attr"].startswith("__")]
        if cands:
            p["target"] = rng.choice(cands)
        else:
            p["getter"] = "raise-runtime"
    return p


def gen_bases(rng, c):
    """-> (bases, own_props); bases: list of {"props": [...], "attrs": [...], "up": [same, the bases of this base]} in the order
    of the class statement (`class K(Base0, Mixin1)`)"""
    names = []

    def base(depth):
        b = {"props": [gen_prop(rng, c, names) for _ in range(rng.choice([1, 1, 2]))],
             "attrs": rng.sample(["TIMEOUT", "helper_const", "api"], rng.choice([0, 1])), "up": []}
        if depth < 2 and rng.random() < 0.3:
            b["up"] = [base(depth + 1)]
        return b
    bases = [base(1) for _ in range(rng.choice([1, 1, 2]))]
    own = [gen_prop(rng, c, names) for _ in range(rng.choice([0, 0, 1]))]
    return bases, own


INH_ATTRS = ["inh_check", "base_smoke", "zz_inherited", "aa_inherited"]


def gen_inherited(rng, c, uniq):
    """test methods the suite class INHERITS from its first base class (a plain class): they are members of the suite like its
    own, declared (= decorated) before the class body"""
    b = c["bases"][rng.randrange(len(c["bases"]))]
    b["tests"] = [gen_test(rng, a, uniq) for a in rng.sample(INH_ATTRS, rng.choice([1, 1, 2]))]
    for i, t in enumerate(b["tests"]):
        t["pos"] = i


def inherited_tests(c):
    return [t for b in c.get("bases") or [] for t in b.get("tests") or []]


def mro_of(c):
    """the class dicts that hold properties / plain attributes, in MRO order (the class itself first; C3 linearisation of the
    generated shapes: every base is a chain of its own, so the MRO is depth-first, left to right): list of (depth-label, props, attrs)"""
    out = [("own", list(c.get("own_props") or []), ["some_attribute", "helper"])]

    def walk(b, label):
        out.append((label, list(b["props"]), list(b["attrs"]) + ["=" + t["attr"] for t in b.get("tests") or []]))
        for i, u in enumerate(b["up"]):
            walk(u, label + ".up%d" % i)
    for i, b in enumerate(c.get("bases") or []):
        walk(b, "base%d" % i)
    return out


def _assign_pos(rng, tests, classes):
    items = list(tests) + list(classes)
    rng.shuffle(items)
    for i, it in enumerate(items):
        it["pos"] = i
    tests.sort(key=lambda x: x["pos"])
    classes.sort(key=lambda x: x["pos"])


def gen_module(rng, stem, uniq):
    m = {"stem": stem, "info": None, "broken": None, "tests": [], "classes": []}
    kind = rng.choice(["functions", "classes", "mixed", "collapse", "collapse", "nearcollapse", "empty", "mixed"])
    if kind in ("functions", "mixed"):
        m["tests"] = [gen_test(rng, a, uniq) for a in rng.sample(TEST_ATTRS, rng.choice([1, 2, 3]))]
    if kind in ("classes", "mixed"):
        m["classes"] = [gen_cls(rng, a, 1, uniq) for a in rng.sample(CLS_ATTRS, rng.choice([1, 1, 2]))]
    if kind in ("collapse", "nearcollapse"):
        c = gen_cls(rng, stem if stem.isidentifier() else "Klass", 1, uniq)
        if rng.random() < 0.8:
            c["vis"] = None
        if not stem.isidentifier():
            c["name"] = stem
        elif rng.random() < 0.15:                     # a class of another Python name *named* like the module
            c["attr"] = "Klass"
            c["name"] = stem
        m["classes"] = [c]
        if rng.random() < 0.3:                        # extra hidden items do not prevent the collapse
            h = gen_cls(rng, "HiddenSide", 1, uniq)
            h["vis"] = rng.choice(["hidden", False, _falsy_cond(rng, "class", uniq)])
            m["classes"].append(h)
        if rng.random() < 0.25:
            t = gen_test(rng, "hidden_fn", uniq)
            t["vis"] = rng.choice(["hidden", False, _falsy_cond(rng, "test", uniq)])
            m["tests"].append(t)
        if kind == "nearcollapse":
            r = rng.random()
            if r < 0.35:
                m["tests"].append(gen_test(rng, "visible_fn", uniq))
                m["tests"][-1]["vis"] = None
            elif r < 0.7:
                m["classes"].append(gen_cls(rng, "Second", 1, uniq))
                m["classes"][-1]["vis"] = None
            else:
                c["name"] = stem + "_x"
    if kind != "collapse" and rng.random() < 0.35 or (kind == "collapse" and rng.random() < 0.08):
        info = {"name": None, "desc": None, "xrank": None, "vis": rng.choice([None, None, None, True, False])}
        if info["vis"] is not None and rng.random() < 0.8:
            info["vis"] = gen_cond(rng, "module", uniq)
        info.update(_meta(rng, uniq))
        if rng.random() < 0.3:
            info["name"] = "modname_%d" % uniq()
        if rng.random() < 0.5:
            info["desc"] = "Module desc %d" % uniq()
        if rng.random() < 0.3:
            info["xrank"] = rng.randint(-1, 15)
        m["info"] = info
    _assign_pos(rng, m["tests"], m["classes"])
    return m


def scan_accepts(name):
    """The layout's OWN notion of "this directory entry is a suite module" (oracle side; written from the documentation:
    suite modules are the `*.py` files of the directory, hidden files and `__*.py` excepted).  Not the loader, not the model."""
    return len(name) >= 3 and name[-3:] == ".py" and name[:1] != "." and name[:2] != "__"


DROP_KINDS = ["hidden-draft", "hidden-draft", "hidden-twin", "lock-symlink", "appledouble", "backup-tilde", "autosave", "backup-ext",
              "pyc", "upper-ext", "dunder-file", "non-py", "only-ext", "hidden-junk"]


def _drop_module(rng, uniq):
    """a small valid module with visible tests (what a draft / backup of a suite module contains)"""
    m = {"stem": "", "info": None, "broken": None, "classes": [],
         "tests": [_plain_test("drop_t%d" % uniq(), i) for i in range(rng.choice([1, 1, 2]))]}
    if rng.random() < 0.3:
        c = {"attr": "DropSuite", "pos": len(m["tests"]), "name": None, "desc": None, "xrank": None, "vis": None, "disabled": None,
             "ctor_fails": False, "tests": [_plain_test("drop_m%d" % uniq(), 0)], "subs": [], "tags": [], "props": [], "links": []}
        m["classes"] = [c]
    if rng.random() < 0.15:
        m["broken"] = "raise"            # a half-written draft: importing it would raise
    return m


def _plain_test(attr, pos):
    return {"attr": attr, "pos": pos, "name": None, "desc": None, "vis": None, "disabled": None, "param": None,
            "tags": [], "props": [], "links": []}


def gen_drop(rng, stems, uniq, kind=None):
    """one dropping next to the modules `stems` of a directory"""
    kind = kind or rng.choice(DROP_KINDS)
    x = rng.choice(stems) if stems and rng.random() < 0.75 else rng.choice(["alpha", "beta", "tmp", "a.b"])
    body, mod = "module", None
    if kind == "hidden-draft":
        name = ".%s_%s.py" % (x, rng.choice(["draft", "wip", "old"]))
    elif kind == "hidden-twin":
        name = ".%s.py" % x
    elif kind == "lock-symlink":
        name, body = ".#%s.py" % x, "dangling"
    elif kind == "appledouble":
        name, body = "._%s.py" % x, "binary"
    elif kind == "backup-tilde":
        name = "%s.py~" % x
    elif kind == "autosave":
        name = "#%s.py#" % x
    elif kind == "backup-ext":
        name = x + rng.choice([".py.bak", ".py.orig", ".py.swp", ".py_", ".py "])
    elif kind == "pyc":
        name, body = x + rng.choice([".pyc", ".pyo", ".cpython-312.pyc"]), rng.choice(["binary", "module"])
    elif kind == "upper-ext":
        name = x + rng.choice([".PY", ".Py", ".pY"])
    elif kind == "dunder-file":
        name = rng.choice(["__init__.py", "__main__.py", "__%s.py" % x, "__%s__.py" % x, "___.py"])
    elif kind == "non-py":
        name, body = rng.choice(["notes.txt", "README", x + ".pyi", x + "py", x + ".txt", "conftest.cfg", x + ".p", ".gitignore"]), \
            rng.choice(["text", "module"])
    elif kind == "only-ext":
        name = ".py"
    elif kind == "hidden-junk":
        name, body = rng.choice([".%s.py.swp" % x, ".DS_Store", ".%s.py~" % x]), rng.choice(["binary", "text"])
    else:
        raise ValueError(kind)
    assert not scan_accepts(name), name
    if body == "module":
        mod = _drop_module(rng, uniq)
    return {"name": name, "kind": kind, "body": body, "mod": mod}


def gen_drops(rng, stems, uniq, p=0.4):
    if rng.random() >= p:
        return []
    out, seen = [], set()
    for _ in range(rng.choice([1, 1, 2, 3])):
        dr = gen_drop(rng, stems, uniq)
        if dr["name"] not in seen:
            seen.add(dr["name"])
            out.append(dr)
    return out


def gen_junk_dir(rng, uniq):
    """a directory tools leave in a suites directory: nothing in it is a suite module"""
    name = rng.choice(JUNK_DIRS)
    d = {"name": name, "mods": [], "dirs": [], "noise": False, "drops": []}
    if name == "__pycache__":
        d["drops"] = [{"name": "mod_a.cpython-312.pyc", "kind": "pyc", "body": "binary", "mod": None}]
    elif name == ".git":
        d["drops"] = [{"name": "config", "kind": "non-py", "body": "text", "mod": None}]
        if rng.random() < 0.5:
            d["dirs"] = [{"name": "hooks", "mods": [], "dirs": [], "noise": False,
                          "drops": [gen_drop(rng, ["pre_commit"], uniq, rng.choice(["backup-ext", "dunder-file", "hidden-draft"]))]}]
    else:
        d["drops"] = [gen_drop(rng, [], uniq) for _ in range(rng.choice([0, 1, 2]))]
        names = set()
        d["drops"] = [x for x in d["drops"] if not (x["name"] in names or names.add(x["name"]))]
    return d


def gen_dir(rng, name, depth, uniq):
    d = {"name": name, "mods": [], "dirs": [], "noise": rng.random() < 0.2}
    nm = rng.choice([1, 2, 2, 3]) if depth == 0 else rng.choice([0, 1, 1, 2])
    stems = rng.sample(STEMS, nm)
    if stems and rng.random() < 0.12:
        stems[rng.randrange(len(stems))] = rng.choice(ODD_STEMS)
    d["mods"] = [gen_module(rng, s, uniq) for s in sorted(stems)]
    d["drops"] = gen_drops(rng, stems, uniq)
    if depth < 2:
        nd = rng.choice([0, 1, 1, 2]) if depth == 0 else rng.choice([0, 0, 1])
        names = []
        for _ in range(nd):
            if stems and rng.random() < 0.6:
                cand = rng.choice(stems)
            else:
                cand = rng.choice(DIR_ONLY)
            if cand.endswith(".py"):
                continue                 # a directory named `x.py` is itself matched by the scan (see "isdir")
            if cand not in names:
                names.append(cand)
        if rng.random() < 0.05:
            names.append(rng.choice(HIDDEN_DIRS))   # a hidden directory WITH modules: a declared directory like any other
        d["dirs"] = [gen_dir(rng, n, depth + 1, uniq) for n in sorted(names)]
    if rng.random() < 0.2:
        j = gen_junk_dir(rng, uniq)
        if j["name"] not in [x["name"] for x in d["dirs"]]:
            d["dirs"].append(j)
            d["dirs"].sort(key=lambda x: x["name"])
    return d


def gen_layout(rng):
    cnt = [0]

    def uniq():
        cnt[0] += 1
        return cnt[0]
    return gen_dir(rng, "suites", 0, uniq)


# ---------------------------------------------------------------------------------------------
# deliberate defects (malformed stream)
# ---------------------------------------------------------------------------------------------

def _bodies(d, out):
    """every (tests, classes, kind, owner) body of the layout"""
    def cls(c):
        # D18 members are left alone by the defect injection
        out.append(([t for t in c["tests"] if not t["attr"].startswith("__")],
                    [s for s in c["subs"] if not s["attr"].startswith("__")], "class", c))
        for s in c["subs"]:
            if not s["attr"].startswith("__"):
                cls(s)
    for m in d["mods"]:
        out.append((m["tests"], m["classes"], "module", m))
        for c in m["classes"]:
            cls(c)
    for s in d["dirs"]:
        _bodies(s, out)
    return out


def _name_of(x):
    return x.get("name") or x["attr"]


def _desc_of(x):
    return x.get("desc") or _name_of(x).capitalize().replace("_", " ")


def mutate(rng, layout):
    """Inject one defect; returns its kind (or None if not applicable)."""
    bodies = _bodies(layout, [])
    kind = rng.choice(["dup_test_name", "dup_test_desc", "dup_cls_name", "dup_cls_desc", "param_collision", "dir_vs_class",
                       "dir_dup_desc", "broken", "ctor", "missing_key", "dup_test_name", "dup_test_desc", "same_format"])
    if kind in ("dup_test_name", "dup_test_desc"):
        cands = [b for b in bodies if len(b[0]) >= 2]
        if not cands:
            return None
        tests = rng.choice(cands)[0]
        a, b = rng.sample(tests, 2)
        if kind == "dup_test_name":
            b["name"] = _name_of(a)
        else:
            b["desc"] = _desc_of(a)
        r = rng.random()
        if r < 0.2:
            rng.choice([a, b])["vis"] = rng.choice(["hidden", False, _const_cond(rng.choice(FALSY_PVS))])  # then no duplicate for the loader
        elif r < 0.6:
            a["vis"] = b["vis"] = None
        return kind
    if kind in ("dup_cls_name", "dup_cls_desc"):
        cands = [b for b in bodies if len(b[1]) >= 2]
        if not cands:
            return None
        classes = rng.choice(cands)[1]
        a, b = rng.sample(classes, 2)
        if kind == "dup_cls_name":
            b["name"] = _name_of(a)
        else:
            b["desc"] = _desc_of(a)
        r = rng.random()
        if r < 0.2:
            rng.choice([a, b])["vis"] = rng.choice(["hidden", False, _const_cond(rng.choice(FALSY_PVS))])
        elif r < 0.6:
            a["vis"] = b["vis"] = None
        return kind
    if kind == "param_collision":
        cands = [(b[0], t) for b in bodies for t in b[0] if t.get("param") and t["param"]["naming"] is None and t["param"]["sets"]]
        if not cands:
            return None
        tests, t = rng.choice(cands)
        others = [u for u in tests if u is not t]
        if not others:
            return None
        u = rng.choice(others)
        if rng.random() < 0.5:
            u["name"] = "%s_%d" % (_name_of(t), rng.randint(1, len(t["param"]["sets"])))
        else:
            u["desc"] = "%s #%d" % (_desc_of(t), rng.randint(1, len(t["param"]["sets"])))
        u["param"] = None
        return kind
    if kind == "same_format":
        cands = [t for b in bodies for t in b[0] if t.get("param") and len(t["param"]["sets"]) >= 2]
        if not cands:
            return None
        t = rng.choice(cands)
        if rng.random() < 0.5:
            t["param"]["naming"] = {"name": [{"lit": "same"}], "desc": [{"lit": "d "}, {"field": t["param"]["sets"][0][0][0]}]}
        else:
            t["param"]["sets"][1] = copy.deepcopy(t["param"]["sets"][0])
            t["param"]["naming"] = {"name": [{"lit": "n_"}, {"field": t["param"]["sets"][0][0][0]}], "desc": [{"lit": "only"}]}
        t["param"]["style"] = "dict"
        return kind
    if kind in ("dir_vs_class", "dir_dup_desc"):
        # a module with a class and a companion directory whose module suite collides with that class
        def walk(d, out):
            for m in d["mods"]:
                for s in d["dirs"]:
                    if s["name"] == m["stem"] and s["mods"] and m["classes"]:
                        out.append((m, s))
            for s in d["dirs"]:
                walk(s, out)
            return out
        cands = walk(layout, [])
        if not cands:
            return None
        m, s = rng.choice(cands)
        c = rng.choice(m["classes"])
        sm = rng.choice(s["mods"])
        info = sm["info"] or {"name": None, "desc": None, "xrank": None, "vis": None, "tags": [], "props": [], "links": []}
        if kind == "dir_vs_class":
            info["name"] = _name_of(c)
        else:
            info["desc"] = _desc_of(c)
        sm["info"] = info
        return kind
    if kind == "broken":
        mods = [b[3] for b in bodies if b[2] == "module"]
        # the last three: an entry the directory scan accepts by its NAME that is not a Python source at all
        rng.choice(mods)["broken"] = rng.choice(["raise", "syntax", "raise", "syntax", "binary", "dangling", "isdir"])
        return kind
    if kind == "ctor":
        cl = [b[3] for b in bodies if b[2] == "class"]
        if not cl:
            return None
        rng.choice(cl)["ctor_fails"] = True
        return kind
    if kind == "missing_key":
        cands = [t for b in bodies for t in b[0] if t.get("param") and t["param"]["sets"]]
        if not cands:
            return None
        t = rng.choice(cands)
        nm = t["param"]["naming"] or {"name": [{"lit": "p_"}, {"field": t["param"]["sets"][0][0][0]}],
                                      "desc": [{"lit": "P "}, {"field": t["param"]["sets"][0][0][0]}]}
        rng.choice([nm["name"], nm["desc"]]).append({"field": "zz"})
        t["param"]["naming"] = nm
        return kind
    return None


# ---------------------------------------------------------------------------------------------
# rank simulation: what Metadata._next_rank hands out (counter starts at 1)
# ---------------------------------------------------------------------------------------------

def with_ranks(layout, entry="dir", pick=None):
    """Deep copy of the layout with `rank` on tests/classes and `auto_rank` on modules, for the given
    entry point (which decides what gets imported, and in which order)."""
    lay = copy.deepcopy(layout)
    counter = [1]

    def nxt():
        r = counter[0]
        counter[0] += 1
        return r

    def body(tests, classes):
        items = sorted([(t["pos"], 0, t) for t in tests] + [(c["pos"], 1, c) for c in classes], key=lambda x: x[0])
        for _, k, it in items:
            if k == 0:
                it["rank"] = nxt()
            else:
                cls(it)

    def cls(c):
        # the base classes stand in front of the class statement: their decorated methods are numbered first
        for b in c.get("bases") or []:
            body(b.get("tests") or [], [])
        body(c["tests"], c["subs"])
        c["rank"] = nxt() if c.get("xrank") is None else c["xrank"]

    def module(m):
        body(m["tests"], m["classes"])

    def file(m):
        module(m)
        m["auto_rank"] = nxt()

    def directory(d):
        # get_py_files_from_dir sorts the PATHS: file-name order (`a.b.py` < `a.py` although "a" < "a.b")
        for m in sorted(d["mods"], key=lambda m: m["stem"] + ".py"):
            file(m)
        for s in sorted(d["dirs"], key=lambda s: s["name"]):
            directory(s)

    # everything gets *some* rank so that the layout is total; what is not imported keeps rank 0
    def zero(d):
        # droppings are not imported: they consume no rank
        for m in d["mods"] + [x["mod"] for x in d.get("drops") or [] if x.get("mod")]:
            m.setdefault("auto_rank", 0)

            def z(c):
                c.setdefault("rank", 0)
                for t in c["tests"] + inherited_tests(c):
                    t.setdefault("rank", 0)
                for s in c["subs"]:
                    z(s)
            for t in m["tests"]:
                t.setdefault("rank", 0)
            for c in m["classes"]:
                z(c)
        for s in d["dirs"]:
            zero(s)

    if entry == "dir":
        directory(lay)
    elif entry == "files":
        for m in sorted(lay["mods"], key=lambda m: m["stem"] + ".py"):
            file(m)
    elif entry == "file":
        file([m for m in lay["mods"] if m["stem"] == pick][0])
    elif entry == "class":
        module([m for m in lay["mods"] if m["stem"] == pick[0]][0])
    zero(lay)
    return lay


# ---------------------------------------------------------------------------------------------
# rendering to real Python source
# ---------------------------------------------------------------------------------------------

def _tmpl_src(segs):
    out = ""
    for s in segs:
        if "lit" in s:
            out += s["lit"].replace("{", "{{").replace("}", "}}")
        else:
            out += "{%s}" % s["field"]
    return out


def pv_expr(pv):
    """Python source of an expression evaluating to the value PV (helper classes: PRELUDE)"""
    t = pv["t"]
    if t == "none":
        return "None"
    if t == "bool":
        return repr(bool(pv["v"]))
    if t == "int":
        return repr(int(pv["v"]))
    if t == "float":
        k = pv["k"]
        if k == "fin":
            return repr(pv["milli"] / 1000.0)
        if k == "negzero":
            return "-0.0"
        if k == "nan":
            return "float('nan')"
        return "float('-inf')" if pv.get("neg") else "float('inf')"
    if t == "str":
        return repr(pv["v"])
    if t == "list":
        return "[" + ", ".join(["0", "None", "False"][i % 3] for i in range(pv["n"])) + "]"
    if t == "tuple":
        return "(" + "".join("%s, " % ["0", "None", "False"][i % 3] for i in range(pv["n"])) + ")"
    if t == "dict":
        return "{" + ", ".join("%d: 0" % i for i in range(pv["n"])) + "}"
    if t == "obj":
        return "object()"
    if t == "objbool":
        return "_VB(%r)" % bool(pv["v"])
    if t == "objlen":
        return "_VL(%d)" % pv["n"]
    raise ValueError(pv)


def _cond_body(v, var, kind, attr):
    """the expression the condition evaluates (with `var` bound to the object it receives)"""
    if v is True or v is False:
        return repr(v)
    via = v["via"]
    if via == "const":
        return pv_expr(v["pv"])
    if via == "env":
        return "os.environ.get(%r)" % ("LCCV_" + v["key"])
    if via == "envint":
        return "int(os.environ.get(%r, '0'))" % ("LCCV_" + v["key"])
    if via == "attr":
        return "%s.lccv_%s" % (var, v["key"])
    if via == "len":
        return "len(%s.lccv_%s)" % (var, v["key"])
    if via == "count":
        return "%s.__name__.count('_')" % (var if kind == "test" else "type(%s)" % var)
    raise ValueError(via)


def cond_src(v, var, kind, attr):
    """source of the callable handed to visible_if / SUITE['visible_if']"""
    lam = "lambda %s: %s" % (var, _cond_body(v, var, kind, attr))
    call = v.get("callable", "lambda") if isinstance(v, dict) else "lambda"
    if call == "lambda":
        return lam
    return "_VC(%r, %s)" % (call != "falsy-obj", lam)


def cond_defs(v, target, attr):
    """assignments that give the object the condition receives the attribute it reads (`target`: prefix of the
    assignment: '' inside a class body / at module level, '<function name>.' for a test)"""
    if not isinstance(v, dict) or v["via"] not in ("attr", "len"):
        return []
    pv = cond_pv(v, attr)
    if v["via"] == "attr":
        return ["%slccv_%s = %s" % (target, v["key"], pv_expr(pv))]
    return ["%slccv_%s = [%s]" % (target, v["key"], ", ".join("None" for _ in range(pv["v"])))]


def _vis_deco(v, what, kind="test", attr=None):
    if v is None:
        return None
    if v == "hidden":
        return "@lcc.hidden()"
    return "@lcc.visible_if(%s)" % cond_src(v, what, kind, attr)


def _meta_decos(it, rng_bits):
    """metadata decorators in *application* order (first applied first)"""
    decos = []
    tags = it.get("tags") or []
    if tags:
        if len(tags) >= 2 and rng_bits % 2:
            decos.append("@lcc.tags(%s)" % ", ".join(repr(t) for t in tags[:1]))
            decos.append("@lcc.tags(%s)" % ", ".join(repr(t) for t in tags[1:]))
        else:
            decos.append("@lcc.tags(%s)" % ", ".join(repr(t) for t in tags))
    for k, v in it.get("props") or []:
        decos.append("@lcc.prop(%r, %r)" % (k, v))
    for u, n in it.get("links") or []:
        decos.append("@lcc.link(%r)" % u if n is None else "@lcc.link(%r, %r)" % (u, n))
    d = it.get("disabled")
    if d is True:
        decos.append("@lcc.disabled()")
    elif isinstance(d, str):
        decos.append("@lcc.disabled(%r)" % d)
    return decos


def _param_deco(p):
    sets = p["sets"]
    if p["style"] == "dict":
        src = "[" + ", ".join("{" + ", ".join("%r: %r" % (k, v) for k, v in s) + "}" for s in sets) + "]"
    else:
        keys = csv_keys(p)
        header = repr(csv_header(p)) if p["style"] == "csv" else repr(tuple(keys))
        rows = ", ".join(repr(tuple(v for _, v in s)) for s in sets)
        src = "(" + header + ", " + rows + ("," if rows else "") + ")"
    if p["naming"] is None:
        return "@lcc.parametrized(%s)" % src
    return "@lcc.parametrized(%s, naming_scheme=(%r, %r))" % (src, _tmpl_src(p["naming"]["name"]), _tmpl_src(p["naming"]["desc"]))


def _test_src(t, ind, method):
    args = []
    if t.get("desc") is not None:
        args.append(repr(t["desc"]))
    if t.get("name") is not None:
        args.append("name=%r" % t["name"])
    first = "@lcc.test(%s)" % ", ".join(args)
    bits = sum(ord(ch) for ch in t["attr"]) + t["pos"]
    decos = _meta_decos(t, bits)
    v = _vis_deco(t.get("vis"), "t", "test", t["attr"])
    if v:
        decos.append(v)
    if t.get("param"):
        decos.append(_param_deco(t["param"]))
    # @lcc.test goes first, last or in the middle (application order)
    k = bits % (len(decos) + 1)
    decos.insert(k, first)
    params = []
    if t.get("param"):
        seen = []
        for s in t["param"]["sets"]:
            for key, _ in s:
                if key not in seen:
                    seen.append(key)
        params = ["%s=None" % key for key in seen]
    sig = ", ".join((["self"] if method else []) + params)
    lines = [ind + d for d in reversed(decos)]
    lines.append(ind + "def %s(%s):" % (t["attr"], sig))
    lines.append(ind + "    pass")
    lines += [ind + d for d in cond_defs(t.get("vis"), t["attr"] + ".", t["attr"])]
    return lines


def _cls_src(c, ind):
    args = []
    if c.get("desc") is not None:
        args.append(repr(c["desc"]))
    if c.get("name") is not None:
        args.append("name=%r" % c["name"])
    if c.get("xrank") is not None:
        args.append("rank=%d" % c["xrank"])
    first = "@lcc.suite(%s)" % ", ".join(args)
    bits = sum(ord(ch) for ch in c["attr"]) + c["pos"]
    decos = _meta_decos(c, bits)
    v = _vis_deco(c.get("vis"), "s", "class", c["attr"])
    if v:
        decos.append(v)
    decos.insert(bits % (len(decos) + 1), first)
    lines = []
    base_names = []
    for i, b in enumerate(c.get("bases") or []):
        bn = "_Base_%s_%d" % (c["attr"].strip("_"), i)
        lines += _base_src(b, bn, ind)
        base_names.append(bn)
    lines += [ind + d for d in reversed(decos)]
    lines.append(ind + "class %s%s:" % (c["attr"], "(%s)" % ", ".join(base_names) if base_names else ""))
    inner = ind + "    "
    lines.append(inner + "some_attribute = 42")
    for pr in c.get("own_props") or []:
        lines += _prop_src(pr, inner)
    lines += [inner + d for d in cond_defs(c.get("vis"), "", c["attr"])]
    if c.get("ctor_fails"):
        lines.append(inner + "def __init__(self):")
        lines.append(inner + "    raise RuntimeError('boom')")
    lines.append(inner + "def helper(self):")
    lines.append(inner + "    return 1")
    lines += _body_src(c["tests"], c["subs"], inner, True)
    return lines


def _prop_src(pr, ind):
    """a property whose getter only works at run time (or hands out a member of the suite)"""
    g = pr["getter"]
    body = {"raise-attr": "return self._injected_later.%s" % pr["name"],
            "raise-runtime": "raise RuntimeError('%s is only available while the suite runs')" % pr["name"],
            "returns-test": "return getattr(self, %r)" % pr.get("target"),
            "returns-suite": "return getattr(type(self), %r)" % pr.get("target"),
            "fixture": "return self.api.session",
            "value": "return 42"}[g]
    return [ind + "@property", ind + "def %s(self):" % pr["name"], ind + "    " + body]


def _base_src(b, name, ind):
    lines, ups = [], []
    for i, u in enumerate(b["up"]):
        un = "%s_up%d" % (name, i)
        lines += _base_src(u, un, ind)
        ups.append(un)
    lines.append(ind + "class %s(%s):" % (name, ", ".join(ups) or "object"))
    inner = ind + "    "
    for a in b["attrs"]:
        lines.append(inner + ("%s = lcc.inject_fixture('fixt_%s')" % (a, a) if a == "api" else "%s = 30" % a))
    for pr in b["props"]:
        lines += _prop_src(pr, inner)
    lines += _body_src(b.get("tests") or [], [], inner, True)
    if not b["attrs"] and not b["props"] and not b.get("tests"):
        lines.append(inner + "pass")
    lines.append("")
    return lines


def _body_src(tests, classes, ind, method):
    items = sorted([(t["pos"], 0, t) for t in tests] + [(c["pos"], 1, c) for c in classes], key=lambda x: x[0])
    lines = []
    for _, k, it in items:
        lines += _test_src(it, ind, method) if k == 0 else _cls_src(it, ind)
        lines.append("")
    return lines


def module_src(m):
    lines = PRELUDE.split("\n")
    if m.get("broken") == "syntax":
        lines.append("def broken(:")
    info = m.get("info")
    if info is not None:
        ents = []
        if info.get("name") is not None:
            ents.append("'name': %r" % info["name"])
        if info.get("desc") is not None:
            ents.append("'description': %r" % info["desc"])
        if info.get("tags"):
            ents.append("'tags': %r" % list(info["tags"]))
        if info.get("props"):
            ents.append("'properties': {%s}" % ", ".join("%r: %r" % (k, v) for k, v in info["props"]))
        if info.get("links"):
            ents.append("'links': [%s]" % ", ".join(repr(u) if n is None else repr((u, n)) for u, n in info["links"]))
        if info.get("xrank") is not None:
            ents.append("'rank': %d" % info["xrank"])
        if info.get("vis") is not None:
            ents.append("'visible_if': %s" % cond_src(info["vis"], "mod", "module", None))
        lines.append("SUITE = {%s}" % ", ".join(ents))
        lines += cond_defs(info.get("vis"), "", None)
        lines.append("")
    lines.append("def not_a_test():")
    lines.append("    pass")
    lines.append("")
    lines += _body_src(m["tests"], m["classes"], "", False)
    if m.get("broken") == "raise":
        lines.append("raise RuntimeError('boom at import')")
    return "\n".join(lines) + "\n"


IMPORT_MARKER = ("import os as _lccv_os\n"
                 "with open(_lccv_os.environ.get('LCCV_IMPORT_LOG') or _lccv_os.devnull, 'a') as _lccv_fh:\n"
                 "    _lccv_fh.write(__file__ + '\\n')\n")
APPLEDOUBLE = b"\x00\x05\x16\x07\x00\x02\x00\x00Mac OS X        " + bytes(range(32)) * 4


def _write_entry(p, body, mod):
    """one directory entry that is not a well-formed suite module: by what it IS (the name is the caller's business)"""
    if body == "dangling":
        os.symlink("user@host.1234:1700000000", p)
    elif body == "binary":
        with open(p, "wb") as fh:
            fh.write(APPLEDOUBLE)
    elif body == "isdir":
        os.makedirs(p, exist_ok=True)
    elif body == "text":
        with open(p, "w") as fh:
            fh.write("not python\n")
    else:
        with open(p, "w", encoding="utf-8") as fh:
            fh.write("# -*- coding: utf-8 -*-\n" + IMPORT_MARKER + module_src(mod))


def render(d, path):
    """Write the directory layout `d` at `path` (created)."""
    os.makedirs(path, exist_ok=True)
    if d.get("noise"):
        with open(os.path.join(path, "__init__.py"), "w") as fh:
            fh.write("import lemoncheesecake.api as lcc\n@lcc.test('never')\ndef never():\n    pass\n")
        with open(os.path.join(path, "notes.txt"), "w") as fh:
            fh.write("not python\n")
        os.makedirs(os.path.join(path, "__pycache__"), exist_ok=True)
    for m in d["mods"]:
        if m.get("broken") in ("binary", "dangling", "isdir"):
            _write_entry(os.path.join(path, m["stem"] + ".py"), m["broken"], None)
            continue
        with open(os.path.join(path, m["stem"] + ".py"), "w", encoding="utf-8") as fh:
            fh.write("# -*- coding: utf-8 -*-\n" + module_src(m))
    for dr in d.get("drops") or []:
        _write_entry(os.path.join(path, dr["name"]), dr["body"], dr.get("mod"))
    for s in d["dirs"]:
        render(s, os.path.join(path, s["name"]))
